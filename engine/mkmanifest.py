#!/usr/bin/env python3
"""Regenerates /verif/MANIFEST.json from the check registry (checks.py) and validates it."""
import os, sys, json, subprocess
HERE = os.path.dirname(os.path.dirname(os.path.abspath(__file__)))
sys.path.insert(0, HERE)
sys.path.insert(0, os.path.join(HERE, 'engine'))
import checks

ALL = ['C%02d' % i for i in range(1, 21)]


def hook_commits():
    try:
        out = subprocess.run(['git', '-C', '/repo', 'log', '--format=%h %s'], stdout=subprocess.PIPE, text=True).stdout
        return [l.split()[0] for l in out.splitlines() if l.split(' ', 1)[1].startswith('verif hooks')]
    except Exception:
        return []


def main():
    m = {
        'version': 1,
        'setup_cmd': './check --setup',
        'hooks': {
            'guard': 'MUSCLE_VERIF_HOOKS',
            'enable': 'every check compiles /repo\'s sources itself (engine/build.py) with -DMUSCLE_VERIF_HOOKS; the hooks are inert unless a harness installs a hook table',
            'baseline_off_cmd': 'cmake --build /repo/_build && ctest --test-dir /repo/_build -j8 --timeout 900',
            'source_commits': hook_commits(),
            'add_only': True,
        },
        'engines': checks.ENGINES,
        'checks': [],
        'notes': checks.NOTES,
        'not_applicable': [],
    }
    for pid in ALL:
        if pid in checks.CHECKS:
            c = checks.CHECKS[pid]
            m['checks'].append({
                'property_id': pid,
                'quick_cmd': './check %s --tier quick' % pid,
                'thorough_cmd': './check %s --tier thorough' % pid,
                'evidence_file': 'evidence/%s.json' % pid,
                'replay_cmd_template': './check %s --replay {path}' % pid,
                'engine': c.get('engine', 'PR seeded byte-decoded runner (quick) + libFuzzer (thorough)'),
                'level_claimed': {'category': c.get('level', 'exploration'), 'text': c['level_text'], 'design_ref': c.get('design_ref', 'DESIGN.md section 5, ' + pid)},
                'level_note': c['level_note'],
                'technique': c['technique'],
            })
        else:
            m['not_applicable'].append({'property_id': pid, 'reason': checks.NOT_YET.get(pid, 'check not built yet in this round; the design for it is in DESIGN.md section 5')})
    p = os.path.join(HERE, 'MANIFEST.json')
    json.dump(m, open(p, 'w'), indent=1)
    try:
        import jsonschema
        jsonschema.validate(m, json.load(open(os.path.join(HERE, 'engine', 'MANIFEST.schema.json'))))
        print('MANIFEST.json written and valid: %d checks, %d not applicable' % (len(m['checks']), len(m['not_applicable'])))
    except ImportError:
        print('MANIFEST.json written (jsonschema not available to validate)')


if __name__ == '__main__':
    main()
