// Engine PR: seeded standalone runner.  A pure function of (tree, seed): generates N byte strings
// from a splitmix64 stream and hands each to vf_run_case(); or replays saved inputs.
#include "harness.h"
#include <signal.h>
#include <errno.h>
#include <atomic>
#include <thread>
#include <time.h>
#include <unistd.h>
#include <fcntl.h>
#include <sys/mman.h>
#include <sys/stat.h>

namespace vf {extern uint64_t g_evaluations; void BeginCase();}

static inline uint64_t splitmix64(uint64_t & x) {uint64_t z = (x += 0x9E3779B97F4A7C15ULL); z = (z ^ (z >> 30)) * 0xBF58476D1CE4E5B9ULL; z = (z ^ (z >> 27)) * 0x94D049BB133111EBULL; return z ^ (z >> 31);}

static uint8_t * g_cur = NULL; static size_t g_curCap = 0;
static timer_t g_timer; static bool g_haveTimer = false; static double g_budgetS = 20.0;

static void OnCpuTimeout(int)
{
   static const char msg[] = "\nVERIF-TIMEOUT: case exceeded its CPU-time budget\n";
   ssize_t r = write(2, msg, sizeof(msg)-1); (void) r;
   _exit(98);
}

// Stall watchdog: a case that is still the current one at two consecutive ticks of a wall-clock timer while the process used (almost) no CPU in between is blocked where
// nothing will wake it -- threads waiting for each other in the operating system, out of sight of the harness-owned scheduler.  CPU starvation under load does not trip it: a
// process that is merely slow keeps consuming CPU.
static double g_stallS = 45.0; static std::atomic<uint64_t> g_caseNo(0);
static void StallWatchdog()
{
   // its own thread and no signals: a signal could interrupt a system call of the code under test
   uint64_t tickCase = (uint64_t)-1; double tickCpu = 0.0;
   while(true)
   {
      struct timespec nap; nap.tv_sec = (time_t) g_stallS; nap.tv_nsec = 0; while((nanosleep(&nap, &nap) != 0)&&(errno == EINTR)) {/* go on sleeping */}
      struct timespec ts; clock_gettime(CLOCK_PROCESS_CPUTIME_ID, &ts); const double cpu = (double)ts.tv_sec+(double)ts.tv_nsec*1e-9;
      const uint64_t cn = g_caseNo.load(std::memory_order_relaxed);
      if ((tickCase == cn)&&(cpu-tickCpu < 0.5))
      {
         static const char msg[] = "\nVERIF-STALL: case is blocked: no progress and no CPU used between two watchdog ticks (threads waiting for each other outside the scheduler's view)\n";
         ssize_t r = write(2, msg, sizeof(msg)-1); (void) r;
         _exit(97);
      }
      tickCase = cn; tickCpu = cpu;
   }
}

static void ArmTimer()
{
   g_caseNo.fetch_add(1, std::memory_order_relaxed);
   if (g_haveTimer == false) return;
   struct itimerspec its; memset(&its, 0, sizeof(its));
   its.it_value.tv_sec = (time_t) g_budgetS; its.it_value.tv_nsec = (long)((g_budgetS-(double)(time_t)g_budgetS)*1e9);
   timer_settime(g_timer, 0, &its, NULL);
}

static void SetCur(const uint8_t * d, size_t n)
{
   if (g_cur == NULL) return;
   if (n > g_curCap-8) n = g_curCap-8;
   memcpy(g_cur+8, d, n);
   const uint64_t n64 = n; memcpy(g_cur, &n64, 8);
}

static int ReplayFile(const char * path)
{
   FILE * f = fopen(path, "rb");
   if (f == NULL) {fprintf(stderr, "cannot open %s\n", path); return 2;}
   std::vector<uint8_t> buf; uint8_t tmp[65536]; size_t r;
   while((r = fread(tmp, 1, sizeof(tmp), f)) > 0) buf.insert(buf.end(), tmp, tmp+r);
   fclose(f);
   vf::BeginCase(); ArmTimer();
   (void) vf_run_case(buf.empty() ? (const uint8_t *)"" : &buf[0], buf.size());
   return 0;
}

int main(int argc, char ** argv)
{
   uint64_t n = 0, seed = 1; size_t maxlen = 256; const char * curPath = NULL; std::vector<const char *> replays; int byteMode = -1;
   for (int i=1; i<argc; i++)
   {
      if ((strcmp(argv[i], "--gen") == 0)&&(i+1 < argc)) n = strtoull(argv[++i], NULL, 10);
      else if ((strcmp(argv[i], "--seed") == 0)&&(i+1 < argc)) seed = strtoull(argv[++i], NULL, 10);
      else if ((strcmp(argv[i], "--maxlen") == 0)&&(i+1 < argc)) maxlen = strtoull(argv[++i], NULL, 10);
      else if ((strcmp(argv[i], "--cur") == 0)&&(i+1 < argc)) curPath = argv[++i];
      else if ((strcmp(argv[i], "--budget") == 0)&&(i+1 < argc)) g_budgetS = atof(argv[++i]);
      else if ((strcmp(argv[i], "--stall") == 0)&&(i+1 < argc)) g_stallS = atof(argv[++i]);
      else if ((strcmp(argv[i], "--bytemode") == 0)&&(i+1 < argc)) byteMode = atoi(argv[++i]);
      else if (strcmp(argv[i], "--replay") == 0) {while(i+1 < argc) replays.push_back(argv[++i]);}
      else {fprintf(stderr, "usage: %s [--gen N --seed S --maxlen L --cur FILE --budget CPUSECONDS] | --replay FILE...\n", argv[0]); return 2;}
   }

   // CPU-time watchdog (process CPU clock, not wall clock)
   {
      struct sigaction sa; memset(&sa, 0, sizeof(sa)); sa.sa_handler = OnCpuTimeout; sigaction(SIGUSR2, &sa, NULL);
      struct sigevent sev; memset(&sev, 0, sizeof(sev)); sev.sigev_notify = SIGEV_SIGNAL; sev.sigev_signo = SIGUSR2;
      if (timer_create(CLOCK_PROCESS_CPUTIME_ID, &sev, &g_timer) == 0) g_haveTimer = true;
   }
   if (g_stallS > 0.0) {std::thread wd(StallWatchdog); wd.detach();}

   if (curPath)
   {
      g_curCap = maxlen+8+4096;
      const int fd = open(curPath, O_RDWR|O_CREAT|O_TRUNC, 0644);
      if ((fd >= 0)&&(ftruncate(fd, (off_t)g_curCap) == 0))
      {
         void * m = mmap(NULL, g_curCap, PROT_READ|PROT_WRITE, MAP_SHARED, fd, 0);
         if (m != MAP_FAILED) g_cur = (uint8_t *) m;
      }
      if (fd >= 0) close(fd);
   }

   if (replays.size())
   {
      for (size_t i=0; i<replays.size(); i++) {const int r = ReplayFile(replays[i]); if (r) return r;}
      vf::FlushStats();
      printf("REPLAY-OK %zu file(s)\n", replays.size());
      fflush(stdout);
      _exit(0);   // skip static destructors: pooled muscle objects held by harness statics are not a finding
   }

   std::vector<uint8_t> buf(maxlen+1);
   uint64_t rng = seed*0x2545F4914F6CDD1DULL + 0x1234567;
   for (uint64_t c=0; c<n; c++)
   {
      const uint64_t k = splitmix64(rng);
      size_t len;
      switch(k%10)
      {
         case 0:                 len = (size_t)((k>>8)%9);                                  break;
         case 1: case 2: case 3: len = (size_t)((k>>8)%((maxlen/8)+1));                     break;
         default:                len = (size_t)((k>>8)%(maxlen+1));                         break;
      }
      const int mode = (byteMode >= 0) ? byteMode : (int)((k>>40)%4);
      for (size_t i=0; i<len; )
      {
         uint64_t r = splitmix64(rng);
         for (int j=0; (j<8)&&(i<len); j++, i++, r >>= 8)
         {
            uint8_t b = (uint8_t) r;
            if (mode == 1) {if (b & 0x80) b &= 0x0F;}                        // half of the bytes are small numbers
            else if (mode == 2) {if ((b & 0xC0) == 0xC0) b = (i > 0) ? buf[i-1] : 0;}   // a quarter repeat the previous byte
            else if (mode == 3) {if (b & 0x80) b &= 0x07; else if (b & 0x40) b = (uint8_t)(0xF8|(b&7));}  // extremes
            buf[i] = b;
         }
      }
      SetCur(&buf[0], len);
      vf::BeginCase(); ArmTimer();
      (void) vf_run_case(&buf[0], len);
   }
   vf::FlushStats();
   printf("GEN-OK %llu case(s)\n", (unsigned long long) n);
   fflush(stdout);
   _exit(0);
}
