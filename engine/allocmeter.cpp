// Allocation meter: counts bytes *requested* (granted or not) by everything in the process.
// Linked only into harnesses that ask for it, with -Wl,--wrap=malloc,--wrap=realloc,--wrap=calloc.
#include <stdlib.h>
#include <stdio.h>
#include <new>
extern "C" {
void * __real_malloc(size_t); void * __real_realloc(void *, size_t); void * __real_calloc(size_t, size_t);
volatile size_t g_meter_req = 0; volatile size_t g_meter_max = 0; volatile size_t g_meter_calls = 0;
static inline void tally(size_t n) {g_meter_req += n; g_meter_calls++; if (n > g_meter_max) g_meter_max = n;}
void * __wrap_malloc(size_t n) {tally(n); return __real_malloc(n);}
void * __wrap_realloc(void * p, size_t n) {tally(n); return __real_realloc(p, n);}
void * __wrap_calloc(size_t a, size_t b) {tally(a*b); return __real_calloc(a, b);}
}
void * operator new(size_t n) {void * p = malloc(n); if (!p) abort(); return p;}
void * operator new[](size_t n) {void * p = malloc(n); if (!p) abort(); return p;}
void * operator new(size_t n, const std::nothrow_t &) noexcept {return malloc(n);}
void * operator new[](size_t n, const std::nothrow_t &) noexcept {return malloc(n);}
void operator delete(void * p) noexcept {free(p);}
void operator delete[](void * p) noexcept {free(p);}
void operator delete(void * p, size_t) noexcept {free(p);}
void operator delete[](void * p, size_t) noexcept {free(p);}
void operator delete(void * p, const std::nothrow_t &) noexcept {free(p);}
void operator delete[](void * p, const std::nothrow_t &) noexcept {free(p);}
