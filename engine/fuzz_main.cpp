// Engine FZ: libFuzzer glue.  Link with -fsanitize=fuzzer.
#include "harness.h"
namespace vf {extern uint64_t g_evaluations; void BeginCase();}
static void AtExit() {vf::FlushStats();}
extern "C" int LLVMFuzzerInitialize(int *, char ***) {atexit(AtExit); return 0;}
extern "C" int LLVMFuzzerTestOneInput(const uint8_t * data, size_t size)
{
   vf::BeginCase();
   (void) vf_run_case(data, size);
   return 0;
}
