"""Check driver: build -> regression/known-finding replay -> seeded generation -> (thorough: libFuzzer)
-> triage -> evidence.  See DESIGN.md 2.5 / 3.6."""
import atexit, shutil
import os, sys, json, time, glob, shutil, subprocess, hashlib, array, re, signal
from concurrent.futures import ThreadPoolExecutor

sys.path.insert(0, os.path.dirname(os.path.abspath(__file__)))
import build as B

VERIF = B.VERIF
WORK = os.path.join(VERIF, 'work')
NPROC = int(os.environ.get('VERIF_JOBS', '16'))

ASAN_ENV = {
    'ASAN_OPTIONS': 'detect_leaks=0:allocator_may_return_null=1:max_allocation_size_mb=256:alloc_dealloc_mismatch=0:handle_abort=1:abort_on_error=0:symbolize=1',
    'UBSAN_OPTIONS': 'halt_on_error=1:print_stacktrace=1',
    'TSAN_OPTIONS': 'halt_on_error=1:second_deadlock_stack=1:exitcode=66',
    'ASAN_SYMBOLIZER_PATH': '/usr/bin/llvm-symbolizer-14',
}


def log(*a):
    print(*a, flush=True)


def load_known():
    p = os.path.join(VERIF, 'known_findings.json')
    if not os.path.exists(p):
        return []
    return json.load(open(p)).get('findings', [])


def env_for(extra=None):
    e = dict(os.environ)
    e.update(ASAN_ENV)
    e.pop('VERIF_ALLOW_KNOWN', None)
    e.pop('VERIF_VERBOSE', None)
    e.pop('VERIF_STATS', None)
    e.pop('VERIF_STATS_DIR', None)
    if extra:
        e.update(extra)
    return e


def run_replay(exe, path, extra_env=None, budget=None, timeout=600, args=None):
    """Returns (rc, output tail)."""
    cmd = [exe] + (args or [])
    if budget:
        cmd += ['--budget', str(budget)]
    cmd += ['--replay', path]
    try:
        p = subprocess.run(cmd, env=env_for(extra_env), stdout=subprocess.PIPE, stderr=subprocess.STDOUT, timeout=timeout)
        out = p.stdout.decode('utf-8', 'replace')
        return p.returncode, out[-20000:]
    except subprocess.TimeoutExpired as ex:
        return 98, 'wall-clock limit of the replay wrapper hit'


def fail_summary(out):
    """One line describing the failure, from the harness / sanitizer output."""
    for pat in (r'VERIF-FAIL\[[^\]]*\]: .*', r'VERIF-TIMEOUT.*', r'VERIF-STALL.*', r'==\d+==ERROR: AddressSanitizer: [^\n]*', r'[^\n]*runtime error: [^\n]*',
                r'WARNING: ThreadSanitizer: [^\n]*', r'ASSERTION FAILED[^\n]*', r'MCRASH[^\n]*', r'[^\n]*Assertion [^\n]* failed[^\n]*', r'AddressSanitizer:DEADLYSIGNAL'):
        m = re.search(pat, out)
        if m:
            s = m.group(0).strip()
            # add the first muscle / harness frames for sanitizer reports
            frames = re.findall(r'#\d+ 0x[0-9a-f]+ in ([^\n]+)', out)
            fr = [f for f in frames if ('/repo/' in f or '/verif/' in f)][:3]
            if fr and not s.startswith('VERIF-FAIL'):
                s += ' @ ' + ' <- '.join(x.split(' /')[0][:80] for x in fr)
            return s[:600]
    tail = [l for l in out.strip().splitlines() if l.strip()]
    return (tail[-1] if tail else 'abnormal exit')[:300]


def fail_class(summary):
    s = re.sub(r'0x[0-9a-f]+', 'X', summary)
    s = re.sub(r'\d+', 'N', s)
    return s[:160]


class Target:
    def __init__(self, prop, spec):
        self.prop = prop
        self.spec = spec
        self.name = spec['name']
        self.maxlen = spec.get('maxlen', 256)
        self.budget = spec.get('budget', 20)
        self.args = spec.get('args', [])
        self.exes = {}
        self.wdir = os.path.join(WORK, prop, '%s.%d' % (self.name, os.getpid()))     # private to this run: two runs of one check at the same time must not share worker files
        atexit.register(shutil.rmtree, self.wdir, True)

    def build(self, engines):
        self.exes = B.build_harness(self.name, self.spec, engines)

    @property
    def pr(self):
        return self.exes['pr']


def ddmin(target, data, budget_s=40, extra_env=None, want_class=None):
    """Byte-level delta debugging with the standalone runner as the test."""
    t0 = time.time()
    tmpd = os.path.join(target.wdir, 'ddmin')
    os.makedirs(tmpd, exist_ok=True)
    counter = [0]

    def fails(cand):
        counter[0] += 1
        p = os.path.join(tmpd, 'c%d_%d.bin' % (os.getpid(), counter[0]))
        with open(p, 'wb') as f:
            f.write(cand)
        rc, out = run_replay(target.pr, p, extra_env, target.budget, args=target.args)
        os.unlink(p)
        if rc == 0:
            return False
        if want_class and fail_class(fail_summary(out)) != want_class:
            return False
        return True

    cur = bytes(data)
    n = 2
    while len(cur) >= 1 and time.time() - t0 < budget_s:
        chunk = max(1, len(cur) // n)
        cands = []
        for i in range(0, len(cur), chunk):
            cands.append(cur[:i] + cur[i + chunk:])
        progressed = False
        with ThreadPoolExecutor(max_workers=NPROC) as ex:
            res = list(ex.map(fails, cands))
        for c, r in zip(cands, res):
            if r and len(c) < len(cur):
                cur = c
                n = max(n - 1, 2)
                progressed = True
                break
        if not progressed:
            if chunk == 1:
                break
            n = min(len(cur), n * 2)
    # second pass: try to zero bytes (simpler decoded choices)
    i = 0
    while i < len(cur) and time.time() - t0 < budget_s * 1.5:
        idxs = [j for j in range(i, min(len(cur), i + NPROC)) if cur[j] != 0]
        cands = [cur[:j] + b'\0' + cur[j + 1:] for j in idxs]
        if cands:
            with ThreadPoolExecutor(max_workers=NPROC) as ex:
                res = list(ex.map(fails, cands))
            first = True
            for j, r in zip(idxs, res):
                if r:
                    # candidates were tested against the same base; re-test all but the first after applying earlier ones
                    test = cur[:j] + b'\0' + cur[j + 1:]
                    if first or fails(test):
                        cur = test
                    first = False
        i += NPROC
    shutil.rmtree(tmpd, ignore_errors=True)
    return cur


class Runner:
    def __init__(self, prop_id, cfg, tier, seed):
        self.id = prop_id
        self.cfg = cfg
        self.tier = tier
        self.seed = seed
        self.t0 = time.time()
        self.violations = []      # (target, replay path, summary)
        self.known_lines = []
        self.inconclusive = []
        self.flaky = []
        self.harness_errors = []
        self.tstats = {}
        self.known = [k for k in load_known() if k.get('property') == prop_id]

    # ---- replay tiers -------------------------------------------------------------------
    def replay_dir(self, t, sub):
        d = os.path.join(VERIF, 'corpus', self.id, t.name, sub)
        return sorted(f for f in glob.glob(os.path.join(d, '*')) if os.path.isfile(f) and not f.endswith('.txt'))

    def triage(self, t, path, extra_env=None, label='candidate'):
        """Replay 3x; returns (reproducible, summary, rc)."""
        rcs = []
        outs = []
        for _ in range(3):
            rc, out = run_replay(t.pr, path, extra_env, t.budget, args=t.args)
            rcs.append(rc)
            outs.append(out)
        bad = [i for i, r in enumerate(rcs) if r != 0]
        # sanitizer reports from free-running threads (TSan targets) are probabilistic: such targets accept fewer than 3 of 3
        if len(bad) >= t.spec.get('repro_min', 3):
            return True, fail_summary(outs[bad[0]]), rcs[bad[0]], outs[bad[0]]
        if bad:
            return False, 'flaky: %d/3 replays failed: %s' % (len(bad), fail_summary(outs[bad[0]])), rcs[bad[0]], outs[bad[0]]
        return False, 'not reproducible', 0, ''

    def save_violation(self, t, data, summary, out, minimise=True, extra_env=None):
        rd = os.path.join(VERIF, 'replays', self.id)
        os.makedirs(rd, exist_ok=True)
        if minimise and len(data) > 1:
            try:
                data = ddmin(t, data, extra_env=extra_env, want_class=fail_class(summary))
            except Exception as ex:   # minimisation is best effort
                log('  (minimisation skipped: %s)' % ex)
        h = hashlib.sha1(data).hexdigest()[:10]
        path = os.path.join(rd, '%s__%s.bin' % (t.name, h))
        with open(path, 'wb') as f:
            f.write(data)
        rc, vout = run_replay(t.pr, path, dict(extra_env or {}, VERIF_VERBOSE='1'), t.budget, args=t.args)
        with open(path + '.txt', 'w') as f:
            f.write('property %s target %s\n%s\n\nreplay: ./check %s --replay %s\n\n---- verbose replay output ----\n%s\n' % (self.id, t.name, fail_summary(vout) if rc else summary, self.id, path, vout[-12000:]))
        return path

    def is_timeout_violation(self, t):
        return bool(t.spec.get('timeout_is_violation'))

    def handle_candidate(self, t, data, why, extra_env=None):
        os.makedirs(t.wdir, exist_ok=True)
        cand = os.path.join(t.wdir, 'cand_%s.bin' % hashlib.sha1(data).hexdigest()[:10])
        with open(cand, 'wb') as f:
            f.write(data)
        ok, summary, rc, out = self.triage(t, cand, extra_env)
        if not ok:
            self.flaky.append({'target': t.name, 'why': why, 'triage': summary, 'input_sha1': hashlib.sha1(data).hexdigest()})
            log('  candidate from %s did not reproduce 3x: %s' % (why, summary))
            return False
        if rc == 98 and not self.is_timeout_violation(t):
            self.inconclusive.append({'target': t.name, 'what': 'case exceeded the CPU budget (not a violation for this property)', 'input_sha1': hashlib.sha1(data).hexdigest()})
            log('  timeout candidate: inconclusive for this property')
            return False
        if rc == 97 and not t.spec.get('stall_is_violation'):
            self.inconclusive.append({'target': t.name, 'what': 'case blocked with the CPU idle (not a violation for this property)', 'input_sha1': hashlib.sha1(data).hexdigest()})
            log('  stalled candidate: inconclusive for this property')
            return False
        path = self.save_violation(t, data, summary, out, minimise=(rc not in (97, 98)), extra_env=extra_env)
        self.violations.append((t.name, path, summary))
        log('  reproducible failure: %s' % summary)
        return True

    def replay_tier(self, t):
        n = 0
        # regression inputs and seeds: must pass
        for sub in ('regress', 'seeds'):
            files = self.replay_dir(t, sub)
            if not files:
                continue

            def one(f):
                return f, run_replay(t.pr, f, None, t.budget, args=t.args)
            with ThreadPoolExecutor(max_workers=NPROC) as ex:
                for f, (rc, out) in ex.map(one, files):
                    n += 1
                    if rc != 0:
                        data = open(f, 'rb').read()
                        log('  %s input %s fails: %s' % (sub, os.path.basename(f), fail_summary(out)))
                        self.handle_candidate(t, data, '%s/%s' % (sub, os.path.basename(f)))
        # known findings: expected to fail while open
        for k in self.known:
            if k.get('status') != 'open' or k.get('target') != t.name:
                continue
            f = os.path.join(VERIF, k['replay'])
            env = {'VERIF_ALLOW_KNOWN': k['id']}
            rc, out = run_replay(t.pr, f, env, k.get('budget', t.budget), args=t.args)
            n += 1
            if rc != 0:
                summ = fail_summary(out)
                if re.search(k['signature'], out):
                    line = 'KNOWN-FINDING: property=%s %s: %s' % (self.id, k['id'], k['what'])
                    self.known_lines.append(line)
                    log(line)
                else:
                    # fails, but not the way the listed finding fails: that is a different violation
                    log('  known-finding input %s fails differently: %s' % (k['id'], summ))
                    data = open(f, 'rb').read()
                    self.handle_candidate(t, data, 'known/%s (different failure)' % k['id'], extra_env=env)
            else:
                log('  note: known finding %s no longer reproduces on this tree' % k['id'])
        return n

    # ---- generation tier ----------------------------------------------------------------
    def gen_tier(self, t, total):
        os.makedirs(t.wdir, exist_ok=True)
        for f in glob.glob(os.path.join(t.wdir, 'w*')):
            os.unlink(f)
        W = min(NPROC, max(1, total // 50)) if total < 800 else NPROC
        per = (total + W - 1) // W
        procs = []
        extra_env = t.spec['worker_env'](t.wdir) if t.spec.get('worker_env') else {}
        for w in range(W):
            sseed = (self.seed * 1000003 + w * 7919 + 1) & 0x7FFFFFFFFFFFFFFF
            cur = os.path.join(t.wdir, 'w%d.cur' % w)
            st = os.path.join(t.wdir, 'w%d.json' % w)
            lg = open(os.path.join(t.wdir, 'w%d.log' % w), 'wb')
            cmd = [t.pr] + t.args + ['--gen', str(per), '--seed', str(sseed), '--maxlen', str(t.maxlen), '--cur', cur, '--budget', str(t.budget)]
            wenv = {'VERIF_STATS': st}
            wenv.update(extra_env)
            p = subprocess.Popen(cmd, env=env_for(wenv), stdout=lg, stderr=subprocess.STDOUT)
            procs.append((w, p, cur, st, lg, sseed, per))
        limit = t.spec.get('wall_limit', 1500 if self.tier == 'quick' else 7200)
        tstart = time.time()
        failed = []
        for (w, p, cur, st, lg, sseed, per) in procs:
            try:
                rc = p.wait(timeout=max(1, limit - (time.time() - tstart)))
            except subprocess.TimeoutExpired:
                p.kill()
                p.wait()
                rc = -999
            lg.close()
            if rc == -999:
                self.inconclusive.append({'target': t.name, 'what': 'worker %d stopped at the wall-clock limit (%ds); remaining cases not run' % (w, limit)})
            elif rc != 0:
                failed.append((w, rc, cur, sseed, per))
        for (w, rc, cur, sseed, per) in failed[:3]:
            try:
                raw = open(cur, 'rb').read()
                ln = int.from_bytes(raw[:8], 'little')
                data = raw[8:8 + ln]
            except Exception:
                data = b''
            lgtxt = open(os.path.join(t.wdir, 'w%d.log' % w), 'rb').read().decode('utf-8', 'replace')
            log('  worker %d exited %d: %s' % (w, rc, fail_summary(lgtxt[-20000:])))
            if rc == 98 and not self.is_timeout_violation(t):
                self.inconclusive.append({'target': t.name, 'what': 'worker %d: a case exceeded the %ds CPU budget; the rest of that worker\'s cases were not run (not a violation for this property)' % (w, t.budget),
                                          'input_sha1': __import__('hashlib').sha1(data).hexdigest()})
                continue
            if rc == 97 and not t.spec.get('stall_is_violation'):
                self.inconclusive.append({'target': t.name, 'what': 'worker %d: a case blocked with the CPU idle (not a violation for this target); the rest of that worker\'s cases were not run' % w, 'input_sha1': __import__('hashlib').sha1(data).hexdigest()})
                continue
            if self.handle_candidate(t, data, 'generation worker %d' % w):
                continue
            if rc == 97:
                if not t.spec.get('stall_is_violation'):
                    continue
                self.inconclusive.append({'target': t.name, 'what': 'worker %d: a case blocked with the CPU idle but does not block when replayed alone; the rest of that worker\'s cases were not run' % w, 'input_sha1': __import__('hashlib').sha1(data).hexdigest()})
                continue
            # the single input does not reproduce: does the whole worker run?
            rr = []
            for _ in range(2):
                cmd = [t.pr] + t.args + ['--gen', str(per), '--seed', str(sseed), '--maxlen', str(t.maxlen), '--budget', str(t.budget)]
                pp = subprocess.run(cmd, env=env_for(), stdout=subprocess.PIPE, stderr=subprocess.STDOUT)
                rr.append(pp.returncode)
            if all(r != 0 for r in rr) and not (rc == 98 and not self.is_timeout_violation(t)):
                rd = os.path.join(VERIF, 'replays', self.id)
                os.makedirs(rd, exist_ok=True)
                path = os.path.join(rd, '%s__gen_%d_%d.genrun' % (t.name, sseed, per))
                json.dump({'target': t.name, 'seed': sseed, 'n': per, 'maxlen': t.maxlen, 'summary': fail_summary(lgtxt[-20000:])}, open(path, 'w'))
                self.violations.append((t.name, path, 'whole generated run fails deterministically (state carried between cases): ' + fail_summary(lgtxt[-20000:])))
        bad = set(w for (w, _, _, _, _) in failed)
        for (w, p, cur, st, lg, sseed, per) in procs:
            if (w not in bad) and (p.returncode == 0) and (not os.path.exists(st)):
                self.harness_errors.append('%s: worker %d finished but left no statistics file' % (t.name, w))
        return self.collect_stats(t, [st for (_, _, _, st, _, _, _) in procs])

    def collect_stats(self, t, files):
        agg = {'evaluations': 0, 'nontrivial': 0, 'classes': {}, 'excluded_by_known_finding': {}, 'samples': []}
        hashes = set()
        for st in files:
            if not os.path.exists(st):
                continue
            try:
                j = json.load(open(st))
            except Exception:
                continue
            agg['evaluations'] += j['evaluations']
            agg['nontrivial'] += j['nontrivial']
            for k, v in j['classes'].items():
                agg['classes'][k] = agg['classes'].get(k, 0) + v
            for k, v in j['excluded_by_known_finding'].items():
                agg['excluded_by_known_finding'][k] = agg['excluded_by_known_finding'].get(k, 0) + v
            if len(agg['samples']) < 6:
                agg['samples'] += j['samples'][:2]
            hf = st + '.hashes'
            if os.path.exists(hf):
                a = array.array('Q')
                raw = open(hf, 'rb').read()
                a.frombytes(raw[:len(raw) // 8 * 8])
                hashes.update(a)
        agg['distinct_nontrivial'] = len(hashes)
        agg['_hashes'] = hashes
        return agg

    # ---- libFuzzer tier -----------------------------------------------------------------
    def fuzz_tier(self, t, secs):
        fz = t.exes.get('fz')
        if not fz:
            return None
        cdir = os.path.join(t.wdir, 'fzcorpus')
        adir = os.path.join(t.wdir, 'fzart')
        sdir = os.path.join(t.wdir, 'fzstats')
        for d in (cdir, adir, sdir):
            shutil.rmtree(d, ignore_errors=True)
            os.makedirs(d)
        for f in self.replay_dir(t, 'seeds') + self.replay_dir(t, 'regress'):
            shutil.copy(f, cdir)
        cmd = [fz, cdir, '-fork=%d' % NPROC, '-max_total_time=%d' % secs, '-max_len=%d' % t.maxlen, '-artifact_prefix=' + adir + '/',
               '-timeout=%d' % max(25, t.budget * 2), '-rss_limit_mb=6000', '-seed=%d' % (self.seed if self.seed else 1), '-print_final_stats=1',
               '-ignore_timeouts=1', '-ignore_ooms=1', '-ignore_crashes=0']
        lg = os.path.join(t.wdir, 'fz.log')
        with open(lg, 'wb') as f:
            try:
                subprocess.run(cmd, env=env_for({'VERIF_STATS_DIR': sdir}), stdout=f, stderr=subprocess.STDOUT, timeout=secs + 600, cwd=t.wdir)
            except subprocess.TimeoutExpired:
                self.inconclusive.append({'target': t.name, 'what': 'libFuzzer campaign did not stop by itself'})
        arts = sorted(glob.glob(os.path.join(adir, 'crash-*')) + glob.glob(os.path.join(adir, 'leak-*')))
        touts = sorted(glob.glob(os.path.join(adir, 'timeout-*')))
        if self.is_timeout_violation(t):
            arts += touts[:3]
        elif touts:
            self.inconclusive.append({'target': t.name, 'what': '%d libFuzzer timeout artefacts (load noise unless the property is about hangs)' % len(touts)})
        for a in arts[:3]:
            data = open(a, 'rb').read()
            log('  libFuzzer artefact %s' % os.path.basename(a))
            self.handle_candidate(t, data, 'libFuzzer ' + os.path.basename(a))
        agg = self.collect_stats(t, glob.glob(os.path.join(sdir, '*.json')))
        agg['corpus_files'] = len(os.listdir(cdir))
        return agg

    # ---- main ---------------------------------------------------------------------------
    def run(self):
        cfg = self.cfg
        targets = [Target(self.id, s) for s in cfg['targets']]
        engines = ('pr',) if self.tier == 'quick' else ('pr', 'fz')
        with B.Lock():
            for t in targets:
                eng = engines if t.spec.get('fuzz', True) else ('pr',)
                t.build(eng)
        log('[%s] build ready after %.1fs' % (self.id, time.time() - self.t0))
        total_eval = 0
        total_distinct = 0
        samples = []
        per_target = {}
        replayed = 0
        for t in targets:
            replayed += self.replay_tier(t)
            n = t.spec['quick_n'] if self.tier == 'quick' else t.spec.get('thorough_n', t.spec['quick_n'] * 10)
            scale = float(os.environ.get('VERIF_SCALE', '1'))
            n = max(1, int(n * scale))
            tg = time.time()
            agg = self.gen_tier(t, n)
            hashes = agg.pop('_hashes')
            if t.spec.get('post'):
                t.spec['post'](self, t, agg)
            agg['wall_s'] = round(time.time() - tg, 1)
            log('[%s] %s: %d cases, %d non-trivial (%d distinct) in %.1fs' % (self.id, t.name, agg['evaluations'], agg['nontrivial'], agg['distinct_nontrivial'], agg['wall_s']))
            if self.tier == 'thorough' and t.spec.get('fuzz', True) and not self.violations:
                secs = int(os.environ.get('VERIF_FUZZ_SECS', t.spec.get('fuzz_secs', 300)))
                fa = self.fuzz_tier(t, secs)
                if fa:
                    fh = fa.pop('_hashes')
                    hashes |= fh
                    agg['libfuzzer'] = {'seconds': secs, 'executions': fa['evaluations'], 'nontrivial': fa['nontrivial'], 'distinct_nontrivial': fa['distinct_nontrivial'],
                                        'corpus_files': fa['corpus_files'], 'classes': fa['classes']}
                    agg['evaluations'] += fa['evaluations']
                    agg['nontrivial'] += fa['nontrivial']
                    agg['distinct_nontrivial'] = len(hashes)
                    for k, v in fa['excluded_by_known_finding'].items():
                        agg['excluded_by_known_finding'][k] = agg['excluded_by_known_finding'].get(k, 0) + v
                    log('[%s] %s: libFuzzer %ds, %d executions' % (self.id, t.name, secs, fa['evaluations']))
            floor = t.spec.get('min_nontrivial', 0) if self.tier == 'quick' else t.spec.get('min_nontrivial', 0)
            if agg['distinct_nontrivial'] < floor * min(1.0, float(os.environ.get('VERIF_SCALE', '1'))) and not self.violations:
                self.harness_errors.append('%s: only %d distinct non-trivial cases (floor %d): the generator is not reaching the property' % (t.name, agg['distinct_nontrivial'], floor))
            for cls, fl in t.spec.get('class_floors', {}).items():
                if agg['classes'].get(cls, 0) < fl * min(1.0, float(os.environ.get('VERIF_SCALE', '1'))) and not self.violations:
                    self.harness_errors.append('%s: class %s seen %d times (floor %d)' % (t.name, cls, agg['classes'].get(cls, 0), fl))
            total_eval += agg['evaluations']
            total_distinct += agg['distinct_nontrivial']
            samples += [{'target': t.name, 'case': s} for s in agg.pop('samples')[:3]]
            per_target[t.name] = agg
        self.write_evidence(total_eval, total_distinct, samples, per_target, replayed)
        for (tn, path, summ) in self.violations:
            log('VIOLATION property=%s replay=%s' % (self.id, path))
            log('  %s: %s' % (tn, summ))
        if self.violations:
            return 1
        if self.harness_errors:
            for h in self.harness_errors:
                log('HARNESS-ERROR: ' + h)
            return 2
        log('[%s] %s tier held: %d cases, %d distinct non-trivial, %.1fs' % (self.id, self.tier, total_eval, total_distinct, time.time() - self.t0))
        return 0

    def write_evidence(self, total_eval, total_distinct, samples, per_target, replayed):
        cfg = self.cfg
        ev = {
            'property_id': self.id,
            'tier': self.tier,
            'seed': self.seed,
            'level': cfg.get('level', 'exploration'),
            'coverage': {
                'evaluations': total_eval,
                'distinct_nontrivial': total_distinct,
                'rule': cfg['rule'],
                'samples': samples if samples else ['(no sample rendered)'],
                'exhaustive': False,
                'replayed_inputs': replayed,
                'targets': per_target,
                'known_findings_reported': self.known_lines,
                'inconclusive': self.inconclusive,
                'flaky_candidates': self.flaky,
                'harness_errors': self.harness_errors,
            },
            'assumptions': cfg.get('assumptions', []),
            'wall_s': round(time.time() - self.t0, 1),
            'violations': len(self.violations),
        }
        if cfg.get('evidence_extra'):
            ev['coverage'].update(cfg['evidence_extra'](per_target))
        os.makedirs(os.path.join(VERIF, 'evidence'), exist_ok=True)
        p = os.path.join(VERIF, 'evidence', self.id + '.json')
        with open(p + '.tmp', 'w') as f:
            json.dump(ev, f, indent=1, sort_keys=False)
        os.replace(p + '.tmp', p)
        try:
            import jsonschema
            jsonschema.validate(ev, json.load(open(os.path.join(VERIF, 'engine', 'EVIDENCE.schema.json'))))
        except ImportError:
            pass


def replay_one(prop_id, cfg, path):
    base = os.path.basename(path)
    tname = base.split('__')[0]
    specs = [s for s in cfg['targets'] if s['name'] == tname or tname in s.get('replay_aliases', [])]
    if not specs:
        log('cannot tell which target %s belongs to (expected <target>__*.bin)' % path)
        return 2
    t = Target(prop_id, specs[0])
    with B.Lock():
        t.build(('pr',))
    if specs[0].get('replay_hook') and specs[0]['replay_hook'](path) is not None:
        rc = specs[0]['replay_hook'](path)
        if rc != 0:
            log('VIOLATION property=%s replay=%s' % (prop_id, path))
            return 1
        log('replay passed')
        return 0
    if path.endswith('.genrun'):
        j = json.load(open(path))
        cmd = [t.pr] + t.args + ['--gen', str(j['n']), '--seed', str(j['seed']), '--maxlen', str(j['maxlen']), '--budget', str(t.budget)]
        p = subprocess.run(cmd, env=env_for())
        rc = p.returncode
    else:
        env = {'VERIF_VERBOSE': '1'}
        if os.environ.get('VERIF_ALLOW_KNOWN'):
            env['VERIF_ALLOW_KNOWN'] = os.environ['VERIF_ALLOW_KNOWN']
        rc, out = run_replay(t.pr, path, env, t.budget, args=t.args)
        sys.stdout.write(out)
    if rc != 0:
        log('VIOLATION property=%s replay=%s' % (prop_id, path))
        return 1
    log('replay passed')
    return 0
