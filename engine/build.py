"""Incremental builds of /repo's working tree (library + harnesses) for the verification checks.

Objects are cached under /verif/build/<variant>/ and keyed by a signature over the exact command
line and (path, mtime_ns, size) of every file the compiler reported reading (-MMD), so any edit
under /repo -- including one that moves an mtime backwards -- rebuilds exactly what it affects.
"""
import os, sys, json, glob, hashlib, subprocess, fcntl, shlex, time
from concurrent.futures import ThreadPoolExecutor

VERIF = os.path.dirname(os.path.dirname(os.path.abspath(__file__)))
REPO = os.environ.get('VERIF_REPO', '/repo')
BUILD = os.path.join(VERIF, 'build' if REPO == '/repo' else ('build_alt' if os.path.basename(REPO.rstrip('/')) == 'vf_seedrepo' else 'build_alt_' + os.path.basename(REPO.rstrip('/'))))     # VERIF_REPO=<scratch worktree> is used by tools/seedtest.py only; it gets its own cache
GUARD = 'MUSCLE_VERIF_HOOKS'

COMMON_DEFS = ['-DMUSCLE_ENABLE_ZLIB_ENCODING', '-DMUSCLE_NO_EXCEPTIONS', '-D' + GUARD]
IGN = '-fsanitize-ignorelist=' + os.path.join(VERIF, 'engine', 'ubsan_ignore.txt')

VARIANTS = {
    'asan': {
        'cxx': 'clang++', 'cc': 'clang',
        'flags': ['-g', '-O1', '-fno-omit-frame-pointer', '-fsanitize=address,undefined',
                  '-fno-sanitize-recover=undefined', IGN],
        'libextra': ['-fsanitize=fuzzer-no-link'],
        'link': ['-fsanitize=address,undefined'],
    },
    'tsan': {
        'cxx': 'clang++', 'cc': 'clang',
        'flags': ['-g', '-O1', '-fno-omit-frame-pointer', '-fsanitize=thread'],
        'libextra': [],
        'link': ['-fsanitize=thread'],
    },
    'plain': {
        'cxx': 'g++', 'cc': 'gcc',
        'flags': ['-g', '-O2'],
        'libextra': [],
        'link': [],
    },
}

LIB_DIRS = ['dataio', 'iogateway', 'message', 'reflector', 'regex', 'syslog', 'system', 'util', 'zlib']
C_CODEC_SRCS = ['lang/c/minimessage/MiniMessage.c', 'lang/c/minimessage/MiniMessageGateway.c',
                'lang/c/micromessage/MicroMessage.c', 'lang/c/micromessage/MicroMessageGateway.c']


class BuildError(Exception):
    pass


def _sig_of(cmd, deps):
    h = hashlib.sha1()
    h.update(('\0'.join(cmd)).encode())
    for d in sorted(set(deps)):
        try:
            st = os.stat(d)
            h.update(('%s|%d|%d\n' % (d, st.st_mtime_ns, st.st_size)).encode())
        except OSError:
            h.update(('%s|missing\n' % d).encode())
    return h.hexdigest()


def _parse_depfile(path):
    try:
        txt = open(path).read()
    except OSError:
        return None
    txt = txt.replace('\\\n', ' ')
    if ':' not in txt:
        return None
    body = txt.split(':', 1)[1]
    return [t for t in body.split() if t]


def _compile_one(job):
    """job = (cmd list, src, obj).  Returns (obj, rebuilt?, error text or None)."""
    cmd, src, obj = job
    dep = obj + '.d'
    sigf = obj + '.sig'
    full = cmd + ['-MMD', '-MF', dep, '-c', src, '-o', obj]
    if os.path.exists(obj) and os.path.exists(sigf):
        deps = _parse_depfile(dep)
        if deps is not None:
            try:
                if open(sigf).read().strip() == _sig_of(full, deps):
                    return (obj, False, None)
            except OSError:
                pass
    os.makedirs(os.path.dirname(obj), exist_ok=True)
    p = subprocess.run(full, stdout=subprocess.PIPE, stderr=subprocess.STDOUT, text=True)
    if p.returncode != 0:
        for f in (obj, sigf):
            try:
                os.unlink(f)
            except OSError:
                pass
        return (obj, True, '$ %s\n%s' % (' '.join(shlex.quote(c) for c in full), p.stdout[-6000:]))
    deps = _parse_depfile(dep) or [src]
    with open(sigf, 'w') as f:
        f.write(_sig_of(full, deps))
    return (obj, True, None)


def _run_jobs(jobs, label):
    rebuilt = 0
    errs = []
    with ThreadPoolExecutor(max_workers=int(os.environ.get('VERIF_JOBS', '16'))) as ex:
        for obj, did, err in ex.map(_compile_one, jobs):
            if did:
                rebuilt += 1
            if err:
                errs.append(err)
    if errs:
        raise BuildError('build failed (%s):\n%s' % (label, '\n'.join(errs[:3])))
    return rebuilt


def lib_sources():
    out = []
    for d in LIB_DIRS:
        for f in sorted(glob.glob(os.path.join(REPO, d, '*.cpp'))):
            if 'SSL' in os.path.basename(f):
                continue
            out.append(f)
    return out


def cxx_cmd(variant, lib=False):
    v = VARIANTS[variant]
    return [v['cxx'], '-std=gnu++11'] + v['flags'] + (v['libextra'] if lib else []) + COMMON_DEFS + ['-I' + REPO, '-I' + VERIF, '-Wno-unused-result']


def cc_cmd(variant, lib=False):
    v = VARIANTS[variant]
    # -fno-sanitize=alignment: MiniMessageGateway.c keeps its next-pointer at a 4-byte-aligned offset inside MByteBuffer (benign on this platform; noted in DESIGN as an observation)
    return [v['cc'], '-fcommon'] + v['flags'] + (['-fno-sanitize=alignment'] if 'undefined' in ' '.join(v['flags']) else []) + (v['libextra'] if lib else []) + ['-I' + REPO, '-I' + os.path.join(REPO, 'lang/c'), '-Wno-unused-result']


class Lock:
    def __enter__(self):
        os.makedirs(BUILD, exist_ok=True)
        self.f = open(os.path.join(BUILD, '.lock'), 'w')
        fcntl.flock(self.f, fcntl.LOCK_EX)
        return self

    def __exit__(self, *a):
        fcntl.flock(self.f, fcntl.LOCK_UN)
        self.f.close()


def build_lib(variant):
    """Returns the list of library object files (we link objects directly; no archive to go stale)."""
    odir = os.path.join(BUILD, variant, 'lib')
    jobs = []
    objs = []
    cmd = cxx_cmd(variant, lib=True)
    for s in lib_sources():
        rel = os.path.relpath(s, REPO).replace('/', '_')[:-4] + '.o'
        o = os.path.join(odir, rel)
        jobs.append((cmd, s, o))
        objs.append(o)
    n = _run_jobs(jobs, 'libmuscle/' + variant)
    # drop objects of sources that no longer exist
    keep = set(objs)
    for f in glob.glob(os.path.join(odir, '*.o')):
        if f not in keep:
            os.unlink(f)
    return objs, n


def build_c_codecs(variant):
    odir = os.path.join(BUILD, variant, 'ccodec')
    jobs = []
    objs = []
    cmd = cc_cmd(variant, lib=True)
    for s in C_CODEC_SRCS:
        src = os.path.join(REPO, s)
        o = os.path.join(odir, os.path.basename(s)[:-2] + '.o')
        jobs.append((cmd, src, o))
        objs.append(o)
    _run_jobs(jobs, 'c codecs/' + variant)
    return objs


def _archive(variant, objs):
    """(Re)create the static archive when any member is newer; returns its path."""
    a = os.path.join(BUILD, variant, 'libmuscle.a')
    newest = max(os.stat(o).st_mtime_ns for o in objs)
    listing = '\n'.join(objs)
    lf = a + '.list'
    if os.path.exists(a) and os.path.exists(lf) and open(lf).read() == listing and os.stat(a).st_mtime_ns >= newest:
        return a
    if os.path.exists(a):
        os.unlink(a)
    p = subprocess.run(['ar', 'rcs', a] + objs, stdout=subprocess.PIPE, stderr=subprocess.STDOUT, text=True)
    if p.returncode != 0:
        raise BuildError('ar failed: ' + p.stdout)
    open(lf, 'w').write(listing)
    return a


def build_harness(name, spec, engines=('pr',)):
    """spec: dict(src=[...], variant='asan', ccodecs=False, meter=False, extra_flags=[], libs=[])
    Returns {engine: exe path}."""
    variant = spec.get('variant', 'asan')
    v = VARIANTS[variant]
    libobjs, _ = build_lib(variant)
    archive = _archive(variant, libobjs)
    odir = os.path.join(BUILD, variant, 'h', name)
    cmd = cxx_cmd(variant) + (VARIANTS[variant]['libextra'] if spec.get('coverage', True) else []) + spec.get('extra_flags', [])
    jobs = []
    objs = []
    for s in spec['src']:
        src = os.path.join(VERIF, s)
        o = os.path.join(odir, os.path.basename(s).rsplit('.', 1)[0] + '.o')
        if s.endswith('.c'):
            jobs.append((cc_cmd(variant) + spec.get('extra_flags', []), src, o))
        else:
            jobs.append((cmd, src, o))
        objs.append(o)
    edir = os.path.join(BUILD, variant, 'engine')
    eng_objs = {}
    for e in ('harness', 'runner_main', 'fuzz_main', 'allocmeter'):
        o = os.path.join(edir, e + '.o')
        jobs.append((cxx_cmd(variant), os.path.join(VERIF, 'engine', e + '.cpp'), o))
        eng_objs[e] = o
    _run_jobs(jobs, 'harness ' + name)
    cobjs = build_c_codecs(variant) if spec.get('ccodecs') else []
    out = {}
    for eng in engines:
        exe = os.path.join(odir, name + '.' + eng)
        link_in = objs + [eng_objs['harness']] + cobjs
        link = [v['cxx']] + v['link']
        if eng == 'pr':
            link_in = link_in + [eng_objs['runner_main']]
        else:
            link_in = link_in + [eng_objs['fuzz_main']]
            link = link + ['-fsanitize=fuzzer']
        if spec.get('meter'):
            link_in = link_in + [eng_objs['allocmeter']]
            link = link + ['-Wl,--wrap=malloc,--wrap=realloc,--wrap=calloc']
        full = link + link_in + [archive] + ['-lz', '-lutil', '-lpthread', '-lrt'] + spec.get('libs', []) + ['-o', exe]
        newest = max(os.stat(f).st_mtime_ns for f in link_in + [archive])
        sigf = exe + '.sig'
        sig = hashlib.sha1(('\0'.join(full)).encode()).hexdigest()
        if os.path.exists(exe) and os.path.exists(sigf) and open(sigf).read() == sig and os.stat(exe).st_mtime_ns >= newest:
            out[eng] = exe
            continue
        p = subprocess.run(full, stdout=subprocess.PIPE, stderr=subprocess.STDOUT, text=True)
        if p.returncode != 0:
            raise BuildError('link failed (%s):\n%s' % (name, p.stdout[-6000:]))
        open(sigf, 'w').write(sig)
        out[eng] = exe
    return out


if __name__ == '__main__':
    t = time.time()
    with Lock():
        for var in sys.argv[1:] or ['asan']:
            objs, n = build_lib(var)
            print('%s: %d objects, %d rebuilt, %.1fs' % (var, len(objs), n, time.time() - t))
