// Shared harness runtime (see harness.h)
#include "harness.h"
#include <map>
#include <set>
#include <unistd.h>

extern "C" const char * __asan_default_options() {return "detect_leaks=0:allocator_may_return_null=1:max_allocation_size_mb=256:alloc_dealloc_mismatch=0:handle_abort=1:detect_stack_use_after_return=0";}
extern "C" const char * __ubsan_default_options() {return "halt_on_error=1:print_stacktrace=1";}

namespace vf {

static std::map<std::string, uint64_t> g_counts;
static std::map<std::string, uint64_t> g_excluded;
static std::set<uint64_t> g_distinct;
static std::vector<std::string> g_samples;
static uint64_t g_nontrivialTotal = 0;
uint64_t g_evaluations = 0;        // bumped by the mains
static bool g_curNonTrivial = false;
static bool g_curSampled = false;
static const size_t MAX_SAMPLES = 4;

uint64_t Hash64(const void * data, size_t len, uint64_t h)
{
   const uint8_t * p = (const uint8_t *) data;
   for (size_t i=0; i<len; i++) {h ^= p[i]; h *= 1099511628211ULL;}
   return h;
}

void Count(const char * cls, uint64_t n) {g_counts[cls] += n;}
void Excluded(const char * f, uint64_t n) {g_excluded[f] += n;}

void NonTrivial(uint64_t h)
{
   if (g_curNonTrivial == false) {g_curNonTrivial = true; g_nontrivialTotal++;}
   if (g_distinct.size() < 4000000) g_distinct.insert(h);
}

void BeginCase() {g_curNonTrivial = false; g_curSampled = false; g_evaluations++;}

bool WantSample() {return (g_curSampled == false)&&(g_samples.size() < MAX_SAMPLES)&&((g_evaluations%97) == 3 || g_evaluations < 3 || Verbose());}
void Sample(const std::string & s)
{
   if (Verbose()) fprintf(stderr, "SAMPLE: %s\n", s.c_str());
   if ((g_curSampled)||(g_samples.size() >= MAX_SAMPLES)) return;
   g_curSampled = true;
   g_samples.push_back(s.size() > 1500 ? (s.substr(0, 1500)+"...") : s);
}

bool AllowKnown(const char * finding)
{
   static const char * e = getenv("VERIF_ALLOW_KNOWN");
   if (e == NULL) return false;
   if (strcmp(e, "all") == 0) return true;
   const char * f = strstr(e, finding);
   if (f == NULL) return false;
   const char c = f[strlen(finding)];
   return ((c == '\0')||(c == ','));
}

bool Verbose() {static int v = -1; if (v < 0) v = (getenv("VERIF_VERBOSE") != NULL) ? 1 : 0; return v != 0;}

std::string Esc(const std::string & s)
{
   std::string r;
   for (size_t i=0; i<s.size(); i++)
   {
      const unsigned char c = (unsigned char) s[i];
      if ((c >= 32)&&(c < 127)&&(c != '\\')&&(c != '"')) r.push_back((char)c);
      else {char b[8]; snprintf(b, sizeof(b), "\\x%02x", c); r += b;}
   }
   return r;
}

std::string Hex(const void * p, size_t n, size_t maxBytes)
{
   std::string r; const uint8_t * b = (const uint8_t *) p;
   for (size_t i=0; (i<n)&&(i<maxBytes); i++) {char t[4]; snprintf(t, sizeof(t), "%02x", b[i]); r += t;}
   if (n > maxBytes) r += "..";
   return r;
}

static std::string JsonStr(const std::string & s)
{
   std::string r = "\"";
   for (size_t i=0; i<s.size(); i++)
   {
      const unsigned char c = (unsigned char) s[i];
      if (c == '"') r += "\\\""; else if (c == '\\') r += "\\\\";
      else if ((c < 32)||(c >= 127)) {char b[8]; snprintf(b, sizeof(b), "\\u%04x", c); r += b;}
      else r.push_back((char)c);
   }
   return r+"\"";
}

void FlushStats()
{
   const char * path = getenv("VERIF_STATS");
   std::string p;
   if (path) p = path;
   else if (getenv("VERIF_STATS_DIR")) {char b[64]; snprintf(b, sizeof(b), "/%d.json", (int)getpid()); p = std::string(getenv("VERIF_STATS_DIR"))+b;}
   else return;

   FILE * f = fopen((p+".tmp").c_str(), "w");
   if (f == NULL) return;
   fprintf(f, "{\"harness\": %s, \"evaluations\": %llu, \"nontrivial\": %llu, \"distinct_nontrivial\": %llu,\n", JsonStr(vf_harness_name).c_str(), (unsigned long long) g_evaluations, (unsigned long long) g_nontrivialTotal, (unsigned long long) g_distinct.size());
   fprintf(f, " \"classes\": {");
   {bool first = true; for (std::map<std::string, uint64_t>::const_iterator it = g_counts.begin(); it != g_counts.end(); ++it) {fprintf(f, "%s%s: %llu", first?"":", ", JsonStr(it->first).c_str(), (unsigned long long) it->second); first = false;}}
   fprintf(f, "},\n \"excluded_by_known_finding\": {");
   {bool first = true; for (std::map<std::string, uint64_t>::const_iterator it = g_excluded.begin(); it != g_excluded.end(); ++it) {fprintf(f, "%s%s: %llu", first?"":", ", JsonStr(it->first).c_str(), (unsigned long long) it->second); first = false;}}
   fprintf(f, "},\n \"samples\": [");
   for (size_t i=0; i<g_samples.size(); i++) fprintf(f, "%s%s", i?", ":"", JsonStr(g_samples[i]).c_str());
   fprintf(f, "]}\n");
   fclose(f);
   rename((p+".tmp").c_str(), p.c_str());

   // the distinct hashes, so the driver can take the union over workers
   FILE * h = fopen((p+".hashes").c_str(), "wb");
   if (h)
   {
      std::vector<uint64_t> v(g_distinct.begin(), g_distinct.end());
      if (v.size()) fwrite(&v[0], sizeof(uint64_t), v.size(), h);
      fclose(h);
   }
}

void Fail(const char * fmt, ...)
{
   char buf[4096];
   va_list ap; va_start(ap, fmt); vsnprintf(buf, sizeof(buf), fmt, ap); va_end(ap);
   fflush(stdout);
   fprintf(stderr, "\nVERIF-FAIL[%s]: %s\n", vf_harness_name, buf);
   fflush(stderr);
   FlushStats();
   abort();
}

}  // namespace vf
