// Shared harness runtime: byte-decoded choices, counters, samples, failure reporting.
// Every harness defines vf_run_case() and vf_harness_name; engine/runner_main.cpp (seeded
// standalone runner) or engine/fuzz_main.cpp (libFuzzer glue) supplies main().
#ifndef VF_HARNESS_H
#define VF_HARNESS_H

#include <stdint.h>
#include <stddef.h>
#include <stdio.h>
#include <stdlib.h>
#include <string.h>
#include <stdarg.h>
#include <string>
#include <vector>

extern "C" int vf_run_case(const uint8_t * data, size_t size);
extern const char * vf_harness_name;

namespace vf {

// Structured choices decoded from the case bytes.  Reads past the end yield zeros, so every
// byte string decodes to some case and shorter strings decode to simpler cases (helps ddmin).
struct BS
{
   const uint8_t * p; size_t n; size_t pos;
   BS(const uint8_t * d, size_t sz) : p(d), n(sz), pos(0) {}
   bool done() const {return pos >= n;}
   size_t left() const {return (pos < n) ? (n-pos) : 0;}
   uint8_t  u8()  {return (pos < n) ? p[pos++] : 0;}
   uint16_t u16() {uint16_t a = u8(); return (uint16_t)(a | (u8()<<8));}
   uint32_t u32() {uint32_t a = u16(); return a | (((uint32_t)u16())<<16);}
   uint64_t u64() {uint64_t a = u32(); return a | (((uint64_t)u32())<<32);}
   bool flip() {return (u8()&1) != 0;}
   // inclusive range; consumes as few bytes as the span needs
   uint32_t range(uint32_t lo, uint32_t hi)
   {
      if (hi <= lo) return lo;
      const uint32_t span = hi-lo;
      uint32_t v = (span < 0x100) ? u8() : ((span < 0x10000) ? u16() : u32());
      return (span == 0xFFFFFFFFu) ? v : (lo + (v % (span+1)));
   }
   uint32_t below(uint32_t n_) {return (n_ <= 1) ? 0 : range(0, n_-1);}   // [0, n)
   bool chance(uint32_t num, uint32_t den) {return below(den) < num;}
   std::string bytes(size_t k) {std::string s; s.reserve(k); for (size_t i=0; i<k; i++) s.push_back((char)u8()); return s;}
};

uint64_t Hash64(const void * data, size_t len, uint64_t h = 1469598103934665603ULL);
inline uint64_t HashStr(const std::string & s, uint64_t h = 1469598103934665603ULL) {return Hash64(s.data(), s.size(), h);}
inline uint64_t HashMix(uint64_t h, uint64_t v) {return Hash64(&v, sizeof(v), h);}

void Count(const char * cls, uint64_t n = 1);          // class histogram (evidence)
void NonTrivial(uint64_t canonicalHash);               // this case is non-trivial by the property's rule
bool WantSample();                                     // should the harness render a sample now?
void Sample(const std::string & s);                    // offer a rendering of the current case
void Excluded(const char * finding, uint64_t n = 1);   // generator steered away from a known finding
bool AllowKnown(const char * finding);                 // exclusion switched off (known-finding replay)
bool Verbose();                                        // VERIF_VERBOSE=1: harness prints decoded ops
void Fail(const char * fmt, ...) __attribute__((noreturn, format(printf, 1, 2)));
void FlushStats();                                     // write counters to the stats file (if configured)
std::string Esc(const std::string & s);                // printable rendering (non-printables as \xNN)
std::string Hex(const void * p, size_t n, size_t maxBytes = 64);

}  // namespace vf

#define VF_CHECK(cond, ...) do {if (!(cond)) vf::Fail(__VA_ARGS__);} while(0)

#endif
