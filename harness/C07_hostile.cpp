// C07: one or two clients send arbitrary structurally valid Messages (any command code, reserved
// names with right and wrong types, any patterns, archived filters of any shape, deep BATCH nesting),
// optionally while not reading their own replies; a witness client's PING must always be answered
// within the CPU budget, the server must keep single-stepping, and be empty once everybody left.
#include "reflector/gencmd.h"

using namespace muscle;
using namespace rh;
const char * vf_harness_name = "c07_hostile";

extern "C" int vf_run_case(const uint8_t * data, size_t size)
{
   static CompleteSetupSystem * css = NULL; if (css == NULL) {css = new CompleteSetupSystem; SetConsoleLogLevel(MUSCLE_LOG_NONE);}
   if (size < 4) return 0;
   vf::BS bs(data, size);
   World w; w.Start(3);      // clients 0 and 1 are hostile; client 2 is the witness
   int pongs = 0; uint32 repliesQueuedWhileNotReading = 0;
   w.onMessage = [&](int ci, const Message & m){if ((ci == 2)&&(m.what == PR_RESULT_PONG)&&(m.GetInt32("witness") == 42)) pongs++;};
   for (int i=0; i<3; i++) w.Connect(i, (i == 1) ? "h1" : "h0");
   w.Pump();
   gencmd::Opts o; o.allowRawRegex = vf::AllowKnown("F19");
   std::string hist; int steps = 0, pings = 0; bool jettisonWithQueuedReplies = false, wrongTyped = false; uint64_t h = 3;
   while((bs.done() == false)&&(steps++ < 60))
   {
      const size_t p0 = bs.pos;
      const uint8_t op = bs.u8(); const int who = op%2;
      if (w.c[who]->connected == false) {w.Connect(who, who ? "h1" : "h0"); continue;}    // (a kicked or errored-out hostile client simply comes back)
      if ((op>>1)%16 == 0) {w.c[who]->reading = !w.c[who]->reading; hist += std::string("c")+(char)('0'+who)+(w.c[who]->reading ? " resumes reading; " : " stops reading; ");}
      else if ((op>>1)%16 == 1)
      {
         // a burst written in one go, so that the replies to the earlier commands are still queued on the server when the later ones are handled
         static const char * const K[] = {"*", "/*/*/*", "a", "/*/*/a*", "*/*", "/*/*"};
         {MessageRef m = GetMessageFromPool(PR_COMMAND_SETDATA); const uint32 n = 1+bs.u8()%3; for (uint32 i=0; i<n; i++) (void) m()->AddMessage(gencmd::CLAUSES[bs.u8()%3], gencmd::GenData(bs)); (void) w.Send(who, m);}
         if (bs.flip()) {MessageRef m = GetMessageFromPool(PR_COMMAND_SETPARAMETERS); (void) m()->AddInt32(PR_NAME_MAX_UPDATE_MESSAGE_ITEMS, 1+bs.u8()%2); if (bs.flip()) (void) m()->AddBool(String("SUBSCRIBE:")+K[bs.u8()%6], true); (void) w.Send(who, m);}
         if (bs.flip()) {MessageRef m = GetMessageFromPool(PR_COMMAND_PING); (void) w.Send(who, m);}
         {MessageRef m = GetMessageFromPool(PR_COMMAND_GETDATA); (void) m()->AddString(PR_NAME_KEYS, K[bs.u8()%6]); (void) w.Send(who, m);}
         {MessageRef m = GetMessageFromPool(PR_COMMAND_JETTISONRESULTS); if (bs.u8()%4) (void) m()->AddString(PR_NAME_KEYS, K[bs.u8()%6]); if (bs.u8()%3 == 0) (void) m()->AddMessage(PR_NAME_FILTERS, gencmd::GenFilter(bs, 0)); (void) w.Send(who, m);}
         jettisonWithQueuedReplies = true; hist += std::string("c")+(char)('0'+who)+" burst{SETDATA, [SETPARAMETERS], [PING], GETDATA, JETTISONRESULTS}; ";
      }
      else
      {
         std::string d; MessageRef m = gencmd::GenCmd(bs, 0, o, &d);
         if ((m()->what == PR_COMMAND_JETTISONRESULTS)&&(w.c[who]->reading == false)) jettisonWithQueuedReplies = true;
         if (d.find("wrongtype") != std::string::npos) wrongTyped = true;
         if (m()->HasName(PR_NAME_FLAGS, B_STRING_TYPE)||m()->HasName(PR_NAME_MAX_UPDATE_MESSAGE_ITEMS, B_STRING_TYPE)) wrongTyped = true;
         if (vf::Verbose()) fprintf(stderr, "  c%d sends %s\n", who, d.c_str());
         if (hist.size() < 1200) hist += std::string("c")+(char)('0'+who)+" "+d+"; ";
         if (w.Send(who, m).IsError()) vf::Fail("AddOutgoingMessage failed");
         if (w.c[who]->reading == false) repliesQueuedWhileNotReading++;
      }
      h = vf::Hash64(data+p0, bs.pos-p0, h);
      if ((op>>5)%2 == 0)
      {
         // step the server; after every injected burst the witness pings and must be answered
         MessageRef p = GetMessageFromPool(PR_COMMAND_PING); (void) p()->AddInt32("witness", 42); (void) w.Send(2, p); pings++;
         // a client whose connection the server closed must be noticed by the harness: its gateway errors out
         for (int i=0; i<2; i++) if ((w.c[i]->connected)&&((w.c[i]->gw->DoOutput().IsError())||((w.c[i]->reading)&&(w.c[i]->gw->DoInput(w.c[i]->q).IsError())))) {w.Close(i); hist += "(server closed c"+std::to_string(i)+"); ";}
         w.Pump();
         if (pongs != pings) vf::Fail("the witness client's PING #%d was not answered (%d answered) after: %s", pings, pongs, hist.c_str());
      }
   }
   {MessageRef p = GetMessageFromPool(PR_COMMAND_PING); (void) p()->AddInt32("witness", 42); (void) w.Send(2, p); pings++;}
   for (int i=0; i<2; i++) if (w.c[i]->connected) w.c[i]->reading = true;
   for (int i=0; i<2; i++) if ((w.c[i]->connected)&&((w.c[i]->gw->DoOutput().IsError())||(w.c[i]->gw->DoInput(w.c[i]->q).IsError()))) w.Close(i);
   w.Pump();
   if (pongs != pings) vf::Fail("the witness client's final PING was not answered (%d of %d) after: %s", pongs, pings, hist.c_str());
   if (w.c[2]->connected == false) vf::Fail("the witness was disconnected");
   // everybody leaves: nothing may be left behind
   for (int i=0; i<3; i++) if (w.c[i]->connected) w.Close(i);
   for (int r=0; r<8; r++) (void) w.server->ServerProcessLoop(0);
   if (w.server->GetSessions().GetNumItems() != 0) vf::Fail("%u session(s) remain on the server after every client left: %s", w.server->GetSessions().GetNumItems(), hist.c_str());
   w.server->Cleanup(); delete w.server; w.server = NULL;

   vf::Count("commands", (uint64_t)steps); vf::Count("witness_pings_answered", (uint64_t)pongs); vf::Count("commands_sent_while_not_reading", repliesQueuedWhileNotReading);
   if (jettisonWithQueuedReplies) vf::Count("case_jettison_with_replies_queued"); if (wrongTyped) vf::Count("case_wrong_typed_reserved_field");
   if ((jettisonWithQueuedReplies)||(wrongTyped)||(repliesQueuedWhileNotReading >= 2)) {vf::NonTrivial(h); if (vf::WantSample()) vf::Sample(hist);}
   return 0;
}
