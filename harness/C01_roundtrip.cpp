// C01: Messages built through generated public-API operation sequences (model-tracked) must
// (1) flatten to exactly FlattenedSize() bytes inside a canaried buffer, (2) equal the reference
// encoding of the model (documented layout), (3) parse back to the model when walked through the
// public getters, (4) re-flatten to the same bytes, (5) keep their checksum, (6) compare equal
// (when no NaN is involved), (7) do the same through ByteBuffer, DataIO and the templated codec.
#include "models/refmsg.h"
#include "system/SetupSystem.h"
#include "syslog/SysLog.h"
#include "dataio/ByteBufferDataIO.h"

using namespace muscle;
using namespace refmsg;
const char * vf_harness_name = "c01_roundtrip";

extern "C" int vf_run_case(const uint8_t * data, size_t size)
{
   static CompleteSetupSystem * css = NULL; if (css == NULL) {css = new CompleteSetupSystem; SetConsoleLogLevel(MUSCLE_LOG_NONE);}
   vf::BS bs(data, size);
   GenOpts opts; opts.allowZeroItemFields = true; opts.allowCopies = true; opts.allowEmptiedInPlace = true; Generator gen(bs, opts);
   Message msg; MMsg mod; gen.Gen(0, msg, mod);
   const GenStats & st = gen.st;

   Walk(msg, mod, false, "built");   // the public getters already agree with the model before any serialisation

   // (1) size is exact, nothing written outside
   const std::string expect = Encode(mod);
   const uint32 fs = msg.FlattenedSize();
   std::vector<uint8> buf(fs+32, 0xAB); msg.FlattenToBytes(&buf[16], fs);
   for (int i=0; i<16; i++) if ((buf[i] != 0xAB)||(buf[16+fs+i] != 0xAB)) vf::Fail("Flatten wrote outside its %u-byte buffer", fs);
   const std::string got((const char *)&buf[16], fs);

   // (2) documented layout
   if (got != expect) {size_t d = 0; while((d < got.size())&&(d < expect.size())&&(got[d] == expect[d])) d++; vf::Fail("flattened bytes differ from the documented layout at offset %zu (sizes %zu vs %zu) for %s: got ..%s expected ..%s", d, got.size(), expect.size(), Summary(mod).c_str(), vf::Hex(got.data()+d, got.size()-d, 24).c_str(), vf::Hex(expect.data()+d, expect.size()-d, 24).c_str());}

   // (3) parse back, walk through the getters
   Message m2; {const status_t r = m2.UnflattenFromBytes((const uint8 *)got.data(), fs); if (r.IsError()) vf::Fail("the library rejects its own bytes: %s, for %s", r(), Summary(mod).c_str());}
   // the same bytes parsed into a Message object that is already in use (a re-used receive buffer: other what-code, other fields, some with the same names): nothing of the old content may survive
   {
      Message used(0x75736564); (void) used.AddString("left over", "from the previous Message"); (void) used.AddInt32("", 7); (void) used.AddInt64("caf\xc3\xa9", 1); for (size_t i=0; (i<mod.f.size())&&(i<3); i++) (void) used.AddFloat(mod.f[i].name.c_str(), 1.5f);
      const status_t r = used.UnflattenFromBytes((const uint8 *)got.data(), fs); if (r.IsError()) vf::Fail("the library rejects its own bytes when parsing into a Message that is already in use: %s", r());
      Walk(used, mod, true, "parsed into a Message already in use");
      if (used.FlattenedSize() != fs) vf::Fail("a Message parsed into an object already in use reports %u bytes, the original %u", used.FlattenedSize(), fs);
   }
   Walk(m2, mod, true, "parsed");

   // (4) re-serialisation reproduces the bytes
   if (m2.FlattenedSize() != fs) vf::Fail("FlattenedSize changed by the trip: %u -> %u", fs, m2.FlattenedSize());
   {std::vector<uint8> b2(fs+1); m2.FlattenToBytes(&b2[0], fs); if (memcmp(&b2[0], got.data(), fs) != 0) vf::Fail("re-serialised bytes differ for %s", Summary(mod).c_str());}

   // (5),(6) checksum and equality
   Message stripped = msg; StripNonFlattenable(stripped);
   if (stripped.CalculateChecksum() != m2.CalculateChecksum()) vf::Fail("checksum changed by the trip for %s", Summary(mod).c_str());
   if (msg.CalculateChecksum() != m2.CalculateChecksum()) vf::Fail("the checksum of a Message with pointer/tag fields (documented to be ignored by default) differs from its parsed copy's for %s", Summary(mod).c_str());
   if ((st.hasNaN == false)&&((stripped == m2) == false)) vf::Fail("a Message without NaNs is not equal to its parsed copy: %s", Summary(mod).c_str());
   if ((st.hasNaN == false)&&((m2 == stripped) == false)) vf::Fail("equality is not symmetric after the trip: %s", Summary(mod).c_str());

   // (7a) ByteBuffer route
   {
      ByteBufferRef bb = msg.FlattenToByteBuffer(); if (bb() == NULL) vf::Fail("FlattenToByteBuffer failed");
      if ((bb()->GetNumBytes() != fs)||(memcmp(bb()->GetBuffer(), got.data(), fs) != 0)) vf::Fail("FlattenToByteBuffer bytes differ");
      Message m3; if (m3.UnflattenFromByteBuffer(*bb()).IsError()) vf::Fail("UnflattenFromByteBuffer failed"); Walk(m3, mod, true, "via ByteBuffer");
   }
   // (7b) DataIO route, with and without size header
   for (int hdr=0; hdr<2; hdr++)
   {
      ByteBufferRef store = GetByteBufferFromPool(0); ByteBufferDataIO io(store);
      if (msg.FlattenToDataIO(io, hdr != 0).IsError()) vf::Fail("FlattenToDataIO failed");
      if (store()->GetNumBytes() != fs+(hdr?4:0)) vf::Fail("FlattenToDataIO wrote %u bytes, expected %u", store()->GetNumBytes(), fs+(hdr?4:0));
      if (hdr) {uint32 lenWord; memcpy(&lenWord, store()->GetBuffer(), 4); if (lenWord != fs) vf::Fail("FlattenToDataIO size header %u != %u", lenWord, fs);}
      if (memcmp(store()->GetBuffer()+(hdr?4:0), got.data(), fs) != 0) vf::Fail("FlattenToDataIO bytes differ");
      (void) io.Seek(0, SeekableDataIO::IO_SEEK_SET);
      Message m4; const status_t r = m4.UnflattenFromDataIO(io, hdr ? -1 : (int32)fs); if (r.IsError()) vf::Fail("UnflattenFromDataIO(%s) failed: %s", hdr?"size header":"explicit size", r());
      Walk(m4, mod, true, "via DataIO");
   }
   // (7c) templated codec against the Message's own template.  A Message holding a field with no items has no template (CreateMessageTemplate() reports an error:
   // a template field needs at least one item to describe) -- a clean refusal, so the templated route is not taken for those (counted).
   if (st.hasZeroItemField) vf::Count("templated_route_skipped_zero_item_field");
   else
   {
      MessageRef tmpl = stripped.CreateMessageTemplate(); if (tmpl() == NULL) vf::Fail("CreateMessageTemplate failed");
      if (tmpl()->TemplateHashCode64() != stripped.TemplateHashCode64()) vf::Fail("a Message and its own template have different template hash codes");
      const uint32 tfs = stripped.TemplatedFlattenedSize(*tmpl());
      std::vector<uint8> tb(tfs+32, 0xCD); stripped.TemplatedFlatten(*tmpl(), DataFlattener(&tb[16], tfs));
      for (int i=0; i<16; i++) if ((tb[i] != 0xCD)||(tb[16+tfs+i] != 0xCD)) vf::Fail("TemplatedFlatten wrote outside its %u-byte buffer", tfs);
      Message m5; DataUnflattener un(&tb[16], tfs); const status_t r = m5.TemplatedUnflatten(*tmpl(), un);
      if (r.IsError()) vf::Fail("TemplatedUnflatten of own bytes failed: %s for %s", r(), Summary(mod).c_str());
      m5.what = mod.what;   // the templated payload carries no what-code (the gateway sends it in its own header)
      Walk(m5, mod, true, "via templated codec");
      // nothing may be left over
      if (un.GetNumBytesAvailable() != 0) vf::Fail("TemplatedUnflatten left %u of %u bytes unread", un.GetNumBytesAvailable(), tfs);
   }

   // classification
   const bool nontrivial = (st.crossedInlineArray)||(st.maxDepth >= 2)||(st.hasNonFlattenable);
   vf::Count("ops", st.numOps);
   if (st.crossedInlineArray) vf::Count("case_field_crossed_inline_array_boundary");
   if (st.maxDepth >= 2) vf::Count("case_nesting_ge_2");
   if (st.hasNonFlattenable) vf::Count("case_with_pointer_or_tag_field");
   if (st.hasNaN) vf::Count("case_with_nan"); else vf::Count("case_equality_asserted");
   if (st.hasZeroLenRaw) vf::Count("case_with_zero_length_raw_item"); if (st.heldCopy) vf::Count("case_copy_kept_while_the_original_was_modified"); if (st.emptiedInPlace) vf::Count("case_zero_length_raw_item_from_a_buffer_emptied_in_place"); if (st.mutatedCopy) vf::Count("case_copy_modified_original_rechecked"); if (st.swappedField) vf::Count("case_field_swapped_with_another_message"); if (st.hasZeroItemField) vf::Count("case_with_a_field_emptied_through_a_sharing_message");
   if (st.sharedSub) vf::Count("case_with_shared_submessage");
   if (st.maxItems >= 17) vf::Count("case_with_field_of_17_or_more_items");
   if (fs > 2048) vf::Count("case_flattened_over_2048_bytes");
   if (nontrivial) {vf::NonTrivial(vf::HashStr(got)); if (vf::WantSample()) vf::Sample(Summary(mod)+" -> "+vf::Hex(got.data(), got.size(), 48));}
   return 0;
}
