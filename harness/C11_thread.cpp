// C11: muscle::Thread owner <-> internal thread messaging under the harness-owned scheduler, both
// signalling mechanisms (socket pair, wait-condition).  The internal thread echoes numbered
// Messages; owner and 0-2 extra sender threads send; the owner receives with zero / finite /
// infinite deadlines; start with Messages already queued; shutdown+wait; restart of the same object.
// Oracle: exactly-once, per-sender FIFO, no deadlock (lost wake-up), shutdown returns.
#include "sched/sched.h"
#include "system/Thread.h"
#include "util/ICallbackMechanism.h"
#include <functional>
#include "system/SetupSystem.h"
#include "syslog/SysLog.h"

using namespace muscle;
const char * vf_harness_name = "c11_thread";

#include <poll.h>
static bool FdReadable(int fd) {struct pollfd p; p.fd = fd; p.events = POLLIN; p.revents = 0; return (poll(&p, 1, 0) > 0)&&((p.revents&(POLLIN|POLLHUP|POLLERR)) != 0);}

// the optional third way for replies to reach the owner: the Thread asks a callback mechanism for a DispatchCallbacks() call in the owner's thread.  This one only
// remembers that it was asked; the owner's script decides when (and whether) to dispatch.  It comes in addition to the wake-up signal, never instead of it.
class HMech : public ICallbackMechanism
{
public:
   HMech() : asked(0) {}
   uint32 asked;
private:
   virtual void SignalDispatchThreadImplementation() {asked++;}
};

class EchoThread : public Thread
{
public:
   EchoThread(bool socks, bool selectLoop, vsched::Scheduler * sc, ICallbackMechanism * mech) : Thread(socks, mech), _selectLoop(selectLoop), _sc(sc) {}
   std::function<void(const MessageRef &)> onReplyByCallback;
protected:
   virtual void MessageReceivedFromInternalThread(const MessageRef & ref, uint32) {if (onReplyByCallback) onReplyByCallback(ref);}
   virtual status_t MessageReceivedFromOwner(const MessageRef & msg, uint32) {if (msg() == NULL) return B_ERROR; return SendMessageToOwner(msg);}   // NULL == shutdown request
   // the documented alternative to the stock loop: an event loop of its own that blocks on the wake-up socket (select() for read) and then collects what has arrived
   virtual void InternalThreadEntry()
   {
      if (_selectLoop == false) {Thread::InternalThreadEntry(); return;}
      const int fd = GetInternalThreadWakeupSocket().GetFileDescriptor(); if (fd < 0) vf::Fail("no wake-up socket for the internal thread");
      while(true)
      {
         _sc->WaitUntil([fd]{return FdReadable(fd);}, "its wake-up socket to become readable (own event loop)");
         MessageRef m; status_t r;
         while((r = WaitForNextMessageFromOwner(m, 0)).IsOK()) {if (m() == NULL) return; if (SendMessageToOwner(m).IsError()) vf::Fail("SendMessageToOwner failed");}
         if (r != B_TIMED_OUT) return;     // sockets closed etc.
      }
   }
private:
   bool _selectLoop; vsched::Scheduler * _sc;
};

struct Cfg {bool socks; int nOwner; int preQueue; bool restart; int nExtra; int perExtra; std::vector<uint8_t> recvPlan; bool earlyStop, selectLoop, ownerSocketFirst, mechanism, callbackOnly;};

extern "C" int vf_run_case(const uint8_t * data, size_t size)
{
   static CompleteSetupSystem * css = NULL; if (css == NULL) {css = new CompleteSetupSystem; SetConsoleLogLevel(MUSCLE_LOG_NONE);}
   if (size < 6) return 0;
   vf::BS bs(data, size);
   Cfg c; c.socks = bs.flip(); {const uint8_t nb = bs.u8(); c.nOwner = (nb >= 240) ? 0 : 1+nb%5;}     /* 0: started and shut down with nothing ever sent */ c.preQueue = bs.u8()%3; if (c.preQueue > c.nOwner) c.preQueue = c.nOwner; const uint8_t rb = bs.u8(); c.restart = (rb%3 == 0); c.earlyStop = ((rb/3)%2 == 1); const uint8_t eb = bs.u8(); c.nExtra = eb%3; c.selectLoop = (c.socks)&&((eb/3)%3 == 0); c.ownerSocketFirst = (c.socks)&&((eb/9)%2 == 1); c.mechanism = ((eb/18)%3 == 1); c.callbackOnly = (c.mechanism)&&((eb/18)%6 == 4);     /* callbackOnly: the owner is a GUI-style thread that never asks the Thread for replies itself: it sleeps until its callback mechanism is asked for a dispatch, and dispatches */ c.perExtra = 1+bs.u8()%3;
   for (int i=0; i<24; i++) c.recvPlan.push_back(bs.u8());
   char desc[400]; snprintf(desc, sizeof(desc), "%s signalling%s%s%s, owner sends %d (%d queued before start), %d extra sender(s) x %d, restart=%d%s", c.socks ? "socket-pair" : "wait-condition", c.selectLoop ? ", internal thread runs its own loop blocking on the wake-up socket" : "", c.ownerSocketFirst ? ", sockets created before start" : "", c.callbackOnly ? ", replies collected by dispatched callbacks only" : (c.mechanism ? ", with a callback mechanism" : ""), c.nOwner, c.preQueue, c.nExtra, c.perExtra, (int)c.restart, c.earlyStop ? ", shutdown with replies uncollected" : "");
   if (vf::Verbose()) fprintf(stderr, "config: %s\n", desc);

   vsched::ByteSource src(bs); vsched::Scheduler sc(src); sc.SetContext(desc);
   HMech mech; EchoThread th(c.socks, c.selectLoop, &sc, c.mechanism ? &mech : NULL); uint32 byCallback = 0;
   uint32 spurious = 0, totalReplies = 0, collectedAfterJoin = 0; bool stoppedEarly = false; int round = 0; volatile bool senderGo[2] = {false, false}; volatile bool sendersDone[2] = {false, false};

   sc.Spawn([&]{   // the owner
      for (round=0; round<(c.restart ? 2 : 1); round++)
      {
         const int base = round*1000; int sent = 0; std::vector<int> nextExpected(1+c.nExtra, 0); int recvd = 0; const int expectTotal = c.nOwner+c.nExtra*c.perExtra;
         // one reply: exactly once, per-sender order
         auto accept = [&](const MessageRef & rep, const char * when) {
            if (rep() == NULL) vf::Fail("owner received a NULL reply %s", when);
            const int w = (int) rep()->what; const int from = (w-base)/100; const int seq = (w-base)%100;
            if ((w < base)||(from < 0)||(from > c.nExtra)) vf::Fail("owner received a reply (what=%d) that was never sent in this round, %s (%s)", w, when, desc);
            if (seq != nextExpected[from]) vf::Fail("replies out of order or duplicated %s: sender %d expected #%d, got #%d (%s)", when, from, nextExpected[from], seq, desc);
            nextExpected[from]++; recvd++; totalReplies++;};
         th.onReplyByCallback = [&](const MessageRef & rep) {accept(rep, "delivered by DispatchCallbacks()"); byCallback++;};
         for (int i=0; i<c.preQueue; i++) {if (th.SendMessageToInternalThread(GetMessageFromPool((uint32)(base+sent))).IsError()) vf::Fail("SendMessageToInternalThread failed before start"); sent++;}
         if ((c.ownerSocketFirst)&&(th.GetOwnerWakeupSocket()() == NULL)) vf::Fail("GetOwnerWakeupSocket returned a NULL socket");      // allocates the socket pair before the thread exists
         if (th.StartInternalThread().IsError()) vf::Fail("StartInternalThread failed (round %d)", round);
         for (int s=0; s<c.nExtra; s++) {sendersDone[s] = false; senderGo[s] = true;}
         size_t pi = 0; int fruitless = 0;
         while(recvd < expectTotal)
         {
            const uint8_t p = c.recvPlan[(pi++)%c.recvPlan.size()];
            if ((c.earlyStop)&&(sent == c.nOwner)&&(p%5 == 0)) {stoppedEarly = true; break;}      // shut down with replies still uncollected
            // (the script itself must make progress: after a few fruitless polls it sends what is left, then waits for real)
            if ((sent < c.nOwner)&&((p%3 != 0)||(fruitless >= 2))) {fruitless = 0; if (th.SendMessageToInternalThread(GetMessageFromPool((uint32)(base+sent))).IsError()) vf::Fail("SendMessageToInternalThread failed"); sent++; continue;}
            // with a callback mechanism the owner now and then collects the way a GUI thread would: the mechanism was asked for a callback, so it dispatches
            if ((c.mechanism)&&(mech.asked > 0)&&(p%7 == 3)) {mech.asked = 0; const int before = recvd; mech.DispatchCallbacks(); if (recvd > before) fruitless = 0; else fruitless++; continue;}
            if (c.callbackOnly)
            {
               if (sent == c.nOwner) sc.WaitUntil([&]{return mech.asked > 0;}, "its callback mechanism to be asked for a dispatch (replies are collected by callbacks only)");
               if (mech.asked > 0) {mech.asked = 0; const int before = recvd; mech.DispatchCallbacks(); if (recvd > before) fruitless = 0; else fruitless++;} else fruitless++;
               continue;
            }
            // receive: zero timeout (poll), finite deadline, or block for ever -- blocking only once everything this thread has to send is sent
            uint64 wt = 0; const uint8_t k = (p/3)%4;
            if (k == 1) wt = sc.Now()+50; else if (((k >= 2)||(fruitless >= 4))&&(sent == c.nOwner)) wt = MUSCLE_TIME_NEVER;
            MessageRef rep; const status_t rr = th.GetNextReplyFromInternalThread(rep, wt);
            if (rr.IsOK()) {accept(rep, "while the internal thread is running"); fruitless = 0;}
            else if (rr == B_TIMED_OUT) {fruitless++; if (wt == MUSCLE_TIME_NEVER) spurious++;}   // a stale signal byte may end an untimed wait early: the library's own loop retries, so do we
            else vf::Fail("GetNextReplyFromInternalThread failed: %s", rr());
         }
         for (int s=0; s<c.nExtra; s++) sc.WaitUntil([&, s]{return sendersDone[s] == true;}, "extra sender to finish");
         th.ShutdownInternalThread(true);      // must return: the scheduler reports a deadlock otherwise
         // everything that was handed over before the shutdown request has been echoed by now: what is left is collected without waiting
         while(recvd < expectTotal) {MessageRef rep; const status_t rr = th.GetNextReplyFromInternalThread(rep, 0); if (rr.IsError()) vf::Fail("after shutdown and join %d of %d replies are missing (%s; %s)", expectTotal-recvd, expectTotal, rr(), desc); accept(rep, "after shutdown and join"); collectedAfterJoin++;}
         MessageRef extra; if ((th.GetNextReplyFromInternalThread(extra, 0).IsOK())&&(extra())) vf::Fail("a reply arrived that nobody asked for (duplicate delivery) after shutdown (%s)", desc);
         if (recvd != expectTotal) vf::Fail("received %d of %d", recvd, expectTotal);
         th.onReplyByCallback = nullptr;
      }
   });
   for (int s=0; s<c.nExtra; s++) sc.Spawn([&, s]{
      for (int r=0; r<(c.restart ? 2 : 1); r++)
      {
         sc.WaitUntil([&, s]{return senderGo[s] == true;}, "owner to start the thread"); senderGo[s] = false;
         for (int k=0; k<c.perExtra; k++) if (th.SendMessageToInternalThread(GetMessageFromPool((uint32)(r*1000+(s+1)*100+k))).IsError()) vf::Fail("SendMessageToInternalThread failed on an extra sender thread");
         sendersDone[s] = true;
      }
   });
   sc.Run();

   vf::Count(c.socks ? "signalling_socket_pair" : "signalling_wait_condition"); vf::Count("context_switches", sc.Switches()); vf::Count("preemptions", sc.Preemptions()); vf::Count("replies_checked", totalReplies); vf::Count("spurious_timed_out_on_untimed_wait", spurious);
   if (c.preQueue) vf::Count("case_messages_queued_before_start"); if (c.restart) vf::Count("case_restart_of_same_thread_object"); if (c.mechanism) vf::Count("case_thread_has_a_callback_mechanism"); if (c.callbackOnly) vf::Count("case_replies_collected_by_callbacks_only"); if ((c.nOwner == 0)&&(c.nExtra == 0)) vf::Count("case_started_and_shut_down_with_nothing_sent"); if (byCallback) vf::Count("case_replies_delivered_by_dispatch_callbacks"); if (c.nExtra) vf::Count("case_extra_sender_threads"); if (c.selectLoop) vf::Count("case_own_event_loop_blocking_on_the_wakeup_socket"); if ((c.selectLoop)&&(c.ownerSocketFirst)&&(c.preQueue)) vf::Count("case_own_loop_with_sockets_and_messages_before_start"); if (collectedAfterJoin) vf::Count("case_replies_collected_after_join"); if ((collectedAfterJoin)&&(c.restart)) vf::Count("case_restart_after_join_with_replies_uncollected");
   const bool nontrivial = (sc.Preemptions() >= 1)&&(sc.BlockedThenResumed() >= 2);
   if (nontrivial) {uint64_t h = vf::HashStr(desc); for (size_t i=0; i<src.trace.size(); i++) h = vf::HashMix(h, src.trace[i]); vf::NonTrivial(h); if (vf::WantSample()) vf::Sample(std::string(desc)+" | "+std::to_string(sc.Switches())+" switches, "+std::to_string(sc.Preemptions())+" preemptions, "+std::to_string(sc.BlockedThenResumed())+" blocked-then-woken");}
   return 0;
}
