// C09: muscle::Hashtable<int,int,CollidingHash> against an ordered list model, with up to three
// registered iterators alive (and modelled) across every mutation, Clear, SwapContents, copy and
// table destruction.  Bulk profiles cross the 255/256 and 65535/65536 index-width boundaries.
#include "engine/harness.h"
#include "util/Hashtable.h"
#include "system/SetupSystem.h"
#include <list>
#include <vector>
#include <algorithm>
using namespace muscle;
const char * vf_harness_name = "c09_hashtable";
typedef vf::BS BS;
#define FAIL(...) vf::Fail(__VA_ARGS__)
class CollidingHash {public: uint32 operator()(const int & k) const {return (k < 100) ? (((uint32)k)%3) : (uint32)k;} /* the small keys the operations use all collide; bulk filler keys spread (a 65536-entry chain would make every Put O(n)) */ bool AreKeysEqual(const int & a, const int & b) const {return a==b;}};
typedef Hashtable<int,int,CollidingHash> HT;
typedef HashtableIterator<int,int,CollidingHash> IT;
typedef std::list<std::pair<int,int> > ML;
struct MTable {ML l; ML::iterator find(int k) {for (ML::iterator i=l.begin(); i!=l.end(); ++i) if (i->first==k) return i; return l.end();}};
struct MIter {bool alive; int owner; /* -1 detached */ bool scratch; int sk, sv; bool hasAlt; int ak, av; /* a second (key,value) the documentation equally allows the scratch copy to show */ bool hasCookie; int cookie; bool back; IT * real; MIter():alive(false),owner(-1),scratch(false),sk(0),sv(0),hasAlt(false),ak(0),av(0),hasCookie(false),cookie(0),back(false),real(NULL){}};
static bool g_mutWithIter, g_crossWithIter; static uint32 g_iterSteps;
static HT * T[2]; static MTable M[2]; static MIter I[3];
static bool Subsequent(MTable & t, int key, bool back, int & ret) {ML::iterator i = t.find(key); if (i == t.l.end()) return false; if (back) {if (i == t.l.begin()) return false; --i; ret = i->first; return true;} ++i; if (i == t.l.end()) return false; ret = i->first; return true;}
// called BEFORE the model list removes/moves entry (key) in table (w)
static void OnEntryLeaving(int w, int key, bool valueJustChanged = false, int oldValue = 0) {for (int j=0;j<3;j++) {MIter & it = I[j]; if (it.alive && it.owner==w && it.hasCookie && it.cookie==key) {if (!it.scratch) {it.scratch = true; it.sk = key; it.sv = M[w].find(key)->second; if (valueJustChanged) {it.hasAlt = true; it.ak = key; it.av = oldValue;}} int nx; if (Subsequent(M[w], key, it.back, nx)) it.cookie = nx; else it.hasCookie = false;}}}
static void OnClear(int w) {for (int j=0;j<3;j++) {MIter & it = I[j]; if (it.alive && it.owner==w) {if (it.hasCookie) {const int ck = it.cookie, cv = M[w].find(it.cookie)->second; if (it.scratch) {it.hasAlt = true; it.ak = ck; it.av = cv;} /* an existing scratch copy may be replaced by a copy of the entry the iterator was going to visit next */ else {it.scratch = true; it.sk = ck; it.sv = cv;}} it.owner = -1; it.hasCookie = false;}}}
static void CheckAll(const char * after)
{
   for (int w=0;w<2;w++)
   {
      if (T[w]->GetNumItems() != M[w].l.size()) FAIL("table %d size %u vs %zu after %s", w, T[w]->GetNumItems(), M[w].l.size(), after);
      ML::iterator mi = M[w].l.begin(); for (ConstHashtableIterator<int,int,CollidingHash> it(*T[w], HTIT_FLAG_NOREGISTER); it.HasData(); it++, ++mi) {if (mi == M[w].l.end()) FAIL("fwd iteration too long after %s", after); if ((it.GetKey() != mi->first)||(it.GetValue() != mi->second)) FAIL("table %d fwd order: got (%d,%d) expected (%d,%d) after %s", w, it.GetKey(), it.GetValue(), mi->first, mi->second, after);} if (mi != M[w].l.end()) FAIL("fwd iteration too short after %s", after);
      ML::reverse_iterator ri = M[w].l.rbegin(); for (ConstHashtableIterator<int,int,CollidingHash> it(*T[w], HTIT_FLAG_NOREGISTER|HTIT_FLAG_BACKWARDS); it.HasData(); it++, ++ri) {if (ri == M[w].l.rend()) FAIL("bwd iteration too long after %s", after); if (it.GetKey() != ri->first) FAIL("bwd order after %s", after);} if (ri != M[w].l.rend()) FAIL("bwd too short after %s", after);
      for (int k=0;k<12;k++) {const int * v = T[w]->Get(k); ML::iterator f = M[w].find(k); if ((v != NULL) != (f != M[w].l.end())) FAIL("Get(%d) presence after %s", k, after); if (v && (*v != f->second)) FAIL("Get(%d) value after %s", k, after);}
   }
   for (int j=0;j<3;j++) if (I[j].alive)
   {
      MIter & it = I[j]; const bool expData = it.scratch || it.hasCookie;
      if (it.real->HasData() != expData) FAIL("iter %d HasData %d vs %d after %s", j, (int)it.real->HasData(), (int)expData, after);
      if (expData)
      {
         const int ek = it.scratch ? it.sk : it.cookie; const int ev = it.scratch ? it.sv : M[it.owner].find(it.cookie)->second;
         const int gk = it.real->GetKey(), gv = it.real->GetValue();
         if ((gk != ek)||(gv != ev))
         {
            if ((it.scratch)&&(it.hasAlt)&&(gk == it.ak)&&(gv == it.av)) {it.sk = it.ak; it.sv = it.av; vf::Count("iterator_showed_documented_alternative");}
            else FAIL("iter %d at (%d,%d) expected (%d,%d)%s after %s", j, gk, gv, ek, ev, it.hasAlt?" or its alternative":"", after);
         }
         it.hasAlt = false;   // observed: from now on the iterator must keep showing what it showed
      }
   }
}
static void KillIter(int j) {if (I[j].alive) {delete I[j].real; I[j] = MIter();}}
static uint32 IndexWidthClass(uint32 slots) {return (slots <= 255) ? 1 : ((slots <= 65535) ? 2 : 4);}   // documented in Hashtable.h: index type chosen by table size
extern "C" int vf_run_case(const uint8_t * data, size_t size)
{
   static CompleteSetupSystem * css = NULL; if (css == NULL) css = new CompleteSetupSystem;
   BS bs(data, size);
   T[0] = new HT; T[1] = new HT; M[0].l.clear(); M[1].l.clear();
   g_mutWithIter = g_crossWithIter = false; g_iterSteps = 0;
   uint64_t h = 3; uint32 nops = 0; std::string trace; const bool wantTrace = vf::WantSample();
   const uint8_t prof = bs.u8();
   const bool bulk = (prof%8)==0; const bool huge = ((prof == 0x80)||(prof == 0x40))&&((bs.u8()%6) == 0);
   int maxSteps = 150;
   if (huge) {const int n = 65530+bs.u8()%12; maxSteps = 24; (void) T[0]->EnsureSize((uint32)n-((prof == 0x40)?0:40)); for (int k=100;k<100+n;k++) {(void) T[0]->Put(k, k); M[0].l.push_back(std::make_pair(k,k));} vf::Count("profile_65536");}
   else if (bulk) {const int n = 250+bs.u8()%12; for (int k=100;k<100+n;k++) {(void) T[0]->Put(k, k); M[0].l.push_back(std::make_pair(k,k));} vf::Count("profile_256");}
   else vf::Count("profile_small");
   h = vf::HashMix(h, huge ? 2 : (bulk ? 1 : 0)); h = vf::HashMix(h, M[0].l.size());
   int steps = 0;
   while(!bs.done() && steps++ < maxSteps)
   {
      const size_t posBefore = bs.pos;
      const uint32 wcBefore[2] = {IndexWidthClass(T[0]->GetNumAllocatedItemSlots()), IndexWidthClass(T[1]->GetNumAllocatedItemSlots())};
      bool iterMid[2] = {false, false}; for (int j=0;j<3;j++) if (I[j].alive && I[j].owner >= 0 && I[j].hasCookie) iterMid[I[j].owner] = true;
      const size_t szBefore[2] = {M[0].l.size(), M[1].l.size()};
      const uint8_t opb = bs.u8(); const uint8_t op = (opb >= 240) ? (uint8_t)(30+(opb-240)) : (uint8_t)(opb%30); /* (240..255 used to fold onto 0..15) */ const int w = bs.u8()&1; const int k = bs.u8()%12, k2 = bs.u8()%12, v = bs.u8(); HT & t = *T[w]; MTable & m = M[w]; const char * name = "?";
      ML::iterator f = m.find(k), f2 = m.find(k2);
      if (vf::Verbose()) {fprintf(stderr, "  > op %u w=%d k=%d k2=%d v=%d |", op, w, k, k2, v); for (int j=0;j<3;j++) if (I[j].alive) fprintf(stderr, " it%d{t%d %s scratch=%d(%d,%d) cookie=%d(%d)}", j, I[j].owner, I[j].back?"bwd":"fwd", (int)I[j].scratch, I[j].sk, I[j].sv, (int)I[j].hasCookie, I[j].cookie); fprintf(stderr, "\n");}
      switch(op)
      {
         case 0: case 1: name="Put"; if (t.Put(k, v).IsError()) FAIL("Put"); if (f != m.l.end()) f->second = v; else m.l.push_back(std::make_pair(k,v)); break;
         case 2: name="Remove"; {const status_t r = t.Remove(k); if (r.IsOK() != (f != m.l.end())) FAIL("Remove status"); if (f != m.l.end()) {OnEntryLeaving(w, k); m.l.erase(m.find(k));}} break;
         case 3: name="RemoveFirst"; {const status_t r = t.RemoveFirst(); if (r.IsOK() != !m.l.empty()) FAIL("RemoveFirst status"); if (!m.l.empty()) {const int kk = m.l.front().first; OnEntryLeaving(w, kk); m.l.pop_front();}} break;
         case 4: name="RemoveLast"; {const status_t r = t.RemoveLast(); if (r.IsOK() != !m.l.empty()) FAIL("RemoveLast status"); if (!m.l.empty()) {const int kk = m.l.back().first; OnEntryLeaving(w, kk); m.l.pop_back();}} break;
         case 5: name="MoveToFront"; {const status_t r = t.MoveToFront(k); if (r.IsOK() != (f != m.l.end())) FAIL("MoveToFront status"); if ((f != m.l.end())&&(f != m.l.begin())) {OnEntryLeaving(w, k); std::pair<int,int> e = *m.find(k); m.l.erase(m.find(k)); m.l.push_front(e);}} break;
         case 6: name="MoveToBack"; {const status_t r = t.MoveToBack(k); if (r.IsOK() != (f != m.l.end())) FAIL("MoveToBack status"); if ((f != m.l.end())&&(&*f != &m.l.back())) {OnEntryLeaving(w, k); std::pair<int,int> e = *m.find(k); m.l.erase(m.find(k)); m.l.push_back(e);}} break;
         case 7: name="MoveToBefore"; {const status_t r = t.MoveToBefore(k, k2); const bool ok = (f != m.l.end())&&(f2 != m.l.end())&&(k != k2); if (r.IsOK() != ok) FAIL("MoveToBefore status %d (k=%d k2=%d)", (int)r.IsOK(), k, k2); if (ok) {ML::iterator nx = f; ++nx; if (nx != f2) {OnEntryLeaving(w, k); std::pair<int,int> e = *m.find(k); m.l.erase(m.find(k)); m.l.insert(m.find(k2), e);}}} break;
         case 8: name="MoveToBehind"; {const status_t r = t.MoveToBehind(k, k2); const bool ok = (f != m.l.end())&&(f2 != m.l.end())&&(k != k2); if (r.IsOK() != ok) FAIL("MoveToBehind status"); if (ok) {bool already = false; if (f != m.l.begin()) {ML::iterator pv = f; --pv; already = (pv == f2);} if (!already) {OnEntryLeaving(w, k); std::pair<int,int> e = *m.find(k); m.l.erase(m.find(k)); ML::iterator a = m.find(k2); ++a; m.l.insert(a, e);}}} break;
         case 9: name="PutAtFront"; {if (t.PutAtFront(k, v).IsError()) FAIL("PutAtFront"); if (f != m.l.end()) {const int ov = f->second; f->second = v; if (f != m.l.begin()) {OnEntryLeaving(w, k, true, ov); std::pair<int,int> e = *m.find(k); m.l.erase(m.find(k)); m.l.push_front(e);}} else m.l.push_front(std::make_pair(k,v));} break;
         case 10: name="PutAtBack"; {if (t.PutAtBack(k, v).IsError()) FAIL("PutAtBack"); if (f != m.l.end()) {const int ov = f->second; f->second = v; if (&*f != &m.l.back()) {OnEntryLeaving(w, k, true, ov); std::pair<int,int> e = *m.find(k); m.l.erase(m.find(k)); m.l.push_back(e);}} else m.l.push_back(std::make_pair(k,v));} break;
         case 11: name="Clear"; OnClear(w); t.Clear((v&1)!=0); m.l.clear(); break;
         case 12: name="EnsureSize"; if (t.EnsureSize(bs.u8()%40).IsError()) FAIL("EnsureSize"); break;
         case 13: name="SortByKey"; t.SortByKey(); m.l.sort([](const std::pair<int,int> & a, const std::pair<int,int> & b){return a.first < b.first;}); break;
         case 14: name="SortByValue"; t.SortByValue(); m.l.sort([](const std::pair<int,int> & a, const std::pair<int,int> & b){return a.second < b.second;}); break;
         case 15: name="SwapContents"; T[0]->SwapContents(*T[1]); M[0].l.swap(M[1].l); for (int j=0;j<3;j++) if (I[j].alive && I[j].owner >= 0) I[j].owner = 1-I[j].owner; break;
         case 16: name="copy-assign"; OnClear(w); *T[w] = *T[1-w]; M[w].l = M[1-w].l; break;
         case 17: case 18: {name="iter create"; const int j = bs.u8()%3; KillIter(j); MIter & it = I[j]; it.alive = true; it.owner = w; it.back = (v&1)!=0; const bool at = (v&2)!=0; if (at) {it.real = new IT(t, k, it.back?HTIT_FLAG_BACKWARDS:0); it.hasCookie = (f != m.l.end()); it.cookie = k;} else {it.real = new IT(t, it.back?HTIT_FLAG_BACKWARDS:0); it.hasCookie = !m.l.empty(); if (it.hasCookie) it.cookie = it.back ? m.l.back().first : m.l.front().first;}} break;
         case 19: case 20: case 21: {name="iter++"; const int j = bs.u8()%3; MIter & it = I[j]; if (it.alive) {(*it.real)++; if (it.scratch) it.scratch = false; else if ((it.owner >= 0)&&(it.hasCookie)) {int nx; if (Subsequent(M[it.owner], it.cookie, it.back, nx)) it.cookie = nx; else it.hasCookie = false;} else it.hasCookie = false;}} break;
         case 22: {name="iter--"; const int j = bs.u8()%3; MIter & it = I[j]; if (it.alive) {(*it.real)--; if (it.scratch) it.scratch = false; else if ((it.owner >= 0)&&(it.hasCookie)) {int nx; if (Subsequent(M[it.owner], it.cookie, !it.back, nx)) it.cookie = nx; else it.hasCookie = false;} else it.hasCookie = false;}} break;
         case 23: {name="iter destroy"; KillIter(bs.u8()%3);} break;
         case 24: name="MoveToPosition"; {const uint32 pos = bs.u8()%14; const status_t r = t.MoveToPosition(k, pos); if (r.IsOK() != (f != m.l.end())) FAIL("MoveToPosition status"); if (f != m.l.end())
                  {
                     // mirrors the documented positions; an interior target position always takes the entry out and puts it back (even into the same place), which iterators notice
                     if (pos == 0) {if (f != m.l.begin()) {OnEntryLeaving(w, k); std::pair<int,int> e = *m.find(k); m.l.erase(m.find(k)); m.l.push_front(e);}}
                     else if (pos >= m.l.size()) {if (&*f != &m.l.back()) {OnEntryLeaving(w, k); std::pair<int,int> e = *m.find(k); m.l.erase(m.find(k)); m.l.push_back(e);}}
                     else {OnEntryLeaving(w, k); std::pair<int,int> e = *m.find(k); m.l.erase(m.find(k)); ML::iterator ins = m.l.begin(); for (uint32 q=0; q<pos && ins != m.l.end(); q++) ++ins; m.l.insert(ins, e);}
                  }} break;
         case 25: name="GetAndMoveToFront"; {int * r = t.GetAndMoveToFront(k); if ((r != NULL) != (f != m.l.end())) FAIL("GetAndMoveToFront presence"); if ((f != m.l.end())&&(f != m.l.begin())) {OnEntryLeaving(w, k); std::pair<int,int> e = *m.find(k); m.l.erase(m.find(k)); m.l.push_front(e);}} break;
         case 26: name="PutBefore"; {if (t.PutBefore(k, k2, v).IsError()) FAIL("PutBefore"); const bool place = (f2 != m.l.end())&&(k != k2); if (f != m.l.end()) {const int ov = f->second; f->second = v; if (place) {ML::iterator nx = f; ++nx; if (nx != f2) {OnEntryLeaving(w, k, true, ov); std::pair<int,int> e = *m.find(k); m.l.erase(m.find(k)); m.l.insert(m.find(k2), e);}}} else {if (place) m.l.insert(f2, std::make_pair(k,v)); else m.l.push_back(std::make_pair(k,v));}} break;
         case 27: name="ShrinkToFit"; (void) t.ShrinkToFit(); break;
         case 30: name="PutBehind"; {if (t.PutBehind(k, k2, v).IsError()) FAIL("PutBehind"); const bool place = (f2 != m.l.end())&&(k != k2); if (f != m.l.end()) {const int ov = f->second; f->second = v; if (place) {bool already = false; if (f != m.l.begin()) {ML::iterator pv = f; --pv; already = (pv == f2);} if (!already) {OnEntryLeaving(w, k, true, ov); std::pair<int,int> e = *m.find(k); m.l.erase(m.find(k)); ML::iterator a = m.find(k2); ++a; m.l.insert(a, e);}}} else {if (place) {ML::iterator a = f2; ++a; m.l.insert(a, std::make_pair(k,v));} else m.l.push_back(std::make_pair(k,v));}} break;
         case 31: name="PutAtPosition"; {const uint32 pos = bs.u8()%14; if (t.PutAtPosition(k, pos, v).IsError()) FAIL("PutAtPosition");
                  if (f == m.l.end()) {m.l.push_back(std::make_pair(k,v)); f = m.find(k); if ((pos < m.l.size()-1)) {std::pair<int,int> e = *f; m.l.erase(f); ML::iterator ins = m.l.begin(); for (uint32 q=0; q<pos && ins != m.l.end(); q++) ++ins; m.l.insert(ins, e);}}
                  else
                  {
                     const int ov = f->second; f->second = v;     // same positions as MoveToPosition: an interior target always takes the entry out and puts it back
                     if (pos == 0) {if (f != m.l.begin()) {OnEntryLeaving(w, k, true, ov); std::pair<int,int> e = *m.find(k); m.l.erase(m.find(k)); m.l.push_front(e);}}
                     else if (pos >= m.l.size()) {if (&*f != &m.l.back()) {OnEntryLeaving(w, k, true, ov); std::pair<int,int> e = *m.find(k); m.l.erase(m.find(k)); m.l.push_back(e);}}
                     else {OnEntryLeaving(w, k, true, ov); std::pair<int,int> e = *m.find(k); m.l.erase(m.find(k)); ML::iterator ins = m.l.begin(); for (uint32 q=0; q<pos && ins != m.l.end(); q++) ++ins; m.l.insert(ins, e);}
                  }} break;
         case 32: name="PutIfNotAlreadyPresent"; {int * r = (v&1) ? t.PutIfNotAlreadyPresent(k, v) : t.PutIfNotAlreadyPresent(k); if ((r == NULL) != (f != m.l.end())) FAIL("PutIfNotAlreadyPresent returned %s for a key that %s", r ? "a value" : "NULL", (f != m.l.end()) ? "exists" : "does not exist"); if (f == m.l.end()) {const int nv = (v&1) ? v : 0; if (*r != nv) FAIL("PutIfNotAlreadyPresent placed %d, expected %d", *r, nv); m.l.push_back(std::make_pair(k, nv));}} break;
         case 33: name="PutWithDefault/GetWithDefault"; {if (t.GetWithDefault(k, 777) != ((f != m.l.end()) ? f->second : 777)) FAIL("GetWithDefault(key, default)"); if (t.GetWithDefault(k) != ((f != m.l.end()) ? f->second : 0)) FAIL("GetWithDefault(key)"); if (t[k2] != ((f2 != m.l.end()) ? f2->second : 0)) FAIL("operator[]");
                  if (t.PutWithDefault(k).IsError()) FAIL("PutWithDefault"); if (f != m.l.end()) f->second = 0; else m.l.push_back(std::make_pair(k, 0));} break;
         case 34: name="RemoveWithDefault"; {const int r = (v&1) ? t.RemoveWithDefault(k, 555) : t.RemoveWithDefault(k); const int e = (f != m.l.end()) ? f->second : ((v&1) ? 555 : 0); if (r != e) FAIL("RemoveWithDefault returned %d, expected %d", r, e); if (f != m.l.end()) {OnEntryLeaving(w, k); m.l.erase(m.find(k));}} break;
         case 35: name="GetAndMoveToBack"; {int * r = t.GetAndMoveToBack(k); if ((r != NULL) != (f != m.l.end())) FAIL("GetAndMoveToBack presence"); if ((r)&&(*r != f->second)) FAIL("GetAndMoveToBack value"); if ((f != m.l.end())&&(&*f != &m.l.back())) {OnEntryLeaving(w, k); std::pair<int,int> e = *m.find(k); m.l.erase(m.find(k)); m.l.push_back(e);}} break;
         case 36: name="MoveToTable"; {const status_t r = t.MoveToTable(k, *T[1-w]); if (r.IsOK() != (f != m.l.end())) FAIL("MoveToTable status"); if (f != m.l.end()) {const int val = f->second; ML::iterator g = M[1-w].find(k); if (g != M[1-w].l.end()) g->second = val; else M[1-w].l.push_back(std::make_pair(k, val)); OnEntryLeaving(w, k); m.l.erase(m.find(k));}} break;
         case 37: name="CopyToTable"; {const status_t r = t.CopyToTable(k, *T[1-w]); if (r.IsOK() != (f != m.l.end())) FAIL("CopyToTable status"); if (f != m.l.end()) {ML::iterator g = M[1-w].find(k); if (g != M[1-w].l.end()) g->second = f->second; else M[1-w].l.push_back(std::make_pair(k, f->second));}} break;
         case 38: name="SwapWithTable"; {ML::iterator g = M[1-w].find(k); const bool mine = (f != m.l.end()), his = (g != M[1-w].l.end()); const status_t r = t.SwapWithTable(k, *T[1-w]); if (r.IsOK() != (mine||his)) FAIL("SwapWithTable status");
                  if (mine && his) std::swap(f->second, g->second);
                  else if (mine) {M[1-w].l.push_back(*f); OnEntryLeaving(w, k); m.l.erase(m.find(k));}
                  else if (his)  {m.l.push_back(*g); OnEntryLeaving(1-w, k); M[1-w].l.erase(M[1-w].find(k));}} break;
         case 39: name="IsEqualTo/key-set relations"; {
                  bool sameSet = (M[0].l.size() == M[1].l.size()), sameSeq = sameSet, sub01 = true, sub10 = true, kv01 = true, common = false;
                  for (ML::iterator i=M[0].l.begin(); i!=M[0].l.end(); ++i) {ML::iterator g = M[1].find(i->first); if (g == M[1].l.end()) {sameSet = false; sub01 = false; kv01 = false;} else {common = true; if (g->second != i->second) {sameSet = false; kv01 = false;}}}
                  for (ML::iterator i=M[1].l.begin(); i!=M[1].l.end(); ++i) if (M[0].find(i->first) == M[0].l.end()) sub10 = false;
                  if (sameSeq) {ML::iterator a = M[0].l.begin(), b = M[1].l.begin(); for (; a != M[0].l.end(); ++a, ++b) if (*a != *b) {sameSeq = false; break;}}
                  if (T[0]->IsEqualTo(*T[1], false) != sameSet) FAIL("IsEqualTo(unordered) %d, model %d", (int)!sameSet, (int)sameSet); if (T[0]->IsEqualTo(*T[1], true) != sameSeq) FAIL("IsEqualTo(ordered) says %d, model %d", (int)!sameSeq, (int)sameSeq);
                  if ((*T[0] == *T[1]) != sameSet) FAIL("operator=="); if ((*T[0] != *T[1]) == sameSet) FAIL("operator!=");
                  if (T[0]->AreKeysASubsetOf(*T[1]) != sub01) FAIL("AreKeysASubsetOf"); if (T[0]->AreKeysASupersetOf(*T[1]) != sub10) FAIL("AreKeysASupersetOf"); if (T[0]->AreKeySetsEqual(*T[1]) != (sub01 && sub10)) FAIL("AreKeySetsEqual");
                  if (T[0]->AreKeysAndValuesASubsetOf(*T[1]) != kv01) FAIL("AreKeysAndValuesASubsetOf"); if (T[0]->HasKeysInCommonWith(*T[1]) != common) FAIL("HasKeysInCommonWith");} break;
         case 40: name="value queries"; {const int val = v%4; int32 first = -1, last = -1, idx = 0; const int * fk = NULL; const int * lk = NULL; for (ML::iterator i=m.l.begin(); i!=m.l.end(); ++i, idx++) if (i->second == val) {if (first < 0) {first = idx; fk = &i->first;} last = idx; lk = &i->first;}
                  if (t.IndexOfValue(val, false) != first) FAIL("IndexOfValue(%d) forward %d, model %d", val, t.IndexOfValue(val, false), first); if (t.IndexOfValue(val, true) != last) FAIL("IndexOfValue(%d) backward %d, model %d", val, t.IndexOfValue(val, true), last);
                  if (t.ContainsValue(val) != (first >= 0)) FAIL("ContainsValue"); const int * gk = t.GetFirstKeyWithValue(val); if ((gk != NULL) != (fk != NULL) || (gk && *gk != *fk)) FAIL("GetFirstKeyWithValue"); const int * hk = t.GetLastKeyWithValue(val); if ((hk != NULL) != (lk != NULL) || (hk && *hk != *lk)) FAIL("GetLastKeyWithValue");} break;
         case 41: name="GetKeyBefore/GetKeyAfter/At"; {const int * b4 = t.GetKeyBefore(k); const int * af = t.GetKeyAfter(k); const int * eb = NULL; const int * ea = NULL; if (f != m.l.end()) {if (f != m.l.begin()) {ML::iterator p2 = f; --p2; eb = &p2->first;} ML::iterator n2 = f; ++n2; if (n2 != m.l.end()) ea = &n2->first;}
                  if ((b4 != NULL) != (eb != NULL) || (b4 && *b4 != *eb)) FAIL("GetKeyBefore(%d)", k); if ((af != NULL) != (ea != NULL) || (af && *af != *ea)) FAIL("GetKeyAfter(%d)", k);
                  const uint32 pos = (uint32)(k2%14); ML::iterator at = m.l.begin(); for (uint32 q=0; q<pos && at != m.l.end(); q++) ++at; const int * ka = t.GetKeyAt(pos); const int * va = t.GetValueAt(pos); if ((ka != NULL) != (at != m.l.end()) || (ka && ((*ka != at->first)||(*va != at->second)))) FAIL("GetKeyAt/GetValueAt(%u)", pos);
                  if (t.GetKeyAtWithDefault(pos, -5) != ((at != m.l.end()) ? at->first : -5)) FAIL("GetKeyAtWithDefault"); if (t.GetValueAtWithDefault(pos, -6) != ((at != m.l.end()) ? at->second : -6)) FAIL("GetValueAtWithDefault");
                  if (t.IndexOfKey(k) != ((f != m.l.end()) ? (int32)std::distance(m.l.begin(), f) : -1)) FAIL("IndexOfKey");
                  if (t.GetFirstKeyWithDefault(-7) != (m.l.empty() ? -7 : m.l.front().first)) FAIL("GetFirstKeyWithDefault"); if (t.GetLastKeyWithDefault(-7) != (m.l.empty() ? -7 : m.l.back().first)) FAIL("GetLastKeyWithDefault"); if (t.GetFirstValueWithDefault(-8) != (m.l.empty() ? -8 : m.l.front().second)) FAIL("GetFirstValueWithDefault"); if (t.GetLastValueWithDefault(-8) != (m.l.empty() ? -8 : m.l.back().second)) FAIL("GetLastValueWithDefault");} break;
         case 42: name="Intersect"; if (M[0].l.size()+M[1].l.size() > 3000) break; {uint32 removed = 0; std::vector<int> gone; for (ML::iterator i=m.l.begin(); i!=m.l.end(); ++i) if (M[1-w].find(i->first) == M[1-w].l.end()) gone.push_back(i->first); const uint32 r = t.Intersect(*T[1-w]); for (size_t i=0; i<gone.size(); i++) {OnEntryLeaving(w, gone[i]); m.l.erase(m.find(gone[i])); removed++;} if (r != removed) FAIL("Intersect returned %u, model %u", r, removed);} break;
         // (WouldBeEqualToAfterPut/Remove do not compile for a table with a custom hash functor -- their iterators name the default functor -- so they are not exercised here)
         case 43: name="Put(key, value that lives in this table)"; {const int * pv = t.Get(k2); if (pv) {const int val = *pv; if (t.Put(k, *pv).IsError()) FAIL("Put(aliasing value)"); if (f != m.l.end()) f->second = val; else m.l.push_back(std::make_pair(k, val));}
                  const int * pk = t.GetKeyAt((uint32)(v%14)); if (pk) {const int key = *pk; if (t.Put(*pk, v).IsError()) FAIL("Put(aliasing key)"); m.find(key)->second = v;}} break;
         case 44: case 45: name="PutAndGet"; {int * r = t.PutAndGet(k, v); if (r == NULL) FAIL("PutAndGet failed"); if (*r != v) FAIL("PutAndGet returned a pointer to %d, expected %d", *r, v); if (f != m.l.end()) f->second = v; else m.l.push_back(std::make_pair(k,v));} break;
         case 28: name="Put(table)"; if (M[0].l.size()+M[1].l.size() > 3000) break; /* the list model is quadratic here */ {if (T[w]->Put(*T[1-w]).IsError()) FAIL("Put(table)"); for (ML::iterator i=M[1-w].l.begin(); i!=M[1-w].l.end(); ++i) {ML::iterator g = M[w].find(i->first); if (g != M[w].l.end()) g->second = i->second; else M[w].l.push_back(*i);}} break;
         case 29: name="Remove(table keys)"; if (M[0].l.size()+M[1].l.size() > 3000) break; {(void) T[w]->Remove(*T[1-w]); for (ML::iterator i=M[1-w].l.begin(); i!=M[1-w].l.end(); ++i) {if (M[w].find(i->first) != M[w].l.end()) {OnEntryLeaving(w, i->first); M[w].l.erase(M[w].find(i->first));}}} break;
      }
      CheckAll(name);
      nops++;
      h = vf::Hash64(data+posBefore, bs.pos-posBefore, h);
      const bool isIterOp = ((op >= 17)&&(op <= 23));
      if (isIterOp) g_iterSteps++;
      for (int ww=0; ww<2; ww++)
      {
         if ((isIterOp == false)&&(iterMid[ww])&&((M[ww].l.size() != szBefore[ww])||((ww == w)&&(op != 12)&&(op != 27)))) g_mutWithIter = true;
         if ((iterMid[ww])&&(IndexWidthClass(T[ww]->GetNumAllocatedItemSlots()) != wcBefore[ww])) g_crossWithIter = true;
      }
      if (vf::Verbose()) fprintf(stderr, "  %-20s w=%d k=%d k2=%d v=%d -> sizes %zu/%zu slots %u/%u\n", name, w, k, k2, v, M[0].l.size(), M[1].l.size(), T[0]->GetNumAllocatedItemSlots(), T[1]->GetNumAllocatedItemSlots());
      if ((wantTrace)&&(trace.size() < 900)) {char b[64]; snprintf(b, sizeof(b), "%s(t%d,k=%d,k2=%d,v=%d); ", name, w, k, k2, v); trace += b;}
   }
   // destroy tables with iterators alive, then use the iterators
   const int which = bs.u8()&1; OnClear(which); delete T[which]; T[which] = new HT; M[which].l.clear(); CheckAll("table destroyed");
   for (int j=0;j<3;j++) KillIter(j);
   delete T[0]; delete T[1];
   vf::Count("ops", nops); vf::Count("iterator_ops", g_iterSteps);
   if (g_mutWithIter) vf::Count("case_mutation_with_iterator_mid_table");
   if (g_crossWithIter) vf::Count("case_index_width_change_with_iterator_alive");
   if ((g_mutWithIter)||(g_crossWithIter)) {vf::NonTrivial(h); if (wantTrace) vf::Sample(std::string(huge?"[65536 profile] ":(bulk?"[256 profile] ":""))+trace);}
   return 0;
}
