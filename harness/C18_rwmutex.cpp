// C18: ReaderWriterMutex under the harness-owned scheduler.  2-4 logical threads run generated
// compliant scripts (every acquire is eventually released); the harness keeps the holder sets and
// checks exclusion, counting, try/timed behaviour, writer preference; the scheduler reports
// deadlock (lost wake-up / stranded thread).  Mode B enumerates all schedules of a small
// configuration up to a preemption bound (bounded exhaustive).
#include "sched/sched.h"
#include "system/ReaderWriterMutex.h"
#include "system/SetupSystem.h"
#include "syslog/SysLog.h"

using namespace muscle;
const char * vf_harness_name = "c18_rwmutex";

enum {OP_LOCK_RO, OP_LOCK_RW, OP_TRY_RO, OP_TRY_RW, OP_TIMED_RO, OP_TIMED_RW, OP_UNLOCK_RO, OP_UNLOCK_RW, OP_BOGUS_UNLOCK, OP_YIELD, NUM_OPS};
static const char * const OPN[] = {"LockRO", "LockRW", "TryRO", "TryRW", "TimedRO", "TimedRW", "UnlockRO", "UnlockRW", "BogusUnlock", "Yield"};

struct World
{
   int n; int ro[4], rw[4]; bool upgrading[4]; bool inRWCall[4]; uint32 rwCallSeq[4];
   bool preferWriters; vsched::Scheduler * sc; ReaderWriterMutex * mtx;
   // stats
   bool sawBlockedGrant, sawUpgradeWithOtherReader, sawTimeout, sawWriterPreferenceSituation; uint32 acquires;
   std::string script;
};
static World g;

static void CheckExclusion(int me, const char * when)
{
   // an upgrading thread has (documented) dropped its read locks for the duration of the call: it holds nothing
   for (int u=0; u<g.n; u++)
   {
      if ((u == me)||(g.upgrading[u])) continue;
      if ((g.rw[me] > 0)&&((g.ro[u] > 0)||(g.rw[u] > 0))) vf::Fail("exclusion violated %s: thread %d holds the lock for writing while thread %d holds it (%d read, %d write) [%s]", when, me, u, g.ro[u], g.rw[u], g.script.c_str());
      if ((g.ro[me] > 0)&&(g.rw[u] > 0)) vf::Fail("exclusion violated %s: thread %d holds the lock for reading while thread %d holds it for writing [%s]", when, me, u, g.script.c_str());
   }
}

struct WaitingWriter {int w; uint32 seq;};
struct Suspect {int w; uint32 seq; int r;};
static std::vector<Suspect> g_suspects;

static void RunScript(int me, const std::vector<uint8_t> & ops)
{
   vsched::Scheduler & sc = *g.sc; ReaderWriterMutex & m = *g.mtx;
   for (size_t k=0; k<=ops.size(); k++)
   {
      const bool tail = (k == ops.size());     // after the script: release whatever is still held (compliance)
      int op = tail ? -1 : ops[k];
      if (tail) {if (g.rw[me] > 0) op = OP_UNLOCK_RW; else if (g.ro[me] > 0) op = OP_UNLOCK_RO; else break; k--;}
      switch(op)
      {
         case OP_LOCK_RO: case OP_TRY_RO: case OP_TIMED_RO:
         {
            const bool fresh = (g.ro[me] == 0)&&(g.rw[me] == 0);
            // writers that are registered as waiting right now (they have blocked on their wait-condition inside the current LockReadWrite call)
            std::vector<WaitingWriter> ww;
            if ((fresh)&&(g.preferWriters)) for (int u=0; u<g.n; u++) if ((u != me)&&(g.inRWCall[u])&&(sc.IsBlockedOn(u, "wait-condition"))) {WaitingWriter x; x.w = u; x.seq = g.rwCallSeq[u]; ww.push_back(x);}
            if (ww.size()) g.sawWriterPreferenceSituation = true;
            const uint64 deadline = (op == OP_LOCK_RO) ? MUSCLE_TIME_NEVER : ((op == OP_TRY_RO) ? 0 : (sc.Now()+100));
            const uint64_t b0 = sc.BlockedCount(me, "wait-condition");
            const status_t r = m.LockReadOnly(deadline);
            if (r.IsOK())
            {
               g.ro[me]++; g.acquires++;
               if (sc.BlockedCount(me, "wait-condition") > b0) g.sawBlockedGrant = true;
               CheckExclusion(me, "after a read acquire");
               // admitted while that writer is still inside the same call: overtaking, unless the writer turns out to have given up (timed out) -- decided when its call returns
               for (size_t i=0; i<ww.size(); i++) if ((g.inRWCall[ww[i].w])&&(g.rwCallSeq[ww[i].w] == ww[i].seq)) {Suspect x; x.w = ww[i].w; x.seq = ww[i].seq; x.r = me; g_suspects.push_back(x);}
            }
            else
            {
               if (r != B_TIMED_OUT) vf::Fail("LockReadOnly returned %s", r());
               if (op == OP_LOCK_RO) vf::Fail("an untimed LockReadOnly returned B_TIMED_OUT");
               if ((op == OP_TRY_RO)&&(sc.BlockedCount(me, "wait-condition") > b0)) vf::Fail("TryLockReadOnly blocked");
               if ((g.ro[me] > 0)||(g.rw[me] > 0)) vf::Fail("a thread that already holds the lock was refused a recursive read acquire");
               g.sawTimeout = true;
            }
         }
         break;
         case OP_LOCK_RW: case OP_TRY_RW: case OP_TIMED_RW:
         {
            const uint64 deadline = (op == OP_LOCK_RW) ? MUSCLE_TIME_NEVER : ((op == OP_TRY_RW) ? 0 : (sc.Now()+100));
            const bool isUpgrade = (g.rw[me] == 0)&&(g.ro[me] > 0);
            if (isUpgrade) {for (int u=0; u<g.n; u++) if ((u != me)&&(g.ro[u] > 0)) g.sawUpgradeWithOtherReader = true; g.upgrading[me] = true;}
            g.inRWCall[me] = true; g.rwCallSeq[me]++;
            const uint64_t b0 = sc.BlockedCount(me, "wait-condition");
            const status_t r = m.LockReadWrite(deadline);
            g.inRWCall[me] = false; g.upgrading[me] = false;
            for (size_t i=0; i<g_suspects.size(); )
            {
               if (g_suspects[i].w != me) {i++; continue;}
               if ((r.IsOK())&&(g_suspects[i].seq == g.rwCallSeq[me])) vf::Fail("writer preference violated: reader thread %d requested after writer thread %d was already waiting, and was admitted before that writer (which waited on and was granted later) [%s]", g_suspects[i].r, me, g.script.c_str());
               g_suspects.erase(g_suspects.begin()+i);
            }
            if (r.IsOK())
            {
               g.rw[me]++; g.acquires++;
               if (sc.BlockedCount(me, "wait-condition") > b0) g.sawBlockedGrant = true;
               CheckExclusion(me, isUpgrade ? "after a read->write upgrade" : "after a write acquire");
            }
            else
            {
               if (r != B_TIMED_OUT) vf::Fail("LockReadWrite returned %s", r());
               if (op == OP_LOCK_RW) vf::Fail("an untimed LockReadWrite returned B_TIMED_OUT");
               if ((op == OP_TRY_RW)&&(isUpgrade == false)&&(sc.BlockedCount(me, "wait-condition") > b0)) vf::Fail("TryLockReadWrite blocked");
               if (g.rw[me] > 0) vf::Fail("a thread that already holds the write lock was refused a recursive write acquire");
               g.sawTimeout = true;
               CheckExclusion(me, "after a failed write acquire (read locks must be back)");
            }
         }
         break;
         case OP_UNLOCK_RO:
            if (g.ro[me] > 0)
            {
               CheckExclusion(me, "before a read release");
               g.ro[me]--;                               // model first: the model's holder interval lies inside the real one
               const status_t r = m.UnlockReadOnly(); if (r.IsError()) vf::Fail("UnlockReadOnly failed (%s) although this thread holds %d read lock(s)", r(), g.ro[me]+1);
            }
         break;
         case OP_UNLOCK_RW:
            if (g.rw[me] > 0)
            {
               CheckExclusion(me, "before a write release");
               g.rw[me]--;
               const status_t r = m.UnlockReadWrite(); if (r.IsError()) vf::Fail("UnlockReadWrite failed (%s) although this thread holds %d write lock(s)", r(), g.rw[me]+1);
            }
         break;
         case OP_BOGUS_UNLOCK:
            // releasing what this thread does not hold must fail and change nothing
            if (g.ro[me] == 0) {const status_t r = m.UnlockReadOnly(); if (r.IsOK()) vf::Fail("UnlockReadOnly succeeded for a thread that holds no read lock");}
            if (g.rw[me] == 0) {const status_t r = m.UnlockReadWrite(); if (r.IsOK()) vf::Fail("UnlockReadWrite succeeded for a thread that holds no write lock");}
         break;
         default:
            sc.YieldNow(); CheckExclusion(me, "inside the critical section");
         break;
      }
   }
}

struct Config {int n; bool prefer; std::vector<std::vector<uint8_t> > scripts;};

static std::string Describe(const Config & c)
{
   std::string s = c.prefer ? "preferWriters " : "preferReaders ";
   for (int t=0; t<c.n; t++) {s += "T"+std::to_string(t)+":"; for (size_t k=0; k<c.scripts[t].size(); k++) {s += OPN[c.scripts[t][k]]; s += (k+1 < c.scripts[t].size()) ? "," : "";} s += " ";}
   return s;
}

static void RunOnce(const Config & c, vsched::Source & src, uint64_t & switches, uint64_t & preempt)
{
   vsched::Scheduler sc(src);
   ReaderWriterMutex mtx("verif", c.prefer);
   g.n = c.n; g.preferWriters = c.prefer; g.sc = &sc; g.mtx = &mtx;
   for (int t=0; t<4; t++) {g.ro[t] = g.rw[t] = 0; g.upgrading[t] = g.inRWCall[t] = false; g.rwCallSeq[t] = 0;}
   g_suspects.clear();
   sc.SetContext(g.script);
   for (int t=0; t<c.n; t++) {const std::vector<uint8_t> ops = c.scripts[t]; sc.Spawn([t, ops]{RunScript(t, ops);});}
   sc.Run();
   for (int t=0; t<c.n; t++) if ((g.ro[t] != 0)||(g.rw[t] != 0)) vf::Fail("thread %d finished still holding locks (harness error)", t);
   // everything was released: the lock must be free again for anybody, immediately
   if (mtx.TryLockReadWrite().IsError()) vf::Fail("after all threads released everything the lock cannot be taken for writing [%s]", g.script.c_str());
   (void) mtx.UnlockReadWrite();
   switches = sc.Switches(); preempt = sc.Preemptions();
   if (sc.TimeoutsFired()) g.sawTimeout = true;
}

extern "C" int vf_run_case(const uint8_t * data, size_t size)
{
   static CompleteSetupSystem * css = NULL; if (css == NULL) {css = new CompleteSetupSystem; SetConsoleLogLevel(MUSCLE_LOG_NONE);}
   if (size < 4) return 0;
   vf::BS bs(data, size);
   const uint8_t mode = bs.u8();
   const bool exhaustive = (mode%128 == 0);
   Config c; c.prefer = bs.flip();
   c.n = exhaustive ? 2+(bs.u8()%2) : 2+(bs.u8()%3);
   const uint32 maxOps = exhaustive ? ((c.n == 2) ? 3 : 2) : 6;
   for (int t=0; t<c.n; t++)
   {
      std::vector<uint8_t> ops; const uint32 k = 1+bs.u8()%maxOps; int ro = 0, rw = 0;
      for (uint32 i=0; i<k; i++)
      {
         uint8_t op = bs.u8()%NUM_OPS;
         if ((op == OP_UNLOCK_RO)&&(ro == 0)) op = OP_LOCK_RO;
         if ((op == OP_UNLOCK_RW)&&(rw == 0)) op = OP_LOCK_RW;
         if (exhaustive && (op == OP_YIELD)) op = OP_LOCK_RO;
         // script-level bookkeeping only decides which unlocks are worth generating; the run-time model decides what is actually held
         if ((op == OP_LOCK_RO)||(op == OP_TRY_RO)||(op == OP_TIMED_RO)) ro++; else if ((op == OP_LOCK_RW)||(op == OP_TRY_RW)||(op == OP_TIMED_RW)) rw++; else if (op == OP_UNLOCK_RO) ro--; else if (op == OP_UNLOCK_RW) rw--;
         ops.push_back(op);
      }
      c.scripts.push_back(ops);
   }
   g.script = Describe(c); g.sawBlockedGrant = g.sawUpgradeWithOtherReader = g.sawTimeout = g.sawWriterPreferenceSituation = false; g.acquires = 0;
   if (vf::Verbose()) fprintf(stderr, "config: %s\n", g.script.c_str());

   uint64_t h = vf::HashStr(g.script);
   if (exhaustive)
   {
      uint64_t explored = 0, sw = 0, pre = 0; const uint32 bound = 2+(bs.u8()%2);
      const bool complete = vsched::EnumerateSchedules(bound, 600, [&](vsched::Source & s){RunOnce(c, s, sw, pre);}, explored);
      vf::Count("exhaustive_configs"); vf::Count("exhaustive_schedules", explored); if (complete) vf::Count("exhaustive_configs_completed_within_bound"); else vf::Count("exhaustive_configs_capped_at_600_schedules");
      if (explored >= 2) {vf::NonTrivial(vf::HashMix(h, 0xd5f)); if (vf::WantSample()) vf::Sample("exhaustive (preemption bound "+std::to_string(bound)+", "+std::to_string(explored)+" schedules, complete="+(complete?"yes":"no")+"): "+g.script);}
      return 0;
   }
   vsched::ByteSource src(bs); uint64_t sw = 0, pre = 0;
   RunOnce(c, src, sw, pre);
   // determinism self-test on a sample of cases: the same choices must give the same run
   if ((mode%8) == 1)
   {
      vsched::PrefixSource again(src.trace, 1000000); uint64_t sw2 = 0, pre2 = 0; RunOnce(c, again, sw2, pre2);
      if ((sw2 != sw)||(again.trace != src.trace)) vf::Fail("the scheduler is not deterministic: %llu vs %llu context switches for the same choices (harness error) [%s]", (unsigned long long)sw, (unsigned long long)sw2, g.script.c_str());
      vf::Count("determinism_selftests");
   }
   vf::Count("random_schedules"); vf::Count("context_switches", sw); vf::Count("preemptions", pre); vf::Count("acquires_granted", g.acquires);
   if (g.sawBlockedGrant) vf::Count("case_blocked_acquire_later_granted");
   if (g.sawUpgradeWithOtherReader) vf::Count("case_upgrade_while_another_reader_holds");
   if (g.sawTimeout) vf::Count("case_with_failed_try_or_timed_acquire");
   if (g.sawWriterPreferenceSituation) vf::Count("case_reader_arrives_while_writer_waits");
   for (size_t i=0; i<src.trace.size(); i++) h = vf::HashMix(h, src.trace[i]);
   if ((g.sawBlockedGrant)||(g.sawUpgradeWithOtherReader)) {vf::NonTrivial(h); if (vf::WantSample()) vf::Sample(g.script+" | "+std::to_string(sw)+" switches, "+std::to_string(pre)+" preemptions");}
   return 0;
}
