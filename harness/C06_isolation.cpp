// C06: (isolation) an adversary session sends arbitrary commands -- absolute paths into the victim's
// subtree, '..', wildcards at host and session level, REORDER/INSERTORDERED/REMOVE with such paths,
// KICK, ADDBANS, privilege bits, forged session fields -- and after every one of them the victim's
// subtree, ordered index, parameters and connection are unchanged and privileged commands bounce.
// (cleanup) a leaver session runs generated commands, queues more, and is cut after k bytes of its
// pending output: afterwards no node under its path, its id in no subscriber table, every subscriber
// told, host node gone iff empty; when the last session leaves no stray node remains.
#include "reflector/gencmd.h"
#include <algorithm>

using namespace muscle;
using namespace rh;
const char * vf_harness_name = "c06_isolation";

static std::string Esc(const std::string & s) {return vf::Esc(s);}

static void WalkSnap(const DataNode & n, std::string & out)
{
   String p; (void) n.GetNodePath(p); out += p(); out += '='; out += vf::Hex(Flat(*n.GetData()()).data(), Flat(*n.GetData()()).size(), 200); out += '[';
   if (n.GetIndex()) for (uint32 i=0; i<n.GetIndex()->GetNumItems(); i++) {out += (*n.GetIndex())[i]()->GetNodeName()(); out += ',';}
   out += ']';
   std::vector<std::string> kids; for (DataNodeRefIterator it = n.GetChildIterator(); it.HasData(); it++) kids.push_back(it.GetValue()()->GetNodeName()());
   std::sort(kids.begin(), kids.end());
   for (size_t i=0; i<kids.size(); i++) {DataNodeRef k; if (n.GetChild(kids[i].c_str(), k).IsOK()) WalkSnap(*k(), out);}
   out += ' ';
}
// every node of the tree lies in the subtree of a session that is connected (host nodes and session nodes are the server's own)
static void NoNodesOutsideSessions(World & w, const std::string & afterWhat)
{
   HSession * any = w.AnySession(); if (any == NULL) return;
   std::map<std::string, NodeInfo> tree; WalkTree(any->Root(), tree);
   for (std::map<std::string, NodeInfo>::const_iterator it = tree.begin(); it != tree.end(); ++it)
   {
      const std::vector<std::string> cl = SplitPath(it->first); if ((it->first.size() <= 1)||(cl.size() < 2)) continue;
      const std::string root = "/"+cl[0]+"/"+cl[1]; bool owned = false; for (size_t i=0; i<w.c.size(); i++) if ((w.c[i]->connected)&&(w.c[i]->root == root)) owned = true;
      if (owned == false) vf::Fail("after [%s] the tree holds the node %s, which is in no connected session's subtree", afterWhat.c_str(), it->first.c_str());
   }
}

static std::string Snap(World & w, int vi)
{
   Client & v = *w.c[vi]; const String vid = v.id.c_str();
   if ((v.connected == false)||(w.server->GetSessions().ContainsKey(&vid) == false)) return "GONE";
   std::string r; if (v.sess->SNode()()) WalkSnap(*v.sess->SNode()(), r); else r = "NOSESSIONNODE";
   r += "|params="; r += vf::Hex(Flat(v.sess->GetParametersConst()).data(), Flat(v.sess->GetParametersConst()).size(), 600);
   return r;
}

static void RunIsolation(vf::BS & bs)
{
   World w; w.Start(3);     // 0 adversary, 1 victim, 2 witness
   uint32 deniedReplies = 0; std::vector<std::string> witnessSawVictimPaths;
   std::string vroot; bool armed = false;
   w.onMessage = [&](int ci, const Message & m){
      if ((ci == 0)&&(m.what == PR_RESULT_ERRORACCESSDENIED)) deniedReplies++;
      if ((ci == 2)&&(armed)&&((m.what == PR_RESULT_DATAITEMS)||(m.what == PR_RESULT_INDEXUPDATED)))
      {
         const String * r; for (uint32 k=0; m.FindString(PR_NAME_REMOVED_DATAITEMS, k, &r).IsOK(); k++) if (std::string(r->Cstr()).compare(0, vroot.size(), vroot) == 0) witnessSawVictimPaths.push_back(std::string("REMOVED ")+r->Cstr());
         for (MessageFieldNameIterator it = m.GetFieldNameIterator(); it.HasData(); it++) if (std::string(it.GetFieldName()()).compare(0, vroot.size(), vroot) == 0) witnessSawVictimPaths.push_back(std::string((m.what == PR_RESULT_DATAITEMS) ? "SET " : "INDEX ")+it.GetFieldName()());
      }};
   // a predecessor session comes and goes first (in the victim's slot): it builds the same node shapes with ordered children everywhere,
   // so the victim's nodes are recycled ones; whatever the predecessor did must not show in the victim's fresh subtree
   const uint8_t pb = bs.u8(); const uint32 predecessorInserts = pb%4;
   // in a quarter of the cases the server grants every host the add-bans and remove-bans privileges -- but not the kick privilege: KICK must still bounce
   const bool partialPrivileges = ((pb>>2)%4 == 3);
   if (partialPrivileges) {(void) w.server->GetCentralState().AddString("priv1", "*"); (void) w.server->GetCentralState().AddString("priv2", "*"); vf::Count("case_server_grants_ban_privileges_but_not_kick");}
   if (predecessorInserts)
   {
      w.Connect(1, "h1");
      {MessageRef m = GetMessageFromPool(PR_COMMAND_SETDATA); MessageRef d = GetMessageFromPool(7); (void) m()->AddMessage("a", d); (void) m()->AddMessage("b", d); (void) m()->AddMessage("a/c", d); (void) m()->AddMessage("o", d); (void) w.Send(1, m);}
      for (uint32 i=0; i<predecessorInserts; i++) {MessageRef m = GetMessageFromPool(PR_COMMAND_INSERTORDEREDDATA); (void) m()->AddString(PR_NAME_KEYS, "*"); (void) m()->AddString(PR_NAME_KEYS, "a/c"); MessageRef d = GetMessageFromPool(8); (void) m()->AddMessage("", d); (void) w.Send(1, m);}
      w.Pump(); w.Disconnect(1); w.Pump();
      vf::Count("case_victim_follows_a_departed_session_with_ordered_children");
   }
   w.Connect(0, "h0"); w.Connect(1, bs.flip() ? "h0" : "h1"); w.Connect(2, "h1");
   vroot = w.c[1]->root;
   // the victim builds its subtree, an ordered index, subscriptions and a private parameter
   {MessageRef m = GetMessageFromPool(PR_COMMAND_SETDATA); MessageRef d = GetMessageFromPool(7); (void) d()->AddInt32("v", 1); (void) m()->AddMessage("a", d); (void) m()->AddMessage("b", d); (void) m()->AddMessage("a/c", d); (void) m()->AddMessage("o", d); (void) w.Send(1, m);}
   {MessageRef m = GetMessageFromPool(PR_COMMAND_INSERTORDEREDDATA); (void) m()->AddString(PR_NAME_KEYS, "o"); MessageRef d = GetMessageFromPool(8); (void) m()->AddMessage("", d); (void) m()->AddMessage("", d); (void) w.Send(1, m);}
   {MessageRef m = GetMessageFromPool(PR_COMMAND_SETPARAMETERS); (void) m()->AddBool("SUBSCRIBE:a", true); (void) m()->AddBool("SUBSCRIBE:/*/*/b", true); (void) m()->AddString("myparam", "x"); (void) w.Send(1, m);}
   {MessageRef m = GetMessageFromPool(PR_COMMAND_SETPARAMETERS); (void) m()->AddBool((String("SUBSCRIBE:")+vroot.c_str()+"/*"), true); (void) m()->AddBool((String("SUBSCRIBE:")+vroot.c_str()+"/*/*"), true); (void) w.Send(2, m);}
   w.Pump(); w.Pump();
   const std::string snap0 = Snap(w, 1);
   // a brand-new node names its first ordered children I0 and I1, whatever earlier sessions did (nodes are pooled: state must not leak through the pool)
   if (snap0.find("/o/I0=") == std::string::npos || snap0.find("/o/I1=") == std::string::npos || snap0.find("[I0,I1,]") == std::string::npos) vf::Fail("a fresh session's first ordered children are not named I0, I1: a departed session left a trace in a recycled node: victim state %s", Esc(snap0).c_str());
   if (snap0.find("/a/c=") == std::string::npos) vf::Fail("victim setup incomplete (harness): %s", Esc(snap0).c_str());
   armed = true;
   gencmd::Opts o; o.victimHost = w.c[1]->host; o.victimId = w.c[1]->id; uint32 addressing = 0; o.pathsAddressingVictim = &addressing; o.aimAtVictim = true; uint32 beside = 0; o.ownRoot = w.c[0]->root; o.pathsBesideOwnRoot = &beside;
   int steps = 0; uint32 privilegedSent = 0; std::string hist; uint64_t h = 17;
   while((bs.done() == false)&&(steps++ < 40))
   {
      const size_t p0 = bs.pos;
      const uint8_t op = bs.u8();
      if (w.c[0]->connected == false) break;
      std::string d; MessageRef cmd = gencmd::GenCmd(bs, 0, o, &d);
      const uint32 wc = cmd()->what; const bool privileged = (wc == PR_COMMAND_KICK)||(wc == PR_COMMAND_ADDBANS)||(wc == PR_COMMAND_REMOVEBANS)||(wc == PR_COMMAND_ADDREQUIRES)||(wc == PR_COMMAND_REMOVEREQUIRES);
      if (vf::Verbose()) fprintf(stderr, "  adversary sends %s\n", d.c_str());
      if (hist.size() < 1000) hist += d+"; ";
      (void) op;
      const uint32 deniedBefore = deniedReplies;
      (void) w.Send(0, cmd); w.Pump();
      if ((privileged)&&((partialPrivileges == false)||(wc == PR_COMMAND_KICK))) {privilegedSent++; if (deniedReplies != deniedBefore+1) vf::Fail("a privileged command (%s) from a session without that privilege%s did not bounce with PR_RESULT_ERRORACCESSDENIED", d.c_str(), partialPrivileges ? " (it holds the ban privileges only)" : "");}
      const std::string now = Snap(w, 1); NoNodesOutsideSessions(w, d);
      if (now != snap0) vf::Fail("the victim's state was changed by the adversary command [%s]: before %s after %s", d.c_str(), Esc(snap0).substr(0, 700).c_str(), Esc(now).substr(0, 700).c_str());
      if (witnessSawVictimPaths.size()) vf::Fail("after the adversary command [%s] a subscriber of the victim's nodes was sent [%s]", d.c_str(), witnessSawVictimPaths[0].c_str());
      h = vf::Hash64(bs.p+p0, bs.pos-p0, h);
   }
   w.Stop();
   vf::Count("mode_isolation"); vf::Count("adversary_commands", (uint64_t)steps); vf::Count("adversary_paths_addressing_the_victim", addressing); vf::Count("privileged_commands_bounced", privilegedSent); if (beside) vf::Count("case_adversary_used_a_path_that_begins_like_its_own_root");
   if (addressing > 0) {vf::Count("case_adversary_addressed_victim_subtree"); vf::NonTrivial(h); if (vf::WantSample()) vf::Sample("adversary vs victim "+vroot+": "+hist);}
}

static void RunCleanup(vf::BS & bs)
{
   World w; w.Start(3);     // 0 leaver, 1 stayer, 2 witness
   std::set<std::string> witnessMirror;
   w.onMessage = [&](int ci, const Message & m){
      if ((ci == 2)&&(m.what == PR_RESULT_DATAITEMS))
      {
         const String * r; for (uint32 k=0; m.FindString(PR_NAME_REMOVED_DATAITEMS, k, &r).IsOK(); k++) witnessMirror.erase(r->Cstr());
         for (MessageFieldNameIterator it = m.GetFieldNameIterator(B_MESSAGE_TYPE); it.HasData(); it++) witnessMirror.insert(it.GetFieldName()());
      }};
   const bool sameHost = bs.flip();
   w.Connect(0, "h0"); w.Connect(1, sameHost ? "h0" : "h1"); w.Connect(2, "h1");
   std::vector<std::string> stray; HSession::g_strayNodesAtLastDetach = &stray;
   const std::string lroot = w.c[0]->root, lid = w.c[0]->id, lhost = w.c[0]->host;
   {MessageRef m = GetMessageFromPool(PR_COMMAND_SETPARAMETERS); const uint32 levels = 3+bs.u8()%3; std::string p = "/*/*"; for (uint32 i=2; i<levels+2; i++) {p += "/*"; (void) m()->AddBool((String("SUBSCRIBE:")+p.c_str()), true);} (void) w.Send(2, m);}
   {MessageRef m = GetMessageFromPool(PR_COMMAND_SETDATA); MessageRef d = GetMessageFromPool(7); (void) m()->AddMessage("a", d); (void) m()->AddMessage("b/x", d); (void) w.Send(1, m);}
   w.Pump();
   gencmd::Opts o; o.victimHost = w.c[1]->host; o.victimId = w.c[1]->id; o.aimAtVictim = true;
   std::string hist; bool usedQuiet = false; uint64_t h = 23;
   const uint8_t n1b = bs.u8(); const uint32 n1 = n1b%12; const uint32 mute = (n1b/12)%4;      // mute 1,2: the leaver switches its updates off, drops its subscriptions while muted (2: and switches them on again) before it goes
   for (uint32 i=0; (i<n1)&&(w.c[0]->connected); i++) {std::string d; MessageRef cmd = gencmd::GenCmd(bs, 0, o, &d); if ((d.find("QUIET") != std::string::npos)||(cmd()->HasName(PR_NAME_REMOVE_QUIETLY))||(cmd()->HasName(PR_NAME_FLAGS))||(cmd()->what == PR_COMMAND_BATCH)) usedQuiet = true; if (hist.size() < 900) hist += d+"; "; (void) w.Send(0, cmd); if (bs.flip()) w.Pump(); h = vf::HashStr(d, h);}
   // some own nodes for sure, then a last burst that only partly reaches the server
   {MessageRef m = GetMessageFromPool(PR_COMMAND_SETDATA); MessageRef d = GetMessageFromPool(9); (void) m()->AddMessage("k", d); (void) m()->AddMessage("k/deep/er", d); (void) w.Send(0, m);}
   {MessageRef m = GetMessageFromPool(PR_COMMAND_SETPARAMETERS); (void) m()->AddBool((String("SUBSCRIBE:")+w.c[1]->root.c_str()+"/*"), true); (void) m()->AddBool("SUBSCRIBE:/*/*/*/*", true); (void) w.Send(0, m);}
   // a session-relative subscription, sent twice (the second one must be recognised as the one already held)
   for (int rep=0; rep<2; rep++) if (w.c[0]->connected) {MessageRef m = GetMessageFromPool(PR_COMMAND_SETPARAMETERS); (void) m()->AddBool("SUBSCRIBE:*/x", true); (void) w.Send(0, m); w.Pump();}
   if (w.c[0]->connected) w.Pump();
   if (((mute == 1)||(mute == 2))&&(w.c[0]->connected))
   {
      {MessageRef m = GetMessageFromPool(PR_COMMAND_SETPARAMETERS); (void) m()->AddBool(PR_NAME_DISABLE_SUBSCRIPTIONS, true); (void) w.Send(0, m);}
      {MessageRef m = GetMessageFromPool(PR_COMMAND_REMOVEPARAMETERS); (void) m()->AddString(PR_NAME_KEYS, (bs.flip()) ? "SUBSCRIBE:*" : "SUBSCRIBE:/\\*/\\*/\\*/\\*"); (void) w.Send(0, m);}
      if (mute == 2) {MessageRef m = GetMessageFromPool(PR_COMMAND_REMOVEPARAMETERS); (void) m()->AddString(PR_NAME_KEYS, PR_NAME_DISABLE_SUBSCRIPTIONS); (void) w.Send(0, m);}
      hist += "(leaver mutes its updates, drops subscriptions while muted"+std::string((mute == 2) ? ", unmutes" : "")+"); "; w.Pump(); vf::Count("case_leaver_dropped_subscriptions_while_muted");
   }
   const uint32 n2 = 1+bs.u8()%3; uint32 pendingBytes = 0;
   for (uint32 i=0; (i<n2)&&(w.c[0]->connected); i++) {std::string d; MessageRef cmd = gencmd::GenCmd(bs, 0, o, &d); if ((cmd()->HasName(PR_NAME_REMOVE_QUIETLY))||(cmd()->HasName(PR_NAME_FLAGS))||(cmd()->what == PR_COMMAND_BATCH)) usedQuiet = true; if (hist.size() < 1100) hist += "(last burst) "+d+"; "; pendingBytes += cmd()->FlattenedSize()+8; (void) w.Send(0, cmd); h = vf::HashStr(d, h);}
   const uint32 cut = bs.range(0, 1023); uint32 sent = 0;
   if (w.c[0]->connected) sent = w.Cut(0, cut);
   w.Pump(); w.Pump();
   const bool cutInsideMessage = (sent > 0)&&(sent < pendingBytes);
   // in-process walk
   HSession * any = w.AnySession(); if (any == NULL) vf::Fail("stayer and witness are gone (harness)");
   std::map<std::string, NodeInfo> tree; WalkTree(any->Root(), tree);
   bool hostHasOthers = false; for (std::map<std::string, NodeInfo>::iterator it = tree.begin(); it != tree.end(); ++it) {const std::vector<std::string> parts = SplitPath(it->first); if ((parts.size() >= 2)&&(parts[0] == lhost)&&(parts[1] != lid)) hostHasOthers = true;}
   for (std::map<std::string, NodeInfo>::iterator it = tree.begin(); it != tree.end(); ++it)
   {
      if ((it->first == lroot)||((it->first.size() > lroot.size())&&(it->first.compare(0, lroot.size(), lroot) == 0)&&(it->first[lroot.size()] == '/'))) vf::Fail("node %s of the departed session %s is still in the tree (cut after %u of %u pending bytes): %s", it->first.c_str(), lroot.c_str(), sent, pendingBytes, hist.c_str());
      if (it->second.subscribers.count(lid)) vf::Fail("the departed session %s is still in the subscriber table of node %s (cut after %u of %u pending bytes): %s", lid.c_str(), it->first.c_str(), sent, pendingBytes, hist.c_str());
   }
   if ((hostHasOthers == false)&&(tree.count("/"+lhost))) vf::Fail("the host node /%s is still there although its last session left", lhost.c_str());
   if ((hostHasOthers)&&(tree.count("/"+lhost) == 0)) vf::Fail("the host node /%s vanished although another session still lives under it", lhost.c_str());
   if (usedQuiet == false) for (std::set<std::string>::iterator it = witnessMirror.begin(); it != witnessMirror.end(); ++it) if ((it->size() > lroot.size())&&(it->compare(0, lroot.size(), lroot) == 0)&&((*it)[lroot.size()] == '/')) vf::Fail("the witness was never told that %s of the departed session is gone (cut after %u of %u pending bytes): %s", it->c_str(), sent, pendingBytes, hist.c_str());
   // everybody else leaves too: when the last session detaches, no node of an earlier session may be left
   w.Close(1); for (int r=0; r<4; r++) (void) w.server->ServerProcessLoop(0);
   w.Close(2); for (int r=0; r<6; r++) (void) w.server->ServerProcessLoop(0);
   if (stray.size()) vf::Fail("when the last session left, node %s of an earlier session was still in the tree: %s", stray[0].c_str(), hist.c_str());
   if (w.server->GetSessions().GetNumItems() != 0) vf::Fail("sessions remain after everybody left");
   HSession::g_strayNodesAtLastDetach = NULL;
   w.server->Cleanup(); delete w.server; w.server = NULL;
   vf::Count("mode_cleanup"); if (cutInsideMessage) vf::Count("case_cut_strictly_inside_pending_output"); if (usedQuiet) vf::Count("case_witness_clause_skipped_quiet_or_batch");
   if (cutInsideMessage) {vf::NonTrivial(vf::HashMix(h, sent)); if (vf::WantSample()) vf::Sample("leaver "+lroot+" cut after "+std::to_string(sent)+" of "+std::to_string(pendingBytes)+" pending bytes: "+hist);}
}

extern "C" int vf_run_case(const uint8_t * data, size_t size)
{
   static CompleteSetupSystem * css = NULL; if (css == NULL) {css = new CompleteSetupSystem; SetConsoleLogLevel(MUSCLE_LOG_NONE);}
   if (size < 6) return 0;
   vf::BS bs(data, size);
   if (bs.flip()) RunIsolation(bs); else RunCleanup(bs);
   return 0;
}
