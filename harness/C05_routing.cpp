// C05: (a) client-to-client Messages routed by PR_NAME_KEYS patterns (1-3 keys of different or equal
// depths, absolute or with the implicit /*/*/ prefix, optional filters, forged session field,
// reflect-to-self, default route parameter, no keys at all) must reach exactly the sessions the
// patterns select, once each, in sending order, carrying the true sender id.
// (b) ONE multi-key traversal exactly as the server performs it (a GETDATA with 1-4 keys) must return
// exactly the node set that PathMatcher::MatchesPath selects when every node path is tested one by one.
#include "reflector/rharness.h"
#include <algorithm>

using namespace muscle;
using namespace rh;
const char * vf_harness_name = "c05_routing";

static std::string g_hist;
static void H(const std::string & s) {if (vf::Verbose()) fprintf(stderr, "  %s\n", s.c_str()); if (g_hist.size() < 1300) {g_hist += s; g_hist += "; ";}}

struct Pub {std::map<std::string, int> nodes;   /* relative path -> v */ bool reflectToSelf; std::vector<std::string> defaultRoute; Pub() : reflectToSelf(false) {}};

static void RunRouting(vf::BS & bs)
{
   const int NC = 4; World w; w.Start(NC);
   std::vector<Pub> pub(NC); std::vector<std::map<uint32, int> > got(NC); std::vector<std::vector<uint32> > order(NC); std::vector<std::map<uint32, std::string> > sessionField(NC);
   w.onMessage = [&](int ci, const Message & m){if ((m.what >= 1000)&&(m.what < 3000)) {got[ci][m.what]++; order[ci].push_back(m.what); const String * s = NULL; if (m.FindString(PR_NAME_SESSION, &s).IsOK()) sessionField[ci][m.what] = s->Cstr(); else sessionField[ci][m.what] = "<absent>";}};
   for (int i=0; i<NC; i++) w.Connect(i, (i%2) ? "h1" : "h0");
   static const char * const NN[] = {"a", "b", "ab", "a/a", "a/b", "b/ab"};
   for (int i=0; i<NC; i++)
   {
      const uint32 nn = bs.u8()%4; MessageRef m = GetMessageFromPool(PR_COMMAND_SETDATA); std::string l = "c"+std::to_string(i)+" publishes";
      for (uint32 k=0; k<nn; k++)
      {
         const char * p = NN[bs.u8()%6]; const int v = bs.u8()%3; MessageRef d = GetMessageFromPool(1); (void) d()->AddInt32("v", v); (void) m()->AddMessage(p, d);
         pub[i].nodes[p] = v; const std::string ps = p; const size_t sl = ps.find('/'); if ((sl != std::string::npos)&&(pub[i].nodes.count(ps.substr(0, sl)) == 0)) pub[i].nodes[ps.substr(0, sl)] = -1;   // implicitly created parent: empty payload
         l += std::string(" ")+p+"{v="+std::to_string(v)+"}";
      }
      if (nn) {(void) w.Send(i, m); H(l);}
      const uint8_t par = bs.u8()%6;
      if (par == 0) {MessageRef pm = GetMessageFromPool(PR_COMMAND_SETPARAMETERS); (void) pm()->AddBool(PR_NAME_REFLECT_TO_SELF, true); (void) w.Send(i, pm); pub[i].reflectToSelf = true; H("c"+std::to_string(i)+" sets REFLECT_TO_SELF");}
      else if (par == 1)
      {
         static const char * const DR[] = {"/*/*/a", "/*/*/b*", "/h0/*", "ab", "/*/*"}; const char * r = DR[bs.u8()%5];
         MessageRef pm = GetMessageFromPool(PR_COMMAND_SETPARAMETERS); (void) pm()->AddString(PR_NAME_KEYS, r); (void) w.Send(i, pm); pub[i].defaultRoute.push_back(r); H("c"+std::to_string(i)+" sets default route "+r);
      }
   }
   w.Pump();
   // a later SETDATA with the same path keeps the last value; re-sync the implicit parents that were later set explicitly (already handled by map semantics)
   static const char * const CL[] = {"*", "a", "b", "ab", "a*", "?", "zz", "(a|b)", "[ab]*"};
   uint32 seq = 0; std::map<uint32, std::set<int> > expect; std::map<uint32, int> senderOf; std::set<uint32> hasSessionField; bool sameDepthKeys = false, mixedDepthKeys = false, usedFilter = false, routeReplaced = false, keylessAfterReplace = false, malformedKey = false, malformedBeforeValid = false, usedChildCount = false; uint64_t h = 5;
   const uint32 nsend = 1+bs.u8()%8;
   for (uint32 s=0; s<nsend; s++)
   {
      const uint8_t fromByte = bs.u8(); const int from = fromByte%NC;
      if ((fromByte>>2)%8 == 7)
      {
         // the sender replaces or removes its default route in mid-history: keyless Messages sent from now on follow the new route only
         static const char * const DR2[] = {"/*/*/a", "/*/*/b*", "/h0/*", "ab", "/*/*", "/h1/*", "/*/*/zz", "b"};
         const uint8_t k = bs.u8();
         if (k%4 == 0) {MessageRef pm = GetMessageFromPool(PR_COMMAND_REMOVEPARAMETERS); (void) pm()->AddString(PR_NAME_KEYS, EscapeRegexTokens(PR_NAME_KEYS)); (void) w.Send(from, pm); pub[from].defaultRoute.clear(); H("c"+std::to_string(from)+" removes its default route");}
         else
         {
            MessageRef pm = GetMessageFromPool(PR_COMMAND_SETPARAMETERS); std::vector<std::string> nr; nr.push_back(DR2[(k>>2)%8]); if ((k%4 == 3)&&(DR2[(k>>5)%8] != nr[0])) nr.push_back(DR2[(k>>5)%8]);
            std::string l = "c"+std::to_string(from)+" replaces its default route by"; for (size_t q=0; q<nr.size(); q++) {(void) pm()->AddString(PR_NAME_KEYS, nr[q].c_str()); l += " "+nr[q];}
            (void) w.Send(from, pm); if (pub[from].defaultRoute.size()) routeReplaced = true; pub[from].defaultRoute = nr; H(l);
         }
         if (bs.flip()) w.Pump();
         continue;
      }
      const uint32 what = 1000+(seq++);
      MessageRef m = GetMessageFromPool(what); (void) m()->AddInt32("payload", (int32)what);
      if (bs.u8()%3 == 0) {(void) m()->AddString(PR_NAME_SESSION, (bs.flip()) ? w.c[(from+1)%NC]->id.c_str() : "999999"); hasSessionField.insert(what);}       // a forged sender id: the server must replace it
      const uint8_t nkSel = bs.u8()%8; const uint32 nk = (nkSel == 0) ? 0 : (1+(nkSel%3));
      std::vector<std::string> absPats; std::vector<int> filterV; std::vector<size_t> depths; std::string l = "c"+std::to_string(from)+" sends #"+std::to_string(what);
      for (uint32 k=0; k<nk; k++)
      {
         std::string pat; const uint8_t form = bs.u8()%6;
         const std::string hostC = (form == 1) ? w.c[bs.u8()%NC]->host : std::string("*"), idC = (form == 2) ? w.c[bs.u8()%NC]->id : std::string("*");
         const uint32 depth = bs.u8()%3;    // 0 = session level, 1..2 = node levels
         std::string rel; for (uint32 dd=0; dd<depth; dd++) {if (dd) rel += "/"; const uint8_t cb = bs.u8(); if (cb >= 250) {rel += (cb&1) ? "[" : "a("; malformedKey = true;} else rel += CL[cb%9];}     // a clause that does not compile: the server drops that key (it selects nothing) and carries on with the others
         const std::string abs = "/"+hostC+"/"+idC+(rel.size() ? ("/"+rel) : std::string(""));
         pat = ((form >= 3)&&(rel.size())) ? rel : abs;            // relative keys get the "/*/*/" prefix on the server
         if (std::find(absPats.begin(), absPats.end(), Absolute(pat)) != absPats.end()) continue;     // the same key twice in one Message (a later one replaces the earlier one's filter) is outside the documented domain
         (void) m()->AddString(PR_NAME_KEYS, pat.c_str());
         {bool earlierBad = false; for (size_t q=0; q<absPats.size(); q++) if ((absPats[q].find('[') != std::string::npos && absPats[q].find(']') == std::string::npos)||(absPats[q].find("a(") != std::string::npos)) earlierBad = true; if ((earlierBad)&&(pat.find("a(") == std::string::npos)&&((pat.find('[') == std::string::npos)||(pat.find(']') != std::string::npos))) malformedBeforeValid = true;}
         absPats.push_back(Absolute(pat)); depths.push_back(SplitPath(Absolute(pat)).size()); l += " key["+pat+"]";
      }
      // optional filters, parallel to the keys (a key without a filter is unfiltered)
      if ((absPats.size() > 0)&&(bs.u8()%4 == 0))
      {
         for (uint32 k=0; k<(uint32)absPats.size(); k++)
         {
            const uint8_t fb = bs.u8(); const int fv = fb%3;
            if ((fb>>2)%4 == 3) {ChildCountQueryFilter f(ChildCountQueryFilter::OP_EQUAL_TO, fv); (void) m()->AddArchiveMessage(PR_NAME_FILTERS, f); filterV.push_back(100+fv); l += " filter[children=="+std::to_string(fv)+"]"; usedChildCount = true;}     // a filter that looks at the node itself, not at its payload
            else {Int32QueryFilter f("v", Int32QueryFilter::OP_EQUAL_TO, fv); (void) m()->AddArchiveMessage(PR_NAME_FILTERS, f); filterV.push_back(fv); l += " filter[v=="+std::to_string(fv)+"]";}
         }
         usedFilter = true;
      }
      for (size_t a=0; a<depths.size(); a++) for (size_t b=a+1; b<depths.size(); b++) {if (depths[a] == depths[b]) sameDepthKeys = true; else mixedDepthKeys = true;}
      H(l);
      (void) w.Send(from, m); senderOf[what] = from; h = vf::HashStr(l, h);
      // expected receivers, clause by clause
      std::vector<std::string> pats = absPats; std::vector<int> fvs = filterV;
      if ((nk == 0)&&(routeReplaced)) keylessAfterReplace = true;
      if (nk == 0) {for (size_t q=0; q<pub[from].defaultRoute.size(); q++) pats.push_back(Absolute(pub[from].defaultRoute[q])); if (pats.empty()) pats.push_back("/*/*");}     // no keys: the default route, else everybody
      std::set<int> & e = expect[what];
      for (int r=0; r<NC; r++)
      {
         if ((r == from)&&(pub[from].reflectToSelf == false)) continue;
         bool hit = false; const std::string sp = w.c[r]->root;
         for (size_t k=0; (k<pats.size())&&(hit == false); k++)
         {
            const bool filtered = (k < fvs.size());
            if ((filtered == false)&&(PathMatch(pats[k], sp))) hit = true;     // session-level key (filters look at node payloads; filtered session-level keys are left to the node clause below)
            auto kids = [&](const std::string & parent) {int n = 0; for (std::map<std::string, int>::const_iterator j = pub[r].nodes.begin(); j != pub[r].nodes.end(); ++j) {const std::string & q = j->first; if (parent.empty()) {if (q.find('/') == std::string::npos) n++;} else if ((q.size() > parent.size()+1)&&(q.compare(0, parent.size()+1, parent+"/") == 0)&&(q.find('/', parent.size()+1) == std::string::npos)) n++;} return n;};
            if ((filtered)&&(PathMatch(pats[k], sp))) {/* the session node's payload has no 'v': a v== filter does not pass; a child-count filter looks at the session node's children */ if ((fvs[k] >= 100)&&(kids("") == fvs[k]-100)) hit = true;}
            for (std::map<std::string, int>::const_iterator it = pub[r].nodes.begin(); (it != pub[r].nodes.end())&&(hit == false); ++it) if ((PathMatch(pats[k], sp+"/"+it->first))&&((filtered == false)||((fvs[k] >= 100) ? (kids(it->first) == fvs[k]-100) : (it->second == fvs[k])))) hit = true;
         }
         if (hit) e.insert(r);
      }
      if (bs.flip()) w.Pump();
   }
   w.Pump(); w.Pump();
   for (std::map<uint32, std::set<int> >::const_iterator it = expect.begin(); it != expect.end(); ++it) for (int r=0; r<NC; r++)
   {
      const int n = got[r].count(it->first) ? got[r][it->first] : 0; const int want = it->second.count(r) ? 1 : 0;
      if (n != want) vf::Fail("Message #%u from session %d: session %d (%s) received %d copies, expected %d: history [%s]", it->first, senderOf[it->first], r, w.c[r]->root.c_str(), n, want, g_hist.c_str());
      if ((n == 1)&&(hasSessionField.count(it->first))&&(sessionField[r][it->first] != w.c[senderOf[it->first]]->id)) /* the field is corrected when present; it is not added when absent */ vf::Fail("Message #%u delivered to session %d names sender [%s], the true sender is [%s]: history [%s]", it->first, r, sessionField[r][it->first].c_str(), w.c[senderOf[it->first]]->id.c_str(), g_hist.c_str());
   }
   // per (sender, receiver) FIFO
   for (int r=0; r<NC; r++) {std::map<int, uint32> last; for (size_t k=0; k<order[r].size(); k++) {const int s = senderOf[order[r][k]]; if ((last.count(s))&&(last[s] > order[r][k])) vf::Fail("session %d received Message #%u from session %d after #%u: out of order: history [%s]", r, order[r][k], s, last[s], g_hist.c_str()); last[s] = order[r][k];}}
   w.Stop();
   vf::Count("mode_routing"); vf::Count("routed_messages", nsend); if (sameDepthKeys) vf::Count("case_two_keys_of_equal_depth"); if (mixedDepthKeys) vf::Count("case_keys_of_different_depths"); if (usedFilter) vf::Count("case_with_filters"); if (keylessAfterReplace) vf::Count("case_keyless_message_after_default_route_was_replaced"); if (malformedBeforeValid) vf::Count("case_malformed_key_before_a_valid_one"); if (usedChildCount) vf::Count("case_with_child_count_filter");
   if ((sameDepthKeys)||(mixedDepthKeys)) {vf::NonTrivial(h); if (vf::WantSample()) vf::Sample(g_hist);}
}

static void RunTraversal(vf::BS & bs)
{
   const int NC = 4; World w; w.Start(NC);    // client 3 is the observer: it owns no nodes and only asks
   std::set<std::string> gotPaths; bool dup = false; std::string dupPath;
   w.onMessage = [&](int ci, const Message & m){if ((ci == 3)&&(m.what == PR_RESULT_DATAITEMS)) for (MessageFieldNameIterator it = m.GetFieldNameIterator(B_MESSAGE_TYPE); it.HasData(); it++) {if (gotPaths.insert(it.GetFieldName()()).second == false) {dup = true; dupPath = it.GetFieldName()();}}};
   for (int i=0; i<NC; i++) w.Connect(i, (i%2) ? "h1" : "h0");
   static const char * const NN[] = {"a", "b", "ab", "1", "2", "10", "a,b", "a*"};   // the last two are literal node names containing pattern characters
   std::vector<std::string> allPaths;
   for (int i=0; i<3; i++) allPaths.push_back(w.c[i]->root);      // (whether the asking session's own node is visited depends on its reflect-to-self parameter: the observer's own node is not part of the comparison)
   for (int i=0; i<3; i++)
   {
      const uint32 nn = bs.u8()%6; MessageRef m = GetMessageFromPool(PR_COMMAND_SETDATA); std::string l = "c"+std::to_string(i)+" publishes";
      for (uint32 k=0; k<nn; k++)
      {
         std::string p = NN[bs.u8()%8]; const uint32 depth = bs.u8()%3; for (uint32 dd=0; dd<depth; dd++) {p += "/"; p += NN[bs.u8()%8];}
         MessageRef d = GetMessageFromPool(1); {const uint8_t vb = bs.u8(); if (vb%4) (void) d()->AddInt32("v", vb%4-1);}     /* payloads for the filtered keys to tell apart: v = 0..2, or no v at all */
         (void) m()->AddMessage(p.c_str(), d); l += " "+p;
         std::string acc = w.c[i]->root; size_t st = 0; while(st <= p.size()) {size_t sl = p.find('/', st); if (sl == std::string::npos) sl = p.size(); acc += "/"+p.substr(st, sl-st); allPaths.push_back(acc); st = sl+1;}
      }
      if (nn) {(void) w.Send(i, m); H(l);}
   }
   w.Pump();
   std::map<std::string, NodeInfo> tree; {HSession * any = w.AnySession(); if (any) WalkTree(any->Root(), tree);}     // the payloads as the server holds them (nodes created on the way to a published node hold an empty Message)
   bool filteredKeys = false, laterKeyDecided = false;
   static const char * const CL[] = {"*", "a", "b", "ab", "a*", "?", "[ab]", "(a|b)", "a,b", "~a", "<1-5>", "\\*", "a\\,b", "a\\*", "1", "10", "zz", "1,2", "?*"};
   const uint32 nq = 1+bs.u8()%4; bool sameDepth = false, mixedLiteralWildcard = false; uint64_t h = 9;
   for (uint32 qn=0; qn<nq; qn++)
   {
      MessageRef g = GetMessageFromPool(PR_COMMAND_GETDATA); PathMatcher pm; std::string desc; std::vector<size_t> depths; std::vector<std::pair<std::string, int> > keys;     // (pattern, v the key's filter asks for or -1)
      const bool withFilters = (bs.u8()%3 == 0);
      const uint32 nk = 1+bs.u8()%4;
      for (uint32 k=0; k<nk; k++)
      {
         const uint8_t form = bs.u8()%4;
         const std::string hostC = (form == 1) ? w.c[bs.u8()%3]->host : std::string("*"), idC = (form == 2) ? w.c[bs.u8()%3]->id : std::string("*");
         const uint32 depth = bs.u8()%4;   // 0 = the session node itself
         std::string pat = "/"+hostC+"/"+idC; bool lit = false, wild = false;
         for (uint32 dd=0; dd<depth; dd++) {const char * cl = CL[bs.u8()%19]; pat += "/"; pat += cl; if (CanWildcardStringMatchMultipleValues(cl)) wild = true; else lit = true;}
         if (lit && wild) mixedLiteralWildcard = true;
         {bool seen = false; for (size_t q=0; q<keys.size(); q++) if (keys[q].first == pat) seen = true; if (seen) continue;}     // one key per pattern string (a repeated key only replaces its own filter)
         (void) g()->AddString(PR_NAME_KEYS, pat.c_str());
         int fv = -1; ConstQueryFilterRef fref;
         if (withFilters)
         {
            // one filter Message per key: an archived filter, or an empty Message for a key without one (what the server itself does for unfiltered subscriptions)
            const uint8_t fb = bs.u8(); if (fb%2) {fv = (fb>>1)%3; Int32QueryFilter f("v", Int32QueryFilter::OP_EQUAL_TO, fv); (void) g()->AddArchiveMessage(PR_NAME_FILTERS, f); fref.SetRef(new Int32QueryFilter("v", Int32QueryFilter::OP_EQUAL_TO, fv)); filteredKeys = true; pat += " if v=="+std::to_string(fv);}
            else (void) g()->AddMessage(PR_NAME_FILTERS, GetMessageFromPool());
         }
         keys.push_back(std::make_pair(pat.substr(0, pat.find(' ')), fv));
         if (pm.PutPathString(keys.back().first.c_str()+1, fref).IsError()) vf::Fail("PutPathString failed for [%s]", pat.c_str());     // PathMatcher wants the pattern without its leading slash
         desc += "["+pat+"] "; depths.push_back(2+depth);
      }
      for (size_t a=0; a<depths.size(); a++) for (size_t b=a+1; b<depths.size(); b++) if (depths[a] == depths[b]) sameDepth = true;
      H("observer GETDATA "+desc); h = vf::HashStr(desc, h);
      gotPaths.clear(); dup = false;
      (void) w.Send(3, g);
      w.Pump();
      if (dup) vf::Fail("multi-key GETDATA %sreported node %s twice: history [%s]", desc.c_str(), dupPath.c_str(), g_hist.c_str());
      gotPaths.erase(w.c[3]->root);
      std::set<std::string> want;
      for (size_t i=0; i<allPaths.size(); i++)
      {
         std::map<std::string, NodeInfo>::const_iterator tn = tree.find(allPaths[i]); const Message * payload = ((tn != tree.end())&&(tn->second.data())) ? tn->second.data() : NULL;
         const bool sel = pm.MatchesPath(allPaths[i].c_str(), withFilters ? payload : NULL, NULL); if (sel) want.insert(allPaths[i]);
         if (withFilters)
         {
            // key by key, clause by clause, each key with its own filter: the path test must say the same
            bool ind = false; int firstPathMatch = -1;
            for (size_t k=0; k<keys.size(); k++) if (PathMatch(keys[k].first, allPaths[i]))
            {
               if (firstPathMatch < 0) firstPathMatch = (int)k;
               const bool fok = (keys[k].second < 0)||((payload)&&(payload->HasName("v", B_INT32_TYPE))&&(payload->GetInt32("v") == keys[k].second));
               if (fok) {ind = true; if ((int)k != firstPathMatch) laterKeyDecided = true; break;}
            }
            if (ind != sel) vf::Fail("PathMatcher::MatchesPath says %s for node %s under the keys %s; key by key (path, then that key's filter) it is %s: history [%s]", sel ? "yes" : "no", allPaths[i].c_str(), desc.c_str(), ind ? "selected" : "not selected", g_hist.c_str());
         }
      }
      if (want != gotPaths)
      {
         std::string d;
         for (std::set<std::string>::const_iterator it = want.begin(); it != want.end(); ++it) if (gotPaths.count(*it) == 0) d += " [selected by MatchesPath but not visited: "+*it+"]";
         for (std::set<std::string>::const_iterator it = gotPaths.begin(); it != gotPaths.end(); ++it) if (want.count(*it) == 0) d += " [visited but selected by no key: "+*it+"]";
         vf::Fail("the multi-key traversal for keys %sdisagrees with testing every node path one by one:%s: history [%s]", desc.c_str(), d.c_str(), g_hist.c_str());
      }
   }
   w.Stop();
   vf::Count("mode_traversal"); vf::Count("traversals", nq); if (sameDepth) vf::Count("case_two_keys_of_equal_depth"); if (filteredKeys) vf::Count("case_traversal_with_filtered_keys"); if (laterKeyDecided) vf::Count("case_node_selected_by_a_later_key_after_an_earlier_keys_filter_refused"); if (mixedLiteralWildcard) vf::Count("case_key_mixing_literal_and_wildcard_levels");
   if ((sameDepth)||(mixedLiteralWildcard)) {vf::NonTrivial(h); if (vf::WantSample()) vf::Sample(g_hist);}
}

extern "C" int vf_run_case(const uint8_t * data, size_t size)
{
   static CompleteSetupSystem * css = NULL; if (css == NULL) {css = new CompleteSetupSystem; SetConsoleLogLevel(MUSCLE_LOG_NONE);}
   if (size < 8) return 0;
   vf::BS bs(data, size); g_hist.clear();
   if (bs.flip()) RunRouting(bs); else RunTraversal(bs);
   return 0;
}
