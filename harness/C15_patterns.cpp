// C15: simple-syntax wildcard patterns printed from an AST (so their meaning is known by
// construction) against an independent NFA-based reference matcher over the same AST; escape law;
// uniqueness laws (IsPatternUnique / IsPatternListOfUniqueValues / "can match multiple").
#include "engine/harness.h"
#include "regex/SegmentedStringMatcher.h"
#include "regex/StringMatcher.h"
#include "regex/PathMatcher.h"
#include "system/SetupSystem.h"
#include "syslog/SysLog.h"
#include <string>
#include <vector>
#include <set>

using namespace muscle;
const char * vf_harness_name = "c15_patterns";
typedef vf::BS BS;
#define FAIL(...) vf::Fail(__VA_ARGS__)

struct Node; typedef std::vector<Node> Seq;
struct Node {int kind; /*0 lit,1 star,2 qmark,3 class,4 alt*/ char c; std::string set; std::vector<Seq> alts; Node() : kind(0), c(0) {}};
// sound literal alphabet first (12), then metacharacters (always escaped when printed), then two non-ASCII bytes
static const char LITS[] = "abc01.+- _:*?()[],|\\^$={}<>~!#\xC3\xA9";
static const size_t NUM_PLAIN = 12, NUM_LITS = sizeof(LITS)-1;
static uint32 g_constructs;

static Seq GenSeq(BS & bs, int depth, bool meta, bool f14)
{
   Seq s; const uint32 n = bs.u8()%5;
   for (uint32 i=0; i<n; i++)
   {
      Node nd; nd.kind = bs.u8()%(depth < 2 ? 5 : 4);
      switch(nd.kind)
      {
         case 0: nd.c = LITS[bs.u8()%(meta ? NUM_LITS : NUM_PLAIN)]; break;
         case 3:
         {
            const uint32 k = 1+bs.u8()%3;
            for (uint32 j=0; j<k; j++)
            {
               // known finding F14: the translation is not bracket-aware, so metacharacters inside [...] do not mean themselves; generated only when the exclusion is lifted
               if ((f14)&&(bs.u8()%2)) {nd.set.push_back("?,.+*"[bs.u8()%5]); continue;}
               const char lo = "abc01xyz"[bs.u8()%8];
               if (bs.u8()%3 == 0) {const char hi = (char)(lo+bs.u8()%3); for (char ch=lo; ch<=hi; ch++) nd.set.push_back(ch);} else nd.set.push_back(lo);
            }
            g_constructs++;
         }
         break;
         case 4: {const uint32 k = 1+bs.u8()%3; for (uint32 j=0; j<k; j++) nd.alts.push_back(GenSeq(bs, depth+1, meta, f14)); g_constructs++;} break;
         default: g_constructs++; break;
      }
      s.push_back(nd);
   }
   return s;
}

// prints the AST in the documented syntax; a backslash goes before exactly the characters the library's own IsRegexToken() names
static bool PrintSeq(const Seq & s, std::string & out, bool patternStartsHere, bool afterTilde)
{
   for (size_t i=0; i<s.size(); i++)
   {
      const Node & n = s[i]; const bool first = patternStartsHere && out.empty();
      switch(n.kind)
      {
         case 0:
            if ((IsRegexToken(n.c, first))||((afterTilde)&&(out.empty())&&((n.c == '<')||(n.c == '~')||(n.c == '`')))) out.push_back('\\');   // "~<5-7>" would be a negated range, so a literal '<' right after the leading '~' is escaped too
            out.push_back(n.c);
         break;
         case 1: out.push_back('*'); break;
         case 2: out.push_back('?'); break;
         case 3: {out.push_back('['); for (size_t j=0; j<n.set.size(); j++) out.push_back(n.set[j]); out.push_back(']');} break;
         case 4:
         {
            out.push_back('(');
            for (size_t j=0; j<n.alts.size(); j++) {if (j) out.push_back('|'); const size_t before = out.size(); if (PrintSeq(n.alts[j], out, false, false) == false) return false; if (out.size() == before) return false; /* empty alternatives are outside the documented domain */}
            out.push_back(')');
         }
         break;
      }
   }
   return true;
}

// ---- reference: Thompson NFA over the AST, simulated with state sets --------------------------------
struct NFA
{
   struct Edge {int to; int type; /*0 eps, 1 char, 2 any, 3 set*/ char c; const std::string * set;};
   std::vector<std::vector<Edge> > st;
   int NewState() {st.push_back(std::vector<Edge>()); return (int)st.size()-1;}
   void Add(int from, int to, int type, char c = 0, const std::string * set = NULL) {Edge e; e.to = to; e.type = type; e.c = c; e.set = set; st[from].push_back(e);}
   int BuildSeq(const Seq & s, int from)
   {
      int cur = from;
      for (size_t i=0; i<s.size(); i++)
      {
         const Node & n = s[i]; const int nx = NewState();
         switch(n.kind)
         {
            case 0: Add(cur, nx, 1, n.c); break;
            case 1: Add(cur, cur, 2); Add(cur, nx, 0); break;
            case 2: Add(cur, nx, 2); break;
            case 3: Add(cur, nx, 3, 0, &n.set); break;
            case 4: for (size_t j=0; j<n.alts.size(); j++) {const int a0 = NewState(); Add(cur, a0, 0); const int a1 = BuildSeq(n.alts[j], a0); Add(a1, nx, 0);} break;
         }
         cur = nx;
      }
      return cur;
   }
   void Closure(std::set<int> & s) const
   {
      std::vector<int> work(s.begin(), s.end());
      while(work.size()) {const int x = work.back(); work.pop_back(); for (size_t i=0; i<st[x].size(); i++) if ((st[x][i].type == 0)&&(s.insert(st[x][i].to).second)) work.push_back(st[x][i].to);}
   }
   bool Run(int start, int accept, const std::string & subj) const
   {
      std::set<int> cur; cur.insert(start); Closure(cur);
      for (size_t p=0; p<subj.size(); p++)
      {
         std::set<int> nx; const char ch = subj[p];
         for (std::set<int>::const_iterator it = cur.begin(); it != cur.end(); ++it) for (size_t i=0; i<st[*it].size(); i++) {const Edge & e = st[*it][i]; if ((e.type == 2)||((e.type == 1)&&(e.c == ch))||((e.type == 3)&&(e.set->find(ch) != std::string::npos))) nx.insert(e.to);}
         Closure(nx); cur.swap(nx); if (cur.empty()) return false;
      }
      return cur.count(accept) > 0;
   }
};

static void GenSubject(const Seq & s, BS & bs, std::string & out)
{
   for (size_t i=0; i<s.size(); i++)
   {
      const Node & n = s[i];
      switch(n.kind)
      {
         case 0: out.push_back(n.c); break;
         case 1: {const uint32 k = bs.u8()%3; for (uint32 j=0; j<k; j++) out.push_back("ab*"[bs.u8()%3]);} break;
         case 2: out.push_back("a?x"[bs.u8()%3]); break;
         case 3: out.push_back(n.set[bs.u8()%n.set.size()]); break;
         case 4: GenSubject(n.alts[bs.u8()%n.alts.size()], bs, out); break;
      }
   }
}

static bool AllLiteral(const Seq & s, std::string & lit) {for (size_t i=0; i<s.size(); i++) {if (s[i].kind != 0) return false; lit.push_back(s[i].c);} return true;}

static void RunRanges(BS & bs)
{
   // leading numeric range list: <a-b,c,d-,-e>, optionally negated
   struct R {bool hasLo, hasHi; uint32 lo, hi;};
   std::vector<R> rs; const bool negate = (bs.u8()%4 == 0); const uint32 n = 1+bs.u8()%3; std::string pat = negate ? "~<" : "<";
   static const uint32 V[] = {0, 1, 5, 9, 10, 19, 21, 25, 99, 100, 1000, 65535, 4000000000u};
   for (uint32 i=0; i<n; i++)
   {
      R r; const uint8_t k = bs.u8()%5; uint32 a = V[bs.u8()%13], b = V[bs.u8()%13]; if (a > b) {const uint32 t = a; a = b; b = t;}
      char buf[64];
      if (k == 0) {r.hasLo = r.hasHi = true; r.lo = r.hi = a; snprintf(buf, sizeof(buf), "%u", a);}
      else if (k == 1) {r.hasLo = false; r.hasHi = true; r.lo = 0; r.hi = b; snprintf(buf, sizeof(buf), "-%u", b);}
      else if (k == 2) {r.hasLo = true; r.hasHi = false; r.lo = a; r.hi = 0xFFFFFFFFu; snprintf(buf, sizeof(buf), "%u-", a);}
      else {r.hasLo = r.hasHi = true; r.lo = a; r.hi = b; snprintf(buf, sizeof(buf), "%u-%u", a, b);}
      if (i) pat += ","; pat += buf; rs.push_back(r);
   }
   pat += ">";
   StringMatcher sm; if (sm.SetPattern(pat.c_str()).IsError()) FAIL("SetPattern rejected the documented range pattern [%s]", pat.c_str());
   if (sm.IsPatternUnique()) FAIL("range pattern [%s] is reported unique", pat.c_str());
   uint32 matched = 0, missed = 0;
   for (int k=0; k<8; k++)
   {
      std::string subj; bool ref;
      if (bs.u8()%5 == 0) {subj = "abc"; subj.resize(1+bs.u8()%3); ref = false;}    // not the ASCII representation of an integer
      else
      {
         uint32 v; const uint8_t q = bs.u8()%4; const R & r = rs[bs.u8()%rs.size()];
         if (q == 0) v = r.lo; else if (q == 1) v = r.hi; else if (q == 2) v = (r.hi < 0xFFFFFFFFu) ? r.hi+1 : 7; else v = (r.lo > 0) ? r.lo-1 : V[bs.u8()%13];
         char buf[32]; snprintf(buf, sizeof(buf), "%u", v); subj = buf;
         ref = false; for (size_t i=0; i<rs.size(); i++) if ((v >= rs[i].lo)&&(v <= rs[i].hi)) ref = true;
      }
      if (negate) ref = !ref;
      const bool got = sm.Match(subj.c_str());
      if (got != ref) FAIL("range pattern [%s] subject [%s]: StringMatcher=%d documented=%d", pat.c_str(), subj.c_str(), (int)got, (int)ref);
      if (got) matched++; else missed++;
   }
   vf::Count("mode_numeric_ranges");
   if ((matched)&&(missed)) {vf::NonTrivial(vf::HashStr(pat, 0x51)); if (vf::WantSample()) vf::Sample("range pattern ["+pat+"]");}
}

// SegmentedStringMatcher: level-by-level matching of a '/'-segmented pattern against a '/'-segmented path.  Reference: one StringMatcher per segment (whose own
// semantics the other modes of this harness judge); the uniqueness report is held against every path of the same number of segments over a small alphabet.
static void RunSegmented(BS & bs)
{
   static const char * const SEGS[] = {"*", "a", "b", "a*", "?", "a\\*", "[ab]", "ab", "(a|b)", "b*", "a,b"};
   static const char * const SUBJ[] = {"a", "b", "ab", "a*", "c", "aa"};
   SegmentedStringMatcher ssm;      // one object for both rounds: the second pattern must not inherit anything from the first
   const uint32 rounds = 1+bs.u8()%2;
   for (uint32 round=0; round<rounds; round++)
   {
      const uint8_t nb = bs.u8(); const uint32 n = 1+nb%3; const bool negated = ((nb/3)%4 == 0);     // a leading ~ negates the whole segmented match, not its first segment
      std::vector<std::string> segs; std::string pat; if (negated) pat = "~"; for (uint32 i=0; i<n; i++) {segs.push_back(SEGS[bs.u8()%11]); if (i) pat += "/"; pat += segs[i];}
      if (ssm.SetPattern(pat.c_str()).IsError()) vf::Fail("SegmentedStringMatcher rejects [%s]", pat.c_str());
      std::vector<StringMatcher *> ref; bool allUnique = true; for (uint32 i=0; i<n; i++) {StringMatcher * sm = new StringMatcher(segs[i].c_str()); ref.push_back(sm); if (sm->IsPatternUnique() == false) allUnique = false;}
      if ((negated == false)&&(ssm.IsPatternUnique() != allUnique)) vf::Fail("SegmentedStringMatcher [%s] reports unique=%d, its segments say %d", pat.c_str(), (int)ssm.IsPatternUnique(), (int)allUnique);
      uint32 total = 1; for (uint32 i=0; i<n; i++) total *= 6; uint32 matches = 0; std::string firstMatch;
      for (uint32 k=0; k<total; k++)
      {
         std::string path; bool expect = true; uint32 q = k; for (uint32 i=0; i<n; i++) {const char * sj = SUBJ[q%6]; q /= 6; if (i) path += "/"; path += sj; if (ref[i]->Match(sj) == false) expect = false;}
         if (negated) expect = !expect;
         const bool got = ssm.Match(path.c_str(), false);
         if (got != expect) vf::Fail("SegmentedStringMatcher [%s]%s %s [%s], segment by segment it %s", pat.c_str(), round ? " (the second pattern this object was given)" : "", got ? "matches" : "does not match", path.c_str(), expect ? "matches" : "does not");
         if (got) {if (matches++ == 0) firstMatch = path;}
      }
      if ((negated == false)&&(ssm.IsPatternUnique())&&(matches > 1)) vf::Fail("SegmentedStringMatcher [%s] reports itself unique but matches %u of the %u paths (e.g. [%s])", pat.c_str(), matches, total, firstMatch.c_str());
      for (uint32 i=0; i<n; i++) delete ref[i];
      if (negated) vf::Count("case_segmented_pattern_negated"); if (round) vf::Count("case_segmented_matcher_object_reused");
      vf::Count("mode_segmented_matcher"); if (n >= 2) {vf::NonTrivial(vf::HashStr(pat, 4242+round)); if (vf::WantSample()) vf::Sample("segmented pattern ["+pat+"] against "+std::to_string(total)+" paths");}
   }
}

// A PathMatcher holding several path patterns matches a path iff one of its patterns has as many clauses as the path and matches it clause by clause (each clause by the
// StringMatcher of that clause: those are judged by the other modes).
static void RunPathMatcher(BS & bs)
{
   static const char * const CL[] = {"*", "a", "b", "a*", "?", "[ab]", "ab", "(a|b)", "b*", "a,b", "x", "~a"};
   static const char * const SUBJ[] = {"a", "b", "ab", "x", "c"};
   const uint32 np = 1+bs.u8()%4; std::vector<std::vector<std::string> > pats; PathMatcher pm; std::string desc;
   for (uint32 p=0; p<np; p++)
   {
      const uint32 depth = 1+bs.u8()%2; std::vector<std::string> cl; std::string path; for (uint32 i=0; i<depth; i++) {cl.push_back(CL[bs.u8()%12]); if (i) path += "/"; path += cl[i];}
      bool dup = false; for (size_t q=0; q<pats.size(); q++) if (pats[q] == cl) dup = true; if (dup) continue;
      if (pm.PutPathString(path.c_str(), ConstQueryFilterRef()).IsError()) vf::Fail("PutPathString(%s) failed", path.c_str());
      pats.push_back(cl); desc += (desc.size() ? " " : "")+path;
   }
   if (bs.u8()%5 == 0)
   {
      // a pattern is taken out again: what is left decides
      const size_t k = bs.u8()%pats.size(); std::string path; for (size_t i=0; i<pats[k].size(); i++) {if (i) path += "/"; path += pats[k][i];}
      if (pm.RemovePathString(path.c_str()).IsError()) vf::Fail("RemovePathString(%s) failed on a pattern that was put", path.c_str());
      pats.erase(pats.begin()+k); desc += " minus "+path; vf::Count("case_path_pattern_removed");
   }
   uint32 hits = 0, checks = 0; bool laterPatternDecided = false;
   for (uint32 depth=1; depth<=2; depth++)
   {
      uint32 total = 1; for (uint32 i=0; i<depth; i++) total *= 5;
      for (uint32 k=0; k<total; k++)
      {
         std::vector<std::string> sj; uint32 q = k; std::string path; for (uint32 i=0; i<depth; i++) {sj.push_back(SUBJ[q%5]); q /= 5; path += "/"; path += sj[i];}
         bool expect = false; int firstSameDepth = -1;
         for (size_t p=0; p<pats.size(); p++) if (pats[p].size() == depth)
         {
            bool m = true; for (uint32 i=0; i<depth; i++) {StringMatcher sm(pats[p][i].c_str()); if (sm.Match(sj[i].c_str()) == false) m = false;}
            if (firstSameDepth < 0) firstSameDepth = (int) p;
            if (m) {expect = true; if ((int)p != firstSameDepth) laterPatternDecided = true; break;}
         }
         const bool slash = ((k+depth)%2 == 0);     // with and without the leading slash
         const bool got = pm.MatchesPath(slash ? path.c_str() : path.c_str()+1, NULL, NULL); checks++;
         if (got != expect) vf::Fail("PathMatcher holding [%s] %s the path [%s]; pattern by pattern, clause by clause, it %s", desc.c_str(), got ? "matches" : "does not match", slash ? path.c_str() : path.c_str()+1, expect ? "matches" : "does not");
         if (got) hits++;
      }
   }
   vf::Count("mode_path_matcher"); vf::Count("path_matcher_checks", checks); if (laterPatternDecided) vf::Count("case_path_matched_by_a_later_pattern_of_its_depth_only");
   if ((pats.size() >= 2)&&(hits)&&(hits < checks)) {vf::NonTrivial(vf::HashStr(desc, 777)); if (vf::WantSample()) vf::Sample("path matcher holding ["+desc+"]: "+std::to_string(hits)+" of "+std::to_string(checks)+" paths match");}
}

// The law the node-tree traversal relies on (C05), on raw pattern strings: a pattern that reports itself unique matches exactly RemoveEscapeChars(pattern), and a
// pattern that reports itself a list of unique values matches exactly its unescaped comma parts -- judged against every string of up to 3 symbols of the alphabet.
static void RunRawUniqueness(BS & bs)
{
   static const char ALPHA[] = {'x', 'y', '\\', '*', '?', ','};
   std::string p; const uint32 n = 1+bs.u8()%5; for (uint32 i=0; i<n; i++) p.push_back(ALPHA[bs.u8()%6]);
   StringMatcher sm; if (sm.SetPattern(p.c_str()).IsError()) {vf::Count("raw_pattern_rejected"); return;}
   const bool uniq = sm.IsPatternUnique(), list = sm.IsPatternListOfUniqueValues();
   vf::Count("mode_raw_pattern_uniqueness"); if ((uniq == false)&&(list == false)) {vf::Count("raw_pattern_not_unique"); return;}
   std::set<std::string> expect;
   if (uniq) expect.insert(RemoveEscapeChars(p.c_str())());
   else {std::string cur; bool esc = false; for (size_t i=0; i<p.size(); i++) {const char c = p[i]; if ((c == '\\')&&(esc == false)) {esc = true; continue;} if ((c == ',')&&(esc == false)) {if (cur.size()) expect.insert(cur); cur.clear();} else cur.push_back(c); esc = false;} if (esc) cur.push_back('\\'); if (cur.size()) expect.insert(cur);}
   for (std::set<std::string>::const_iterator it = expect.begin(); it != expect.end(); ++it) if (sm.Match(it->c_str()) == false) vf::Fail("pattern [%s] reports itself %s but does not match [%s]", vf::Esc(p).c_str(), uniq ? "unique" : "a list of unique values", vf::Esc(*it).c_str());
   std::string subj;
   for (uint32 len=1; len<=3; len++) {uint32 total = 1; for (uint32 i=0; i<len; i++) total *= 6; for (uint32 k=0; k<total; k++) {subj.clear(); uint32 q = k; for (uint32 i=0; i<len; i++) {subj.push_back(ALPHA[q%6]); q /= 6;} if ((expect.count(subj) == 0)&&(sm.Match(subj.c_str()))) vf::Fail("pattern [%s] reports itself %s (of %s) but also matches [%s]", vf::Esc(p).c_str(), uniq ? "unique" : "a list of unique values", vf::Esc(*expect.begin()).c_str(), vf::Esc(subj).c_str());}}
   bool meta = false; for (size_t i=0; i<p.size(); i++) if (p[i] != 'x' && p[i] != 'y') meta = true;
   if (meta) {vf::NonTrivial(vf::HashStr(p, 99)); if (vf::WantSample()) vf::Sample("raw pattern ["+p+"] reports itself "+(uniq ? "unique" : "a list of unique values")+"; checked against 258 subjects");}
}

extern "C" int vf_run_case(const uint8_t * data, size_t size)
{
   static CompleteSetupSystem * css = NULL; if (css == NULL) {css = new CompleteSetupSystem; SetConsoleLogLevel(MUSCLE_LOG_NONE);}
   BS bs(data, size);
   const uint8_t mode = bs.u8()%8;
   if (mode == 7) {RunRanges(bs); return 0;}
   if (mode == 5) {const uint8_t mb = bs.u8(); if (mb&1) RunSegmented(bs); else if (mb&2) RunPathMatcher(bs); else RunRawUniqueness(bs); return 0;}
   if (mode == 6)
   {
      // escape law on arbitrary byte strings (no NUL): the escaped string is a pattern that matches that string and no other, and is reported unique
      std::string t; const uint32 n = 1+bs.u8()%8; for (uint32 j=0; j<n; j++) {char ch = (bs.u8()%3 == 0) ? (char)bs.u8() : LITS[bs.u8()%NUM_LITS]; if (ch == '\0') ch = '0'; t.push_back(ch);}
      const String esc = EscapeRegexTokens(t.c_str());
      StringMatcher em; if (em.SetPattern(esc).IsError()) FAIL("escaped [%s] -> [%s] rejected", vf::Esc(t).c_str(), vf::Esc(esc()).c_str());
      if (em.Match(t.c_str()) == false) FAIL("escaped [%s] -> [%s] does not match the string it was made from", vf::Esc(t).c_str(), vf::Esc(esc()).c_str());
      for (int k=0; k<4; k++)
      {
         std::string u = t; const uint8_t q = bs.u8()%4; const size_t at = bs.u8()%u.size();
         if (q == 0) u[at] = (u[at] == 'Z') ? 'Y' : 'Z'; else if (q == 1) u.erase(at, 1); else if (q == 2) u.insert(at, 1, LITS[bs.u8()%NUM_LITS]); else u.push_back(LITS[bs.u8()%NUM_LITS]);
         if ((u != t)&&(em.Match(u.c_str()))) FAIL("escaped [%s] -> [%s] also matches [%s]", vf::Esc(t).c_str(), vf::Esc(esc()).c_str(), vf::Esc(u).c_str());
      }
      if (em.IsPatternUnique() == false) FAIL("escaped [%s] -> [%s] is not reported unique", vf::Esc(t).c_str(), vf::Esc(esc()).c_str());
      if (std::string(RemoveEscapeChars(esc)()) != t) FAIL("RemoveEscapeChars(EscapeRegexTokens([%s])) = [%s]", vf::Esc(t).c_str(), vf::Esc(RemoveEscapeChars(esc)()).c_str());
      vf::Count("mode_escape_law");
      bool hasMeta = false; for (size_t i=0; i<t.size(); i++) if (IsRegexToken(t[i], i == 0)) hasMeta = true;
      if (hasMeta) {vf::NonTrivial(vf::HashStr(t, 0x52)); if (vf::WantSample()) vf::Sample("escape ["+vf::Esc(t)+"] -> ["+vf::Esc(esc())+"]");}
      return 0;
   }

   const bool f14 = vf::AllowKnown("F14"); if (f14 == false) vf::Excluded("F14", 0);
   const bool meta = (bs.u8()%3) != 0; const uint8_t ngb = bs.u8(); const bool negate = (ngb%5) == 0; const uint32 ntop = 1+bs.u8()%3;
   const bool reuse = ((ngb/5)%4 == 0); const uint32 prevKind = (ngb/20)%6;     // a matcher object that has held a pattern of another kind before (negated, numeric range, plain literal, regex, comma list)
   g_constructs = 0;
   std::vector<Seq> tops; for (uint32 i=0; i<ntop; i++) tops.push_back(GenSeq(bs, 0, meta, f14));
   std::string pat; if (negate) pat.push_back('~');
   for (uint32 i=0; i<ntop; i++)
   {
      if (i) pat.push_back(',');
      std::string part; if (PrintSeq(tops[i], part, (i == 0)&&(!negate), (i == 0)&&(negate)) == false) return 0;
      if (part.empty()) return 0;       // empty alternatives are outside the documented domain
      pat += part;
   }
   if (ntop > 1) g_constructs++; if (negate) g_constructs++;
   StringMatcher sm;
   if (reuse) {static const char * const PREV[] = {"~a*", "<3-7>", "abc", "[a-c]?(x|y)", "a,b,c", "~<10-20,30->"}; if (sm.SetPattern(PREV[prevKind]).IsError()) FAIL("SetPattern rejected [%s]", PREV[prevKind]); (void) sm.Match("5"); vf::Count("case_matcher_object_reused");}
   if (sm.SetPattern(pat.c_str()).IsError()) FAIL("SetPattern rejected the well-formed pattern [%s]", vf::Esc(pat).c_str());

   NFA nfa; const int start = nfa.NewState(); const int accept = nfa.NewState();
   for (uint32 i=0; i<ntop; i++) {const int a0 = nfa.NewState(); nfa.Add(start, a0, 0); const int a1 = nfa.BuildSeq(tops[i], a0); nfa.Add(a1, accept, 0);}

   std::vector<std::string> lits; bool allLits = true; for (uint32 i=0; i<ntop; i++) {std::string l; if (AllLiteral(tops[i], l)) lits.push_back(l); else allLits = false;}
   std::set<std::string> matchedSubjects; uint32 matched = 0, missed = 0;
   for (int k=0; k<8; k++)
   {
      std::string subj;
      switch(bs.u8()%3)
      {
         case 0: GenSubject(tops[bs.u8()%ntop], bs, subj); break;
         case 1: GenSubject(tops[bs.u8()%ntop], bs, subj); if (subj.size()) {const size_t at = bs.u8()%subj.size(); if (bs.u8()&1) subj.erase(at, 1); else subj[at] = "abz*"[bs.u8()%4];} else subj = "a"; break;
         default: {const uint32 n = bs.u8()%5; for (uint32 j=0; j<n; j++) subj.push_back(LITS[bs.u8()%NUM_PLAIN]);} break;
      }
      if (subj.find('\0') != std::string::npos) continue;
      bool ref = nfa.Run(start, accept, subj); if (negate) ref = !ref;
      const bool got = sm.Match(subj.c_str());
      if (got != ref) FAIL("pattern [%s] subject [%s]: StringMatcher=%d, documented meaning=%d", vf::Esc(pat).c_str(), vf::Esc(subj).c_str(), (int)got, (int)ref);
      if (got) {matched++; matchedSubjects.insert(subj);} else missed++;
      if ((sm.IsPatternUnique())&&(got)&&(subj != std::string(RemoveEscapeChars(pat.c_str())()))) FAIL("pattern [%s] is reported unique but matches [%s]", vf::Esc(pat).c_str(), vf::Esc(subj).c_str());
      if (sm.IsPatternListOfUniqueValues())
      {
         if ((allLits == false)||(negate)) FAIL("pattern [%s] is reported to be a list of unique values", vf::Esc(pat).c_str());
         bool in = false; for (size_t i=0; i<lits.size(); i++) if (lits[i] == subj) in = true;
         if (in != got) FAIL("pattern [%s] is a list of unique values, but membership of [%s] is %d and Match says %d", vf::Esc(pat).c_str(), vf::Esc(subj).c_str(), (int)in, (int)got);
      }
   }
   if ((matchedSubjects.size() >= 2)&&(sm.IsPatternUnique())) FAIL("two different strings match [%s], yet the pattern is reported unique", vf::Esc(pat).c_str());
   if ((allLits)&&(ntop == 1)&&(negate == false)&&(sm.IsPatternUnique() == false)&&(CanWildcardStringMatchMultipleValues(pat.c_str()))) {/* a purely literal single pattern reported as multi-valued would only cost speed, not correctness: not asserted */}
   vf::Count("mode_ast_patterns"); if (meta) vf::Count("case_with_escaped_metacharacter_alphabet"); if (negate) vf::Count("case_negated"); if (ntop > 1) vf::Count("case_comma_list");
   if ((g_constructs >= 2)&&(matched)&&(missed)) {vf::NonTrivial(vf::HashStr(pat, 0x50)); if (vf::WantSample()) vf::Sample("pattern ["+vf::Esc(pat)+"] matched "+std::to_string(matched)+" and rejected "+std::to_string(missed)+" of the generated subjects");}
   return 0;
}
