// C20, server leg: the pulse tree as the ReflectServer's event loop drives it (reflector/ReflectServer.cpp is one of the
// property's anchor files).  Participants with timers of their own: the server object, sessions, their gateways, session
// factories (ready or not ready to accept), and plain nodes hung below the server and below factories.  The clock is the
// library's run-time clock moved forward with SetPerProcessRunTime64Offset(); the real clock keeps running underneath by
// microseconds, so every judgement is bracketed by two clock readings taken outside the library.
// One step = ServerProcessLoop(0, &next): one PrepareToWaitForEvents / WaitForEvents(no wait) / HandleEvents cycle.
#include "engine/harness.h"
#include "reflector/ReflectServer.h"
#include "reflector/DumbReflectSession.h"
#include "iogateway/MessageIOGateway.h"
#include "util/NetworkUtilityFunctions.h"
#include "util/TimeUtilityFunctions.h"
#include "system/SetupSystem.h"
#include "syslog/SysLog.h"
#include <vector>
#include <string>
using namespace muscle;
const char * vf_harness_name = "c20_server";
#define FAIL(...) vf::Fail(__VA_ARGS__)
static const uint64 NEVER = MUSCLE_TIME_NEVER;

struct Part   // model of one participant
{
   std::string name; bool attached; bool valid; uint64 req; bool pulsedThisCycle; uint32 asked, pulsed; uint8_t plan;
   Part() : attached(false), valid(false), req(NEVER), pulsedThisCycle(false), asked(0), pulsed(0), plan(0) {}
};
static bool g_slotInUse[4] = {false, false, false, false};   // until the session object of a slot is really gone (the server lets go of it one cycle after EndSession())
static std::vector<Part> g_parts; static vf::BS * g_bs = NULL; static bool g_inCycle = false; static uint64 g_cycleEnteredAt = 0;

static uint64 Answer(int pi, uint64 callbackTime)
{
   Part & p = g_parts[pi];
   if (p.attached == false) FAIL("%s is not part of the server any more but was asked for its pulse time", p.name.c_str());
   if (p.valid) FAIL("%s was asked for its pulse time while its previous answer (%llu) is still in force", p.name.c_str(), (unsigned long long)p.req);
   if (g_inCycle == false) FAIL("%s was asked for its pulse time outside the event loop", p.name.c_str());
   const uint8_t c = g_bs->u8(); const uint64 now = callbackTime; uint64 t;
   switch(c%6) {case 0: t = NEVER; break; case 1: t = (now > 5000) ? now-5000 : 0; break; case 2: t = now; break; case 3: t = now+MillisToMicros(10*(1+(c/6)%8)); break; case 4: t = now+MillisToMicros(300); break; default: t = now+SecondsToMicros(3600); break;}
   p.valid = true; p.req = t; p.asked++;
   return t;
}
static void Fired(int pi, uint64 callbackTime, uint64 scheduledTime)
{
   Part & p = g_parts[pi];
   if (p.attached == false) FAIL("%s is not part of the server any more but its Pulse() ran", p.name.c_str());
   if (p.valid == false) FAIL("Pulse() of %s ran although it has not been asked for a time since its last Pulse() / invalidation", p.name.c_str());
   if (p.req == NEVER) FAIL("Pulse() of %s ran although it asked never to be pulsed", p.name.c_str());
   if (scheduledTime != p.req) FAIL("Pulse() of %s: scheduled time %llu, it asked for %llu", p.name.c_str(), (unsigned long long)scheduledTime, (unsigned long long)p.req);
   if (callbackTime < p.req) FAIL("Pulse() of %s ran at %llu, before the time it asked for (%llu)", p.name.c_str(), (unsigned long long)callbackTime, (unsigned long long)p.req);
   if (p.pulsedThisCycle) FAIL("Pulse() of %s ran twice in one event-loop cycle", p.name.c_str());
   p.pulsedThisCycle = true; p.valid = false; p.pulsed++;
}

// participants (indices into g_parts are fixed per slot)
enum {P_SERVER = 0, P_SNODE0 = 1, P_SNODE1 = 2, P_FACT0 = 3, P_FACT1 = 4, P_FNODE0 = 5, P_FNODE1 = 6, P_SESS0 = 7 /* 7..10 */, P_GW0 = 11 /* 11..14 */, NUM_PARTS = 15};

class PNode : public PulseNode {public: PNode(int pi) : _pi(pi) {} virtual uint64 GetPulseTime(const PulseArgs & a) {return Answer(_pi, a.GetCallbackTime());} virtual void Pulse(const PulseArgs & a) {Fired(_pi, a.GetCallbackTime(), a.GetScheduledTime());} int _pi;};
class PServer : public ReflectServer {public: virtual uint64 GetPulseTime(const PulseArgs & a) {return muscleMin(Answer(P_SERVER, a.GetCallbackTime()), ReflectServer::GetPulseTime(a));} virtual void Pulse(const PulseArgs & a) {ReflectServer::Pulse(a); Fired(P_SERVER, a.GetCallbackTime(), a.GetScheduledTime());}};
class PGateway : public MessageIOGateway {public: PGateway(int pi) : _pi(pi) {} virtual ~PGateway() {g_parts[_pi].attached = false; g_parts[_pi].valid = false;} virtual uint64 GetPulseTime(const PulseArgs & a) {return muscleMin(Answer(_pi, a.GetCallbackTime()), MessageIOGateway::GetPulseTime(a));} virtual void Pulse(const PulseArgs & a) {MessageIOGateway::Pulse(a); Fired(_pi, a.GetCallbackTime(), a.GetScheduledTime());} int _pi;};
class PSession : public DumbReflectSession
{
public:
   PSession(int slot) : _slot(slot) {}
   virtual ~PSession() {g_parts[P_SESS0+_slot].attached = false; g_parts[P_SESS0+_slot].valid = false; g_slotInUse[_slot] = false;}
   virtual AbstractMessageIOGatewayRef CreateGateway() {g_parts[P_GW0+_slot].attached = true; g_parts[P_GW0+_slot].valid = false; return AbstractMessageIOGatewayRef(new PGateway(P_GW0+_slot));}
   virtual uint64 GetPulseTime(const PulseArgs & a) {return muscleMin(Answer(P_SESS0+_slot, a.GetCallbackTime()), DumbReflectSession::GetPulseTime(a));}
   virtual void Pulse(const PulseArgs & a) {DumbReflectSession::Pulse(a); Fired(P_SESS0+_slot, a.GetCallbackTime(), a.GetScheduledTime());}
   virtual void AboutToDetachFromServer() {g_parts[P_SESS0+_slot].attached = false; g_parts[P_SESS0+_slot].valid = false; g_parts[P_GW0+_slot].attached = false; g_parts[P_GW0+_slot].valid = false; DumbReflectSession::AboutToDetachFromServer();}
   int _slot;
};
class PFactory : public ReflectSessionFactory
{
public:
   PFactory(int pi) : ready(true), _pi(pi) {}
   virtual AbstractReflectSessionRef CreateSession(const String &, const IPAddressAndPort &) {return AbstractReflectSessionRef();}
   virtual bool IsReadyToAcceptSessions() const {return ready;}
   virtual uint64 GetPulseTime(const PulseArgs & a) {return Answer(_pi, a.GetCallbackTime());}
   virtual void Pulse(const PulseArgs & a) {Fired(_pi, a.GetCallbackTime(), a.GetScheduledTime());}
   bool ready;
private:
   int _pi;
};

extern "C" int vf_run_case(const uint8_t * data, size_t size)
{
   static CompleteSetupSystem * css = NULL; if (css == NULL) {css = new CompleteSetupSystem; SetConsoleLogLevel(MUSCLE_LOG_NONE);}
   if (size < 6) return 0;
   vf::BS bs(data, size); g_bs = &bs; SetPerProcessRunTime64Offset(0); g_inCycle = false;
   static const char * const NM[NUM_PARTS] = {"the server object", "node A below the server", "node B below the server", "factory 0", "factory 1", "the node below factory 0", "the node below factory 1", "session 0", "session 1", "session 2", "session 3", "the gateway of session 0", "the gateway of session 1", "the gateway of session 2", "the gateway of session 3"};
   g_parts.assign(NUM_PARTS, Part()); for (int i=0; i<NUM_PARTS; i++) g_parts[i].name = NM[i];

   PServer * server = new PServer; server->SetDoLogging(false); g_parts[P_SERVER].attached = true;
   PNode * snode[2] = {new PNode(P_SNODE0), new PNode(P_SNODE1)}; PNode * fnode[2] = {new PNode(P_FNODE0), new PNode(P_FNODE1)};
   PFactory * fact[2] = {NULL, NULL}; ReflectSessionFactoryRef factRef[2]; uint16 factPort[2] = {0, 0};
   PSession * sess[4] = {NULL, NULL, NULL, NULL}; AbstractReflectSessionRef sessRef[4]; ConstSocketRef clientEnd[4];
   uint32 cycles = 0, notReadyCycles = 0, jumps = 0, invalidations = 0; bool factoryNotReadyAsked = false, lateAttach = false, sessionLeft = false; uint64 totalPulses = 0; std::string trace; const bool wantTrace = vf::WantSample();
   const int32 offsetStart = 0; (void) offsetStart;

   int steps = 0;
   while((bs.done() == false)&&(steps++ < 60))
   {
      const uint8_t ob = bs.u8(); const uint8_t op = ob%10; const uint8_t arg = bs.u8(); char tb[96]; tb[0] = '\0';
      switch(op)
      {
         case 0:   // a session joins (socket pair; nobody talks on it)
         {
            const int s = arg%4; if ((sess[s])||(g_slotInUse[s])) break;
            g_slotInUse[s] = true;
            ConstSocketRef a, b; if (CreateConnectedSocketPair(a, b, false).IsError()) FAIL("CreateConnectedSocketPair failed (harness)");
            sess[s] = new PSession(s); sessRef[s].SetRef(sess[s]); clientEnd[s] = b;
            if (server->AddNewSession(sessRef[s], a).IsError()) FAIL("AddNewSession failed (harness)");
            g_parts[P_SESS0+s].attached = true; g_parts[P_SESS0+s].valid = false; if (cycles > 0) lateAttach = true;
            snprintf(tb, sizeof(tb), "session %d joins; ", s);
         }
         break;
         case 1:   // a session leaves
         {
            const int s = arg%4; if (sess[s] == NULL) break;
            sess[s]->EndSession(); sess[s] = NULL; sessRef[s].Reset(); clientEnd[s].Reset(); sessionLeft = true;     // (the session's destructor / detach hook clears the model's attachment)
            snprintf(tb, sizeof(tb), "session %d ends; ", s);
         }
         break;
         case 2:   // a factory is installed / removed
         {
            const int f = arg%2;
            if (fact[f] == NULL)
            {
               fact[f] = new PFactory(P_FACT0+f); factRef[f].SetRef(fact[f]); factPort[f] = 0;
               if (server->PutAcceptFactory(0, factRef[f], localhostIP, &factPort[f]).IsError()) {fact[f] = NULL; factRef[f].Reset(); vf::Count("accept_factory_could_not_listen"); break;}
               g_parts[P_FACT0+f].attached = true; g_parts[P_FACT0+f].valid = false; if (cycles > 0) lateAttach = true;
               snprintf(tb, sizeof(tb), "factory %d installed; ", f);
            }
            else if ((arg>>1)%3 == 0)
            {
               if (g_parts[P_FNODE0+f].attached) {fact[f]->RemovePulseChild(fnode[f]); g_parts[P_FNODE0+f].attached = false; g_parts[P_FNODE0+f].valid = false;}
               if (server->RemoveAcceptFactory(factPort[f], localhostIP).IsError()) FAIL("RemoveAcceptFactory failed (harness)");
               fact[f] = NULL; factRef[f].Reset(); g_parts[P_FACT0+f].attached = false; g_parts[P_FACT0+f].valid = false;
               snprintf(tb, sizeof(tb), "factory %d removed; ", f);
            }
         }
         break;
         case 3:   // a factory stops / resumes accepting (a throttle)
         {
            const int f = arg%2; if (fact[f] == NULL) break;
            fact[f]->ready = ((arg>>1)&1) != 0; snprintf(tb, sizeof(tb), "factory %d %s; ", f, fact[f]->ready ? "ready" : "not ready");
         }
         break;
         case 4:   // a plain node is hung below the server / below a factory, or taken off
         {
            const int w = arg%4;
            if (w < 2) {Part & p = g_parts[P_SNODE0+w]; if (p.attached) {server->RemovePulseChild(snode[w]); p.attached = false; p.valid = false;} else {server->PutPulseChild(snode[w]); p.attached = true; p.valid = false; if (cycles > 0) lateAttach = true;} snprintf(tb, sizeof(tb), "node %c %s; ", 'A'+w, p.attached ? "attached" : "detached");}
            else {const int f = w-2; if (fact[f] == NULL) break; Part & p = g_parts[P_FNODE0+f]; if (p.attached) {fact[f]->RemovePulseChild(fnode[f]); p.attached = false; p.valid = false;} else {fact[f]->PutPulseChild(fnode[f]); p.attached = true; p.valid = false;} snprintf(tb, sizeof(tb), "node below factory %d %s; ", f, p.attached ? "attached" : "detached");}
         }
         break;
         case 5:   // a participant takes back its time (between cycles, as an I/O handler or another thread's request would)
         {
            const int pi = arg%NUM_PARTS; Part & p = g_parts[pi]; if (p.attached == false) break;
            PulseNode * n = NULL;
            if (pi == P_SERVER) n = server; else if (pi <= P_SNODE1) n = snode[pi-P_SNODE0]; else if (pi <= P_FACT1) n = fact[pi-P_FACT0]; else if (pi <= P_FNODE1) n = fnode[pi-P_FNODE0];
            else if (pi < P_GW0) n = sess[pi-P_SESS0]; else {PSession * s = sess[pi-P_GW0]; n = s ? s->GetGateway()() : NULL;}
            if (n == NULL) break;
            n->InvalidatePulseTime(); p.valid = false; invalidations++; snprintf(tb, sizeof(tb), "%s invalidates; ", p.name.c_str());
         }
         break;
         case 6: case 7:   // the clock moves
         {
            static const int32 MS[] = {1, 10, 25, 80, 100, 299, 301, 1000}; const int32 ms = MS[arg%8];
            SetPerProcessRunTime64Offset(GetPerProcessRunTime64Offset()+MillisToMicros(ms)); jumps++; snprintf(tb, sizeof(tb), "+%dms; ", ms);
         }
         break;
         default:  // one event-loop cycle
         {
            for (int i=0; i<NUM_PARTS; i++) g_parts[i].pulsedThisCycle = false;
            std::vector<uint64> reqBefore(NUM_PARTS); std::vector<bool> validBefore(NUM_PARTS), attachedBefore(NUM_PARTS); for (int i=0; i<NUM_PARTS; i++) {reqBefore[i] = g_parts[i].req; validBefore[i] = g_parts[i].valid; attachedBefore[i] = g_parts[i].attached;}
            const uint64 tBefore = GetRunTime64(); uint64 next = 12345; g_inCycle = true;
            const status_t r = server->ServerProcessLoop(0, &next); g_inCycle = false;
            const uint64 tAfter = GetRunTime64(); cycles++;
            if (r.IsError()) FAIL("ServerProcessLoop failed: %s", r());
            bool anyNotReady = false; for (int f=0; f<2; f++) if ((fact[f])&&(fact[f]->ready == false)) anyNotReady = true; if (anyNotReady) notReadyCycles++;
            // what every participant that was part of the server throughout the cycle had asked for when the loop decided how long it may wait
            uint64 expectNext = NEVER;
            for (int i=0; i<NUM_PARTS; i++)
            {
               Part & p = g_parts[i]; if ((p.attached == false)||(attachedBefore[i] == false)) continue;
               // asked during this cycle's preparation (or still holding an earlier answer); a Pulse() since then has made the answer history, not invalid at the time of the wait
               const bool answeredForThisWait = (p.valid)||(p.pulsedThisCycle);
               if (answeredForThisWait == false) FAIL("%s is part of the server but was not asked for its pulse time before the wait of cycle %u%s", p.name.c_str(), cycles, ((i == P_FACT0)||(i == P_FACT1)) ? ((fact[i-P_FACT0])&&(fact[i-P_FACT0]->ready == false) ? " (the factory is not ready to accept just now)" : "") : "");
               if (p.req < expectNext) expectNext = p.req;
               if ((i == P_FACT0)||(i == P_FACT1)) {if ((fact[i-P_FACT0])&&(fact[i-P_FACT0]->ready == false)&&(validBefore[i] == false)) factoryNotReadyAsked = true;}
            }
            bool sessionsDying = false; (void) sessionsDying;
            if (next != expectNext) FAIL("cycle %u: the loop reports wake-up %llu but the minimum of what its participants asked for is %llu", cycles, (unsigned long long)next, (unsigned long long)expectNext);     // (no output stall limits, I/O policies or watchdogs are configured: the participants' answers are all there is)
            // who had to fire, who must not have
            for (int i=0; i<NUM_PARTS; i++)
            {
               Part & p = g_parts[i]; if ((p.attached == false)||(attachedBefore[i] == false)) continue;
               const uint64 asked = p.pulsedThisCycle ? p.req : p.req;     // (Pulse() does not change req)
               if (p.pulsedThisCycle) {if (asked > tAfter) FAIL("%s fired in cycle %u (over by %llu) although it asked for %llu", p.name.c_str(), cycles, (unsigned long long)tAfter, (unsigned long long)asked); totalPulses++;}
               else if (asked <= tBefore) FAIL("%s asked for %llu, the cycle %u began after %llu, and its Pulse() did not run", p.name.c_str(), (unsigned long long)asked, cycles, (unsigned long long)tBefore);
            }
            snprintf(tb, sizeof(tb), "cycle(wake=%lld); ", (next == NEVER) ? -1LL : (long long)(next-tBefore));
         }
         break;
      }
      if ((wantTrace)&&(tb[0])&&(trace.size() < 900)) trace += tb;
   }

   // teardown: nodes off first, then the server with whatever is still in it
   for (int w=0; w<2; w++) {if (g_parts[P_SNODE0+w].attached) server->RemovePulseChild(snode[w]); if ((fact[w])&&(g_parts[P_FNODE0+w].attached)) fact[w]->RemovePulseChild(fnode[w]);}
   for (int s=0; s<4; s++) {sessRef[s].Reset(); clientEnd[s].Reset();}
   server->Cleanup(); delete server; for (int f=0; f<2; f++) factRef[f].Reset();
   for (int w=0; w<2; w++) {delete snode[w]; delete fnode[w];}
   SetPerProcessRunTime64Offset(0);

   vf::Count("event_loop_cycles", cycles); vf::Count("callbacks_fired", totalPulses); vf::Count("clock_jumps", jumps); vf::Count("invalidations", invalidations);
   if (factoryNotReadyAsked) vf::Count("case_factory_asked_while_not_ready_to_accept"); if (lateAttach) vf::Count("case_participant_joined_after_the_first_cycle"); if (sessionLeft) vf::Count("case_session_left");
   const bool nontrivial = (cycles >= 3)&&(totalPulses >= 2)&&(jumps >= 1);
   if (nontrivial) {vf::NonTrivial(vf::Hash64(data, bs.pos, 7)); if (wantTrace) vf::Sample(trace);}
   return 0;
}
