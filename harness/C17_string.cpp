// C17: muscle::String against a std::string model, operand lengths concentrated around the
// 15/16-byte small-buffer boundary, self-aliasing operands, flatten/unflatten with truncations.
#include "engine/harness.h"
#include "util/String.h"
#include "system/SetupSystem.h"
#include <string>
#include <algorithm>
using namespace muscle;
const char * vf_harness_name = "c17_string";
typedef vf::BS BS;
#define FAIL(...) vf::Fail(__VA_ARGS__)
struct Ctx {bool crossed; bool alias; uint64_t h; uint32 nops; std::string trace; bool wantTrace;};
static Ctx g_cx; static std::string g_prevLonger; static uint32 g_residueNeedles = 0; static uint32 g_highByteCharTests = 0;
static const uint32 LENS[] = {0,1,2,7,14,15,16,17,31,32,33,64};
static std::string Gen(BS & bs) {const uint32 len = LENS[bs.u8()%12]; std::string r; const uint8_t mode = bs.u8()%4; for (uint32 i=0;i<len;i++) {char c; switch(mode) {case 0: c = 'a'+(char)(i%3); break; case 1: c = "ab "[bs.u8()%3]; break; case 2: c = (char)(0xC3+(i&1)*0x66); break; default: c = "aAbB. \t"[bs.u8()%7]; break;} r.push_back(c);} return r;}
static void Cmp(const String & s, const std::string & m, const char * after)
{
   if (s.Length() != m.size()) FAIL("length %u vs %zu after %s (model [%s])", s.Length(), m.size(), after, vf::Esc(m).c_str());
   if (memcmp(s.Cstr(), m.c_str(), m.size()+1) != 0) FAIL("content [%s] vs model [%s] after %s", vf::Esc(std::string(s.Cstr(), s.Length())).c_str(), vf::Esc(m).c_str(), after);
   if (s.FlattenedSize() != m.size()+1) FAIL("FlattenedSize after %s", after);
   if (strlen(s()) != m.size()) FAIL("strlen after %s", after);
}
extern "C" int vf_run_case(const uint8_t * data, size_t size)
{
   static CompleteSetupSystem * css = NULL; if (css == NULL) css = new CompleteSetupSystem;
   BS bs(data, size);
   g_prevLonger.clear(); g_residueNeedles = 0; g_highByteCharTests = 0;
   Ctx & cx = g_cx; cx.crossed = cx.alias = false; cx.h = 7; cx.nops = 0; cx.trace.clear(); cx.wantTrace = vf::WantSample();
   String s, t; std::string m, mt;
   int steps = 0;
   while(!bs.done() && steps++ < 120)
   {
      const uint8_t opb = bs.u8(); const uint8_t op = (opb >= 240) ? (uint8_t)(48+(opb-240)/2) : (uint8_t)(opb%48); const char * name = "?";      // (240..255 used to fold onto 0..15)
      const std::string mBefore = m;
      const size_t lenBefore = m.size(); const size_t posBefore = bs.pos;
      const uint32 a = bs.u8()%(uint32)(m.size()+3), b = bs.u8()%(uint32)(m.size()+3);
      if (m.size() > 5000) {s.Clear(); m.clear();}
      switch(op)
      {
         case 0: {name="assign"; std::string g = Gen(bs); s = g.c_str(); m = g;} break;
         case 1: {name="assign t"; std::string g = Gen(bs); t = String(g.c_str()); mt = g;} break;
         case 2: name="s+=t"; s += t; m += mt; break;
         case 3: name="s+=s"; cx.alias = true; s += s; m += std::string(m); break;
         case 4: {name="s+=cstr"; std::string g = Gen(bs); s += g.c_str(); m += g;} break;
         case 5: name="s+=s()"; cx.alias = true; s += s(); m += std::string(m); break;
         case 6: {name="s+=char"; const char c = "aB ."[bs.u8()%4]; s += c; m.push_back(c);} break;
         case 7: {name="s+=s()+k"; cx.alias = true; if (a <= m.size()) {s += (s()+a); m += m.substr(a);}} break;
         case 8: {name="PrependChars"; std::string g = Gen(bs); const uint32 mx = (bs.u8()&1)?MUSCLE_NO_LIMIT:(uint32)(bs.u8()%20); if (s.PrependChars(g.c_str(), mx).IsError()) FAIL("PrependChars"); m = g.substr(0, mx) + m;} break;
         case 9: {name="PrependChars(self+k)"; cx.alias = true; if (a <= m.size()) {const uint32 mx = (bs.u8()&1)?MUSCLE_NO_LIMIT:(uint32)(bs.u8()%20); if (s.PrependChars(s()+a, mx).IsError()) FAIL("PrependChars self"); m = m.substr(a).substr(0, mx) + m;}} break;
         case 10: {name="InsertChars"; std::string g = Gen(bs); const uint32 mx = (bs.u8()&1)?MUSCLE_NO_LIMIT:(uint32)(bs.u8()%20); if (s.InsertChars(a, g.c_str(), mx).IsError()) FAIL("InsertChars"); m.insert(muscleMin((size_t)a, m.size()), g.substr(0, mx));} break;
         case 11: {name="InsertChars(self+k)"; cx.alias = true; if (b <= m.size()) {const uint32 mx = (bs.u8()&1)?MUSCLE_NO_LIMIT:(uint32)(bs.u8()%20); if (s.InsertChars(a, s()+b, mx).IsError()) FAIL("InsertChars self"); const std::string ins = m.substr(b).substr(0, mx); m.insert(muscleMin((size_t)a, m.size()), ins);}} break;
         case 12: {name="AppendChars(self+k)"; cx.alias = true; if (a <= m.size()) {const uint32 mx = (bs.u8()&1)?MUSCLE_NO_LIMIT:(uint32)(bs.u8()%20); if (s.AppendChars(s()+a, mx).IsError()) FAIL("AppendChars self"); m += m.substr(a).substr(0, mx);}} break;
         case 13: {name="SetCstr(self+k)"; cx.alias = true; if (a <= m.size()) {const uint32 mx = (bs.u8()&1)?MUSCLE_NO_LIMIT:(uint32)(bs.u8()%20); if (s.SetCstr(s()+a, mx).IsError()) FAIL("SetCstr self"); m = m.substr(a).substr(0, mx);}} break;
         case 14: {name="SetFromString(self)"; cx.alias = true; if (s.SetFromString(s, a, b).IsError()) FAIL("SetFromString self"); const size_t bb = muscleMin((size_t)a, m.size()), ee = muscleMin((size_t)b, m.size()); m = (ee > bb) ? m.substr(bb, ee-bb) : std::string();} break;
         case 15: {name="SetFromString(t)"; const uint32 a2 = bs.u8()%(uint32)(mt.size()+3), b2 = bs.u8()%(uint32)(mt.size()+3); if (s.SetFromString(t, a2, b2).IsError()) FAIL("SetFromString"); const size_t bb = muscleMin((size_t)a2, mt.size()), ee = muscleMin((size_t)b2, mt.size()); m = (ee > bb) ? mt.substr(bb, ee-bb) : std::string();} break;
         case 16: {name="s=s.Substring(a,b)"; cx.alias = true; s = s.Substring(a, b); const size_t bb = muscleMin((size_t)a, m.size()), ee = muscleMin((size_t)b, m.size()); m = (ee > bb) ? m.substr(bb, ee-bb) : std::string();} break;
         case 17: name="TruncateToLength"; s.TruncateToLength(a); if (a < m.size()) m.resize(a); break;
         case 18: name="TruncateChars"; s.TruncateChars(a); m.resize(m.size()-muscleMin((size_t)a, m.size())); break;
         case 19: {name="Replace(char)"; const char x = "ab "[bs.u8()%3], y = "aZ."[bs.u8()%3]; const uint32 mx = (bs.u8()&1)?MUSCLE_NO_LIMIT:(uint32)(bs.u8()%4); const uint32 r = s.Replace(x, y, mx, a); uint32 cnt = 0; if (x != y) for (size_t i=a; i<m.size() && cnt<mx; i++) if (m[i] == x) {m[i] = y; cnt++;} if ((x != y)&&(r != cnt)) FAIL("Replace(char) count %u vs %u", r, cnt);} break;
         case 20: {name="Replace(str,str)"; std::string x = Gen(bs).substr(0, 1+bs.u8()%3), y = Gen(bs).substr(0, bs.u8()%5); if (x.empty()) break; const uint32 mx = (bs.u8()&1)?MUSCLE_NO_LIMIT:(uint32)(bs.u8()%4); const int32 r = s.Replace(String(x.c_str()), String(y.c_str()), mx, a); int32 cnt = 0; if (x != y) {size_t pos = a; while((uint32)cnt < mx && pos <= m.size() && (pos = m.find(x, pos)) != std::string::npos) {m.replace(pos, x.size(), y); pos += y.size(); cnt++;}} if ((x != y)&&(r != cnt)) FAIL("Replace(str) count %d vs %d", r, cnt);} break;
         case 21: {name="Replace(t, s) aliasing withMe=self"; cx.alias = true; if (mt.empty() || mt == m) break; const std::string y = m; const int32 r = s.Replace(t, s, 2); int32 cnt = 0; size_t pos = 0; while(cnt < 2 && (pos = m.find(mt, pos)) != std::string::npos) {m.replace(pos, mt.size(), y); pos += y.size(); cnt++;} if (r != cnt) FAIL("Replace alias count %d vs %d", r, cnt);} break;
         case 22: name="Reverse"; s.Reverse(); std::reverse(m.begin(), m.end()); break;
         case 23: name="Prealloc"; if (s.Prealloc(bs.u8()%70).IsError()) FAIL("Prealloc"); break;
         case 24: name="ShrinkToFit"; if (s.ShrinkToFit(bs.u8()%3).IsError()) FAIL("ShrinkToFit"); break;
         case 25: name="Clear"; s.Clear(); m.clear(); break;
         case 26: name="ClearAndFlush"; s.ClearAndFlush(); m.clear(); break;
         case 27: name="SwapContents"; s.SwapContents(t); m.swap(mt); break;
         case 28: {name="ToUpper/Lower"; if (bs.u8()&1) {s = s.ToUpperCase(); for (size_t i=0;i<m.size();i++) if (m[i]>='a' && m[i]<='z') m[i] = (char)(m[i]-32);} else {s = s.ToLowerCase(); for (size_t i=0;i<m.size();i++) if (m[i]>='A' && m[i]<='Z') m[i] = (char)(m[i]+32);}} break;
         case 29: {name="Trimmed"; s = s.Trimmed(); size_t b0 = 0; while(b0 < m.size() && (m[b0]==' '||m[b0]=='\t'||m[b0]=='\r'||m[b0]=='\n')) b0++; size_t e0 = m.size(); while(e0 > b0 && (m[e0-1]==' '||m[e0-1]=='\t'||m[e0-1]=='\r'||m[e0-1]=='\n')) e0--; m = m.substr(b0, e0-b0);} break;
         case 30: {name="PaddedBy"; const uint32 ml = bs.u8()%40; const bool right = (bs.u8()&1)!=0; s = s.PaddedBy(ml, right, '_'); if (m.size() < ml) {if (right) m.append(ml-m.size(), '_'); else m.insert(0, ml-m.size(), '_');}} break;
         case 31: {name="queries"; std::string g = Gen(bs).substr(0, 1+bs.u8()%3); if (g.empty()) break; const int i1 = s.IndexOf(g.c_str(), a); const size_t f1 = (a < m.size()) ? m.find(g, a) : std::string::npos; if (i1 != ((f1==std::string::npos)?-1:(int)f1)) FAIL("IndexOf(%s,%u) %d", g.c_str(), a, i1); const int i2 = s.LastIndexOf(g.c_str()); const size_t f2 = m.rfind(g); if (i2 != ((f2==std::string::npos)?-1:(int)f2)) FAIL("LastIndexOf(%s) in [%s] = %d expected %d", g.c_str(), m.c_str(), i2, (f2==std::string::npos)?-1:(int)f2);
                  if (s.StartsWith(g.c_str()) != (m.compare(0, g.size(), g)==0 && m.size()>=g.size())) FAIL("StartsWith"); if (s.EndsWith(g.c_str()) != (m.size()>=g.size() && m.compare(m.size()-g.size(), g.size(), g)==0)) FAIL("EndsWith");} break;
         case 32: {name="compare"; const int c = s.CompareTo(t); const int e = strcmp(m.c_str(), mt.c_str()); if (((c<0)!=(e<0))||((c>0)!=(e>0))) FAIL("CompareTo"); if ((s == t) != (m == mt)) FAIL("=="); if ((s < t) != (e < 0)) FAIL("<"); if ((m == mt)&&(s.HashCode() != t.HashCode())) FAIL("HashCode of equal strings differs"); if ((m == mt)&&(s.HashCode64() != t.HashCode64())) FAIL("HashCode64 differs");} break;
         case 33: {name="copy/move"; String c(s); Cmp(c, m, "copy-ctor"); String mv(std::move(c)); Cmp(mv, m, "move-ctor"); String as; as = mv; Cmp(as, m, "assign"); as = std::move(mv); Cmp(as, m, "move-assign");} break;
         case 34: {name="flatten"; const uint32 fs = s.FlattenedSize(); std::string buf(fs, 'X'); s.Flatten(DataFlattener((uint8 *)&buf[0], fs)); if (buf != std::string(m.c_str(), m.size()+1)) FAIL("Flatten bytes"); String u; DataUnflattener un((const uint8 *)buf.data(), fs); if (u.Unflatten(un).IsError()) FAIL("Unflatten"); Cmp(u, m, "unflatten"); } break;
         case 35: {name="s-=t"; s -= t; if (!mt.empty()) {const size_t p = m.rfind(mt); if (p != std::string::npos) m.erase(p, mt.size());}} break;
         case 36: {name="s-=char"; const char c = "ab "[bs.u8()%3]; s -= c; const size_t p = m.rfind(c); if (p != std::string::npos) m.erase(p, 1);} break;
         case 37: {name="WithInsert(self)"; cx.alias = true; s = s.WithInsert(a, s, (bs.u8()&1)?MUSCLE_NO_LIMIT:(uint32)(bs.u8()%20)); /* recompute */ } {/* handled below */} break;
         case 38: {name="s=s"; cx.alias = true; s = s; String & r = s; s = r;} break;
         case 39: {name="operator[] write"; if (a < m.size()) {s[a] = 'Q'; m[a] = 'Q';}} break;
         case 40: {name="Arg(str)"; static const char * TPL[] = {"%1", "x%1y", "%1-%2", "%2 %1 %2", "%3%1", "no tokens", "%1%1%1%1%1%1%1%1", "aaaaaaaaaaaaa%1", "%2aaaaaaaaaaaaa%2"}; const std::string tpl = TPL[bs.u8()%9]; std::string g = Gen(bs); for (size_t i=0; i<g.size(); i++) if (g[i] == '%') g[i] = 'p'; s = tpl.c_str(); m = tpl; const bool self = ((bs.u8()&3) == 0); if (self) {cx.alias = true; g = m; s = s.Arg(s);} else s = s.Arg(g.c_str());
                   int lowest = -1; for (size_t i=0; i+1<m.size(); i++) if ((m[i] == '%')&&(m[i+1] >= '0')&&(m[i+1] <= '9')) {const int v = m[i+1]-'0'; if ((lowest < 0)||(v < lowest)) lowest = v;}
                   if (lowest >= 0) {const std::string tok = std::string("%")+(char)('0'+lowest); size_t pos = 0; while((pos = m.find(tok, pos)) != std::string::npos) {m.replace(pos, tok.size(), g); pos += g.size();}}} break;
         case 41: {name="Arg(int)"; const int v = (int)(int8_t)bs.u8()*((bs.u8()&1)?1:100000); s = "v=%1;%1"; s = s.Arg(v); char b[64]; snprintf(b, sizeof(b), "v=%i;%i", v, v); m = b;} break;
         case 42: {name="WithAppend/WithPrepend"; std::string g = Gen(bs); if (bs.u8()&1) {s = s.WithAppend(g.c_str()); m += g;} else {s = s.WithPrepend(String(g.c_str())); m = g+m;}} break;
         case 43: {name="unflatten truncated"; const uint32 fs = s.FlattenedSize(); std::string buf(fs, 'X'); s.Flatten(DataFlattener((uint8 *)&buf[0], fs)); const uint32 cut = (uint32)(bs.u8()%(fs+1)); if (cut < fs) {/* every strict prefix lacks the NUL terminator */ uint8 * heapCopy = new uint8[cut ? cut : 1]; memcpy(heapCopy, buf.data(), cut); String u("previous"); DataUnflattener un(heapCopy, cut); const status_t r = u.Unflatten(un); delete [] heapCopy; if (r.IsOK()) FAIL("Unflatten accepted an unterminated %u-byte prefix of a %u-byte flattened String [%s] (result [%s])", cut, fs, vf::Esc(m).c_str(), vf::Esc(std::string(u.Cstr(), u.Length())).c_str()); vf::Count("unflatten_truncated_rejected");}} break;
         case 44: {name="GetNumInstancesOf"; const char c = "ab "[bs.u8()%3]; uint32 cnt = 0; for (size_t i=a; i<m.size(); i++) if (m[i] == c) cnt++; if (s.GetNumInstancesOf(c, a) != cnt) FAIL("GetNumInstancesOf(char)");} break;
         case 45: {name="IndexOf(char)/Contains"; const char c = "ab Q"[bs.u8()%4]; const size_t f = (a < m.size()) ? m.find(c, a) : std::string::npos; if (s.IndexOf(c, a) != ((f==std::string::npos)?-1:(int)f)) FAIL("IndexOf(char)"); const size_t f2 = m.rfind(c); if (s.LastIndexOf(c) != ((f2==std::string::npos)?-1:(int)f2)) FAIL("LastIndexOf(char)"); if (s.Contains(c) != (m.find(c) != std::string::npos)) FAIL("Contains(char)");} break;
         case 46: {name="EqualsIgnoreCase/CompareToIgnoreCase"; const int e = strcasecmp(m.c_str(), mt.c_str()); if (s.EqualsIgnoreCase(t) != (e == 0)) FAIL("EqualsIgnoreCase"); const int c = s.CompareToIgnoreCase(t); if (((c<0)!=(e<0))||((c>0)!=(e>0))) FAIL("CompareToIgnoreCase");} break;
         case 48: case 49:
         {
            // String-typed and case-insensitive searches with a start index.  The needle comes from the bytes the String held before it last became shorter (what may
            // still lie behind its terminator), from its current contents, or from the generator; letter case is flipped at random.
            name = "queries (String-typed, ignore-case)"; std::string g; const uint8_t src = bs.u8()%3; const uint32 gl = 1+bs.u8()%3;
            if ((src == 0)&&(g_prevLonger.size() > m.size())) g = g_prevLonger.substr(m.size()+(b%(g_prevLonger.size()-m.size())), gl);
            else if ((src == 1)&&(m.size())) g = m.substr(b%m.size(), gl);
            else g = Gen(bs).substr(0, gl);
            if (g.empty()) break;
            const std::string exact = g;
            for (size_t i=0; i<g.size(); i++) if (bs.u8()&1) {if ((g[i] >= 'a')&&(g[i] <= 'z')) g[i] = (char)(g[i]-32); else if ((g[i] >= 'A')&&(g[i] <= 'Z')) g[i] = (char)(g[i]+32);}
            std::string lm = m, lg = g; for (size_t i=0; i<lm.size(); i++) if ((lm[i] >= 'A')&&(lm[i] <= 'Z')) lm[i] = (char)(lm[i]+32); for (size_t i=0; i<lg.size(); i++) if ((lg[i] >= 'A')&&(lg[i] <= 'Z')) lg[i] = (char)(lg[i]+32);
            const String gs(g.c_str());
            {const size_t f = (a < m.size()) ? lm.find(lg, a) : std::string::npos; const int e = (f == std::string::npos) ? -1 : (int)f;
             if (s.IndexOfIgnoreCase(gs, a) != e) FAIL("IndexOfIgnoreCase(String [%s], %u) = %d, expected %d in [%s]", vf::Esc(g).c_str(), a, s.IndexOfIgnoreCase(gs, a), e, vf::Esc(m).c_str());
             if (s.IndexOfIgnoreCase(g.c_str(), a) != e) FAIL("IndexOfIgnoreCase(const char * [%s], %u) = %d, expected %d in [%s]", vf::Esc(g).c_str(), a, s.IndexOfIgnoreCase(g.c_str(), a), e, vf::Esc(m).c_str());
             if (s.ContainsIgnoreCase(gs, a) != (e >= 0)) FAIL("ContainsIgnoreCase(String, %u)", a); if (s.ContainsIgnoreCase(g.c_str(), a) != (e >= 0)) FAIL("ContainsIgnoreCase(const char *, %u)", a);}
            {const size_t f = lm.rfind(lg); const int e = ((a < m.size())&&(f != std::string::npos)&&(f >= a)) ? (int)f : -1;
             if (s.LastIndexOfIgnoreCase(gs, a) != e) FAIL("LastIndexOfIgnoreCase(String [%s], %u) = %d, expected %d in [%s]", vf::Esc(g).c_str(), a, s.LastIndexOfIgnoreCase(gs, a), e, vf::Esc(m).c_str());
             if (s.LastIndexOfIgnoreCase(g.c_str(), a) != e) FAIL("LastIndexOfIgnoreCase(const char *, %u)", a);}
            if (s.StartsWithIgnoreCase(gs) != ((lm.size() >= lg.size())&&(lm.compare(0, lg.size(), lg) == 0))) FAIL("StartsWithIgnoreCase(String)");
            if (s.EndsWithIgnoreCase(gs) != ((lm.size() >= lg.size())&&(lm.compare(lm.size()-lg.size(), lg.size(), lg) == 0))) FAIL("EndsWithIgnoreCase(String)");
            {const String es(exact.c_str()); const size_t f = (a < m.size()) ? m.find(exact, a) : std::string::npos; const int e = (f == std::string::npos) ? -1 : (int)f;
             if (s.IndexOf(es, a) != e) FAIL("IndexOf(String [%s], %u) = %d, expected %d in [%s]", vf::Esc(exact).c_str(), a, s.IndexOf(es, a), e, vf::Esc(m).c_str()); if (s.Contains(es, a) != (e >= 0)) FAIL("Contains(String, %u)", a);
             if (s.StartsWith(es) != ((m.size() >= exact.size())&&(m.compare(0, exact.size(), exact) == 0))) FAIL("StartsWith(String)"); if (s.EndsWith(es) != ((m.size() >= exact.size())&&(m.compare(m.size()-exact.size(), exact.size(), exact) == 0))) FAIL("EndsWith(String)");}
            {const char c = g[0]; const char lc = ((c >= 'A')&&(c <= 'Z')) ? (char)(c+32) : c; size_t f = std::string::npos; for (size_t i=a; i<lm.size(); i++) if (lm[i] == lc) {f = i; break;} if (s.IndexOfIgnoreCase(c, a) != ((f == std::string::npos) ? -1 : (int)f)) FAIL("IndexOfIgnoreCase(char '%c', %u)", c, a);}
            {
               // the char-typed tests, asked about the String's own first and last byte (any byte value, multi-byte characters included), their case-flipped twins and a foreign byte
               auto low = [](char ch) {return ((ch >= 'A')&&(ch <= 'Z')) ? (char)(ch+32) : ch;};
               const char probes[5] = {m.size() ? m[0] : 'a', m.size() ? m[m.size()-1] : 'a', g[0], (char)((m.size() ? m[0] : 'a')^0x20), (char)((m.size() ? m[m.size()-1] : 'a')^0x20)};
               for (int pi=0; pi<5; pi++)
               {
                  const char pc = probes[pi]; if (pc == '\0') continue; const bool letter = ((low(pc) >= 'a')&&(low(pc) <= 'z'));
                  if ((pi >= 3)&&(letter == false)) continue;     // flipping bit 5 only means "other case" for letters
                  if (s.StartsWith(pc) != ((m.size() > 0)&&(m[0] == pc))) FAIL("StartsWith(char 0x%02x) on [%s]", (unsigned)(uint8_t)pc, vf::Esc(m).c_str());
                  if (s.EndsWith(pc) != ((m.size() > 0)&&(m[m.size()-1] == pc))) FAIL("EndsWith(char 0x%02x) on [%s]", (unsigned)(uint8_t)pc, vf::Esc(m).c_str());
                  if (s.Equals(pc) != ((m.size() == 1)&&(m[0] == pc))) FAIL("Equals(char 0x%02x) on [%s]", (unsigned)(uint8_t)pc, vf::Esc(m).c_str());
                  if (s.StartsWithIgnoreCase(pc) != ((m.size() > 0)&&(low(m[0]) == low(pc)))) FAIL("StartsWithIgnoreCase(char 0x%02x) on [%s]", (unsigned)(uint8_t)pc, vf::Esc(m).c_str());
                  if (s.EndsWithIgnoreCase(pc) != ((m.size() > 0)&&(low(m[m.size()-1]) == low(pc)))) FAIL("EndsWithIgnoreCase(char 0x%02x) on [%s]", (unsigned)(uint8_t)pc, vf::Esc(m).c_str());
                  if (s.EqualsIgnoreCase(pc) != ((m.size() == 1)&&(low(m[0]) == low(pc)))) FAIL("EqualsIgnoreCase(char 0x%02x) on [%s]", (unsigned)(uint8_t)pc, vf::Esc(m).c_str());
                  if ((uint8_t)pc >= 0x80) g_highByteCharTests++;
               }
            }
            if ((src == 0)&&(g_prevLonger.size() > m.size())) g_residueNeedles++;
         }
         break;
         case 50:
         {
            // WithPrefix / WithSuffix / WithoutPrefix / WithoutSuffix (+IgnoreCase), String and char variants; none of them modifies the String itself
            name = "With/WithoutPrefix/Suffix"; std::string g = (bs.u8()&1) ? Gen(bs).substr(0, 1+bs.u8()%3) : ((m.size()) ? ((bs.u8()&1) ? m.substr(0, 1+bs.u8()%3) : m.substr(m.size()-muscleMin(m.size(), (size_t)(1+bs.u8()%3)))) : std::string("a"));
            if (g.empty()) break; const String gs(g.c_str()); const uint32 mx = (bs.u8()&1) ? MUSCLE_NO_LIMIT : (uint32)(bs.u8()%3);
            auto lower = [](std::string x){for (size_t i=0; i<x.size(); i++) if ((x[i] >= 'A')&&(x[i] <= 'Z')) x[i] = (char)(x[i]+32); return x;};
            auto eq = [&](const String & got, const std::string & exp, const char * what){if ((got.Length() != exp.size())||(memcmp(got.Cstr(), exp.c_str(), exp.size()+1) != 0)) FAIL("%s([%s]) on [%s] gives [%s], expected [%s]", what, vf::Esc(g).c_str(), vf::Esc(m).c_str(), vf::Esc(std::string(got.Cstr(), got.Length())).c_str(), vf::Esc(exp).c_str());};
            {const bool has = (m.size() >= g.size())&&(m.compare(0, g.size(), g) == 0); eq(s.WithPrefix(gs), has ? m : g+m, "WithPrefix(String)");}
            {const bool has = (m.size() >= g.size())&&(m.compare(m.size()-g.size(), g.size(), g) == 0); eq(s.WithSuffix(gs), has ? m : m+g, "WithSuffix(String)");}
            {const bool has = (m.size())&&(m[0] == g[0]); eq(s.WithPrefix(g[0]), has ? m : std::string(1, g[0])+m, "WithPrefix(char)");}
            {const bool has = (m.size())&&(m[m.size()-1] == g[0]); eq(s.WithSuffix(g[0]), has ? m : m+std::string(1, g[0]), "WithSuffix(char)");}
            {std::string e = m; uint32 n = 0; while((n < mx)&&(e.size() >= g.size())&&(e.compare(0, g.size(), g) == 0)) {e.erase(0, g.size()); n++;} eq(s.WithoutPrefix(gs, mx), e, "WithoutPrefix(String)");}
            {std::string e = m; uint32 n = 0; while((n < mx)&&(e.size() >= g.size())&&(e.compare(e.size()-g.size(), g.size(), g) == 0)) {e.erase(e.size()-g.size()); n++;} eq(s.WithoutSuffix(gs, mx), e, "WithoutSuffix(String)");}
            {std::string e = m; uint32 n = 0; while((n < mx)&&(e.size())&&(e[0] == g[0])) {e.erase(0, 1); n++;} eq(s.WithoutPrefix(g[0], mx), e, "WithoutPrefix(char)");}
            {std::string e = m; uint32 n = 0; while((n < mx)&&(e.size())&&(e[e.size()-1] == g[0])) {e.erase(e.size()-1); n++;} eq(s.WithoutSuffix(g[0], mx), e, "WithoutSuffix(char)");}
            {std::string G = g; for (size_t i=0; i<G.size(); i++) if ((G[i] >= 'a')&&(G[i] <= 'z')&&(bs.u8()&1)) G[i] = (char)(G[i]-32); const std::string lg = lower(G); const String Gs(G.c_str());
             {std::string e = m; uint32 n = 0; while((n < mx)&&(e.size() >= lg.size())&&(lower(e.substr(0, lg.size())) == lg)) {e.erase(0, lg.size()); n++;} eq(s.WithoutPrefixIgnoreCase(Gs, mx), e, "WithoutPrefixIgnoreCase(String)");}
             {std::string e = m; uint32 n = 0; while((n < mx)&&(e.size() >= lg.size())&&(lower(e.substr(e.size()-lg.size())) == lg)) {e.erase(e.size()-lg.size()); n++;} eq(s.WithoutSuffixIgnoreCase(Gs, mx), e, "WithoutSuffixIgnoreCase(String)");}
             {std::string e = m; uint32 n = 0; while((n < mx)&&(e.size())&&(lower(e.substr(0, 1)) == lg.substr(0, 1))) {e.erase(0, 1); n++;} eq(s.WithoutPrefixIgnoreCase(G[0], mx), e, "WithoutPrefixIgnoreCase(char)");}
             {std::string e = m; uint32 n = 0; while((n < mx)&&(e.size())&&(lower(e.substr(e.size()-1)) == lg.substr(0, 1))) {e.erase(e.size()-1); n++;} eq(s.WithoutSuffixIgnoreCase(G[0], mx), e, "WithoutSuffixIgnoreCase(char)");}}
         }
         break;
         case 51:
         {
            name = "WithReplacements"; const std::string x = Gen(bs).substr(0, 1+bs.u8()%3), y = Gen(bs).substr(0, bs.u8()%5); if (x.empty()) break; const uint32 mx = (bs.u8()&1) ? MUSCLE_NO_LIMIT : (uint32)(bs.u8()%4);
            {std::string e = m; if (x != y) {uint32 cnt = 0; size_t pos = a; while((cnt < mx)&&(pos <= e.size())&&((pos = e.find(x, pos)) != std::string::npos)) {e.replace(pos, x.size(), y); pos += y.size(); cnt++;}} const String got = s.WithReplacements(String(x.c_str()), String(y.c_str()), mx, a); if ((got.Length() != e.size())||(memcmp(got.Cstr(), e.c_str(), e.size()+1) != 0)) FAIL("WithReplacements([%s],[%s],%u,%u) on [%s] gives [%s], expected [%s]", vf::Esc(x).c_str(), vf::Esc(y).c_str(), mx, a, vf::Esc(m).c_str(), vf::Esc(std::string(got.Cstr(), got.Length())).c_str(), vf::Esc(e).c_str());}
            {const char cx2 = x[0], cy = y.size() ? y[0] : 'Z'; std::string e = m; if (cx2 != cy) {uint32 cnt = 0; for (size_t i=a; (i<e.size())&&(cnt<mx); i++) if (e[i] == cx2) {e[i] = cy; cnt++;}} const String got = s.WithReplacements(cx2, cy, mx, a); if ((got.Length() != e.size())||(memcmp(got.Cstr(), e.c_str(), e.size()+1) != 0)) FAIL("WithReplacements(char) on [%s] gives [%s], expected [%s]", vf::Esc(m).c_str(), vf::Esc(std::string(got.Cstr(), got.Length())).c_str(), vf::Esc(e).c_str());}
         }
         break;
         case 52:
         {
            name = "CharAt/Equals/words"; if (a < m.size()) {if (s.CharAt(a) != m[a]) FAIL("CharAt(%u)", a);}
            if (s.Equals(t) != (m == mt)) FAIL("Equals(String)"); if (s.Equals(mt.c_str()) != (m == mt)) FAIL("Equals(const char *)"); if (s.Equals('a') != (m == "a")) FAIL("Equals(char)");
            const std::string w = Gen(bs).substr(0, bs.u8()%4); const String ws(w.c_str());
            // documented: a separator goes between the old content and the new word "if necessary"; with the default " " that is: both non-empty and no space already at the joint
            {std::string e = m; if (w.size()) {if ((m.size())&&(m[m.size()-1] != ' ')&&(w[0] != ' ')) e += " "; e += w;} const String got = s.WithAppendedWord(ws); if ((got.Length() != e.size())||(memcmp(got.Cstr(), e.c_str(), e.size()+1) != 0)) FAIL("WithAppendedWord([%s]) on [%s] gives [%s], expected [%s]", vf::Esc(w).c_str(), vf::Esc(m).c_str(), vf::Esc(std::string(got.Cstr(), got.Length())).c_str(), vf::Esc(e).c_str());}
            {std::string e = m; if (w.size()) {std::string pre = w; if ((m.size())&&(m[0] != ' ')&&(w[w.size()-1] != ' ')) pre += " "; e = pre+m;} const String got = s.WithPrependedWord(ws); if ((got.Length() != e.size())||(memcmp(got.Cstr(), e.c_str(), e.size()+1) != 0)) FAIL("WithPrependedWord([%s]) on [%s] gives [%s], expected [%s]", vf::Esc(w).c_str(), vf::Esc(m).c_str(), vf::Esc(std::string(got.Cstr(), got.Length())).c_str(), vf::Esc(e).c_str());}
         }
         break;
         case 53: case 54: case 55: {name = "(reserved)";} break;
         case 47: {name="t=s then mutate s (copies are independent)"; t = s; mt = m; s += 'k'; m.push_back('k');} break;
      }
      if (op == 37) {/* model for WithInsert(self): need the max arg that was consumed; simpler: recompute from the result's structural property */ const std::string got(s.Cstr(), s.Length()); if (got.size() < m.size()) FAIL("WithInsert shrank"); const size_t ia = muscleMin((size_t)a, m.size()); const size_t insLen = got.size()-m.size(); if (insLen > m.size()) FAIL("WithInsert inserted too much"); const std::string exp = m.substr(0, ia) + m.substr(0, insLen) + m.substr(ia); if (got != exp) FAIL("WithInsert(self) content"); m = exp;}
      Cmp(s, m, name); Cmp(t, mt, name);
      if (m.size() < mBefore.size()) g_prevLonger = mBefore; else if (m.size() > g_prevLonger.size()) g_prevLonger.clear();
      cx.nops++;
      if ((lenBefore <= 15) != (m.size() <= 15)) cx.crossed = true;
      cx.h = vf::Hash64(data+posBefore, bs.pos-posBefore, vf::HashMix(cx.h, op));
      if (vf::Verbose()) fprintf(stderr, "  %-34s a=%u b=%u -> len %u [%s]\n", name, a, b, s.Length(), vf::Esc(m.substr(0, 60)).c_str());
      if ((cx.wantTrace)&&(cx.trace.size() < 1000)) {cx.trace += name; cx.trace += "; ";}
   }
   vf::Count("ops", cx.nops);
   if (cx.crossed) vf::Count("case_crossing_small_buffer_boundary"); if (g_residueNeedles) vf::Count("case_search_for_bytes_left_behind_the_terminator"); if (g_highByteCharTests) vf::Count("case_char_typed_test_with_a_byte_above_0x7f");
   if (cx.alias) vf::Count("case_with_aliasing_operand");
   if ((cx.crossed)||(cx.alias)) {vf::NonTrivial(cx.h); if (cx.wantTrace) vf::Sample(cx.trace+" => ["+vf::Esc(m.substr(0, 80))+"]");}
   return 0;
}
