// C09, second target: the auto-sorting variants (OrderedKeysHashtable, OrderedValuesHashtable) and String keys.
// Oracle = std::map content model + validity predicates that follow from the documentation:
// while auto-sort is on and the table was not manually disordered, every iteration is sorted by key
// (resp. by value; the order among equal values is not documented and not judged); backward iteration
// is the reverse of forward iteration; every query agrees with the map / with the iteration sequence.
// Registered iterators stay alive across mutations and are judged by the property's own wording: never a
// key that is neither present nor removed since the iterator last moved; no undisturbed key twice;
// nothing that was present throughout and undisturbed skipped; monotone for sorted-by-key tables.
#include "engine/harness.h"
#include "util/Hashtable.h"
#include "util/String.h"
#include "system/SetupSystem.h"
#include <map>
#include <set>
#include <vector>
#include <algorithm>
using namespace muscle;
const char * vf_harness_name = "c09_ordered";
typedef vf::BS BS;
#define FAIL(...) vf::Fail(__VA_ARGS__)

class CollidingIntHash {public: uint32 operator()(const int & k) const {return (k < 100) ? (((uint32)k)%3) : (uint32)k;} bool AreKeysEqual(const int & a, const int & b) const {return a == b;}};
class CollidingStringHash {public: uint32 operator()(const String & k) const {return k.Length()%3;} bool AreKeysEqual(const String & a, const String & b) const {return a == b;}};

// conversions between the small integers the generator draws and the key/value types
static String SK(int i) {String s; const int len = (i%4 == 0) ? 0 : ((i*5)%23); for (int j=0; j<len; j++) s += (char)('a'+((i+j)%5)); s += (char)('A'+i); return s;}   // lengths 1..23: both sides of the 15/16 small-buffer boundary
template<class T> struct Conv;
template<> struct Conv<int>    {static int    Make(int i) {return i;}     static std::string Show(const int & v)    {return std::to_string(v);}};
template<> struct Conv<String> {static String Make(int i) {return SK(i);} static std::string Show(const String & v) {return std::string(v());}};

static std::string g_trace; static bool g_wantTrace; static uint64_t g_hash;
static bool g_mutWithIter, g_traversalCompleted, g_unsortedPhase, g_tieSeen;

template<class K, class V, class TableT, class IterT, bool BYKEY> struct Run
{
   typedef std::map<K,V> Model;
   struct LiveIter
   {
      IterT * real; bool back; bool loose;                // loose: the table was cleared/swapped/assigned/re-sorted under it; only memory safety and "shows an existing-or-just-removed key" are judged
      std::set<K> presentAtStart, removedDuring, disturbed, removedSinceMove; std::map<K,int> visits; std::vector<K> order; std::map<K, std::vector<V> > valsSinceMove; bool autoSortThroughout;
      LiveIter() : real(NULL), back(false), loose(false), autoSortThroughout(true) {}
   };
   TableT * t[2]; Model m[2]; bool sorted[2]; bool autoSort[2]; LiveIter * it[2];

   static bool Less(const K & a, const K & b) {return a < b;}
   static bool LessV(const V & a, const V & b) {return a < b;}

   void Touch(int w, const K & k, const V * oldV, const V * newV, bool removed, bool moved)
   {
      for (int j=0; j<2; j++) if ((it[j])&&(j == w))
      {
         LiveIter & li = *it[j]; g_mutWithIter = true;
         if (oldV) li.valsSinceMove[k].push_back(*oldV); if (newV) li.valsSinceMove[k].push_back(*newV);
         if (removed) {li.removedSinceMove.insert(k); li.removedDuring.insert(k); li.disturbed.insert(k);}
         if (moved) li.disturbed.insert(k);
      }
   }
   void Loosen(int w) {if (it[w]) it[w]->loose = true;}

   void Observe(int w, const char * after, bool justMoved)
   {
      LiveIter & li = *it[w];
      if (li.real->HasData() == false) return;
      const K k = li.real->GetKey(); const V v = li.real->GetValue();
      const bool inModel = (m[w].count(k) != 0);
      if ((inModel == false)&&(li.removedSinceMove.count(k) == 0)&&(li.loose == false)) FAIL("a live iterator shows key [%s], which is not in the table and was not removed since the iterator last moved (after %s): %s", Conv<K>::Show(k).c_str(), after, g_trace.c_str());
      bool vok = (inModel)&&(m[w][k] == v); const std::vector<V> & vs = li.valsSinceMove[k]; for (size_t i=0; i<vs.size(); i++) if (vs[i] == v) vok = true;
      if ((vok == false)&&(li.loose == false)) FAIL("a live iterator shows key [%s] with value [%s], which that key did not have at any time since the iterator last moved (after %s): %s", Conv<K>::Show(k).c_str(), Conv<V>::Show(v).c_str(), after, g_trace.c_str());
      if (justMoved)
      {
         li.visits[k]++; li.order.push_back(k);
         if ((li.visits[k] > 1)&&(li.disturbed.count(k) == 0)&&(li.loose == false)) FAIL("a live iterator visited key [%s] twice in one traversal although nothing moved or re-inserted it (after %s): %s", Conv<K>::Show(k).c_str(), after, g_trace.c_str());
         if ((BYKEY)&&(li.autoSortThroughout)&&(li.loose == false)&&(li.order.size() >= 2))
         {
            const K & p = li.order[li.order.size()-2];
            if (li.back ? Less(p, k) : Less(k, p)) FAIL("a live %s iterator on a sorted-by-key table went from key [%s] to key [%s] (after %s): %s", li.back ? "backward" : "forward", Conv<K>::Show(p).c_str(), Conv<K>::Show(k).c_str(), after, g_trace.c_str());
         }
      }
   }
   void StartIter(int w, bool back, int atKey, bool useKey)
   {
      KillIter(w);
      LiveIter * li = new LiveIter; li->back = back; li->autoSortThroughout = (autoSort[w] && sorted[w]);
      uint32 flags = back ? HTIT_FLAG_BACKWARDS : 0;
      if (useKey) li->real = new IterT(*t[w], Conv<K>::Make(atKey), flags); else li->real = new IterT(*t[w], flags);
      it[w] = li;
      if (useKey) li->loose = false;
      // "present throughout" is judged for what lies ahead of the starting point only when the traversal starts at an end
      if (useKey == false) for (typename Model::const_iterator i = m[w].begin(); i != m[w].end(); ++i) li->presentAtStart.insert(i->first);
      Observe(w, "iterator creation", true);
   }
   void Advance(int w)
   {
      LiveIter & li = *it[w];
      if (li.real->HasData() == false) {Finish(w); return;}
      (*li.real)++; li.removedSinceMove.clear(); li.valsSinceMove.clear();
      Observe(w, "iterator advance", true);
      if (li.real->HasData() == false) Finish(w);
   }
   void Finish(int w)
   {
      LiveIter & li = *it[w];
      if (li.loose == false)
      {
         for (typename std::set<K>::const_iterator i = li.presentAtStart.begin(); i != li.presentAtStart.end(); ++i)
            if ((li.removedDuring.count(*i) == 0)&&(li.disturbed.count(*i) == 0)&&(m[w].count(*i))&&(li.visits[*i] != 1)) FAIL("a live %s iterator finished its traversal having visited key [%s] %d times although the key was present throughout and never moved: %s", li.back ? "backward" : "forward", Conv<K>::Show(*i).c_str(), li.visits[*i], g_trace.c_str());
         if (li.presentAtStart.size() >= 2) g_traversalCompleted = true;
      }
      KillIter(w);
   }
   void KillIter(int w) {if (it[w]) {delete it[w]->real; delete it[w]; it[w] = NULL;}}

   void CheckAll(const char * after)
   {
      for (int w=0; w<2; w++)
      {
         if (t[w]->GetNumItems() != m[w].size()) FAIL("table %d holds %u items, the map %zu (after %s): %s", w, t[w]->GetNumItems(), m[w].size(), after, g_trace.c_str());
         std::vector<K> fk; std::vector<V> fv;
         for (IterT i(*t[w], HTIT_FLAG_NOREGISTER); i.HasData(); i++) {fk.push_back(i.GetKey()); fv.push_back(i.GetValue()); if (fk.size() > m[w].size()+2) FAIL("forward iteration does not end (after %s): %s", after, g_trace.c_str());}
         if (fk.size() != m[w].size()) FAIL("forward iteration yields %zu entries, the map has %zu (after %s): %s", fk.size(), m[w].size(), after, g_trace.c_str());
         std::set<K> seen;
         for (size_t i=0; i<fk.size(); i++)
         {
            if (seen.insert(fk[i]).second == false) FAIL("key [%s] appears twice in one iteration (after %s): %s", Conv<K>::Show(fk[i]).c_str(), after, g_trace.c_str());
            typename Model::const_iterator f = m[w].find(fk[i]);
            if (f == m[w].end()) FAIL("iteration yields key [%s], which the map does not hold (after %s): %s", Conv<K>::Show(fk[i]).c_str(), after, g_trace.c_str());
            if (!(f->second == fv[i])) FAIL("key [%s] iterates with value [%s], the map says [%s] (after %s): %s", Conv<K>::Show(fk[i]).c_str(), Conv<V>::Show(fv[i]).c_str(), Conv<V>::Show(f->second).c_str(), after, g_trace.c_str());
            if ((i > 0)&&(sorted[w])&&(autoSort[w]))
            {
               if (BYKEY) {if (Less(fk[i], fk[i-1])) FAIL("sorted-by-key table iterates [%s] before [%s] (after %s): %s", Conv<K>::Show(fk[i-1]).c_str(), Conv<K>::Show(fk[i]).c_str(), after, g_trace.c_str());}
               else       {if (LessV(fv[i], fv[i-1])) FAIL("sorted-by-value table iterates value [%s] (key [%s]) before value [%s] (key [%s]) (after %s): %s", Conv<V>::Show(fv[i-1]).c_str(), Conv<K>::Show(fk[i-1]).c_str(), Conv<V>::Show(fv[i]).c_str(), Conv<K>::Show(fk[i]).c_str(), after, g_trace.c_str()); if (fv[i] == fv[i-1]) g_tieSeen = true;}
            }
         }
         size_t bi = fk.size();
         for (IterT i(*t[w], HTIT_FLAG_NOREGISTER|HTIT_FLAG_BACKWARDS); i.HasData(); i++) {if (bi == 0) FAIL("backward iteration is longer than forward iteration (after %s): %s", after, g_trace.c_str()); bi--; if (!(i.GetKey() == fk[bi])) FAIL("backward iteration is not the reverse of forward iteration at position %zu (after %s): %s", bi, after, g_trace.c_str());}
         if (bi != 0) FAIL("backward iteration is shorter than forward iteration (after %s): %s", after, g_trace.c_str());
         // queries
         for (int k=0; k<16; k++)
         {
            const K kk = Conv<K>::Make(k); const V * v = t[w]->Get(kk); typename Model::const_iterator f = m[w].find(kk);
            if ((v != NULL) != (f != m[w].end())) FAIL("Get([%s]) %s, the map says otherwise (after %s): %s", Conv<K>::Show(kk).c_str(), v ? "finds it" : "finds nothing", after, g_trace.c_str());
            if ((v)&&(!(*v == f->second))) FAIL("Get([%s]) returns [%s], the map says [%s] (after %s): %s", Conv<K>::Show(kk).c_str(), Conv<V>::Show(*v).c_str(), Conv<V>::Show(f->second).c_str(), after, g_trace.c_str());
            if (t[w]->ContainsKey(kk) != (v != NULL)) FAIL("ContainsKey disagrees with Get (after %s)", after);
            const int32 idx = t[w]->IndexOfKey(kk); int32 exp = -1; for (size_t i=0; i<fk.size(); i++) if (fk[i] == kk) exp = (int32)i;
            if (idx != exp) FAIL("IndexOfKey([%s]) = %d, the iteration has it at %d (after %s): %s", Conv<K>::Show(kk).c_str(), idx, exp, after, g_trace.c_str());
         }
         if (fk.size())
         {
            if ((t[w]->GetFirstKey() == NULL)||(!(*t[w]->GetFirstKey() == fk[0]))||(t[w]->GetLastKey() == NULL)||(!(*t[w]->GetLastKey() == fk.back()))) FAIL("GetFirstKey/GetLastKey disagree with the iteration (after %s): %s", after, g_trace.c_str());
            if ((t[w]->GetFirstValue() == NULL)||(!(*t[w]->GetFirstValue() == fv[0]))||(t[w]->GetLastValue() == NULL)||(!(*t[w]->GetLastValue() == fv.back()))) FAIL("GetFirstValue/GetLastValue disagree with the iteration (after %s): %s", after, g_trace.c_str());
            const uint32 mid = (uint32)(fk.size()/2);
            if ((t[w]->GetKeyAt(mid) == NULL)||(!(*t[w]->GetKeyAt(mid) == fk[mid]))||(t[w]->GetValueAt(mid) == NULL)||(!(*t[w]->GetValueAt(mid) == fv[mid]))) FAIL("GetKeyAt/GetValueAt(%u) disagree with the iteration (after %s): %s", mid, after, g_trace.c_str());
            if (t[w]->GetKeyAt((uint32)fk.size()) != NULL) FAIL("GetKeyAt(size) is not NULL (after %s)", after);
         }
         else if ((t[w]->GetFirstKey())||(t[w]->GetLastKey())||(t[w]->GetFirstValue())||(t[w]->GetLastValue())) FAIL("an empty table reports a first/last entry (after %s)", after);
      }
      const bool eq = (m[0] == m[1]);
      if ((*t[0] == *t[1]) != eq) FAIL("operator== says %d, the maps say %d (after %s): %s", (int)!eq, (int)eq, after, g_trace.c_str());
      if (vf::Verbose()) for (int w=0; w<2; w++) {std::string line = "     t"+std::to_string(w)+(autoSort[w] ? " [auto-sort]" : " [no auto-sort]")+(sorted[w] ? " [sorted]:" : " [unsorted]:"); for (IterT i(*t[w], HTIT_FLAG_NOREGISTER); i.HasData(); i++) line += " "+Conv<K>::Show(i.GetKey())+"="+Conv<V>::Show(i.GetValue()); if (it[w]) line += std::string("   | live ")+(it[w]->back ? "backward" : "forward")+" iterator at "+(it[w]->real->HasData() ? Conv<K>::Show(it[w]->real->GetKey()) : std::string("END"))+(it[w]->loose ? " (loose)" : ""); fprintf(stderr, "%s\n", line.c_str());}
      for (int w=0; w<2; w++) if (it[w]) Observe(w, after, false);
   }

   void Go(BS & bs)
   {
      t[0] = new TableT; t[1] = new TableT; sorted[0] = sorted[1] = true; autoSort[0] = autoSort[1] = true; it[0] = it[1] = NULL;
      uint32 nops = 0;
      while((bs.done() == false)&&(nops++ < 120))
      {
         const size_t p0 = bs.pos;
         const uint8_t op = bs.u8()%30; const int w = bs.u8()&1; const int k = bs.u8()%16; const int vi = bs.u8()%8;
         const K kk = Conv<K>::Make(k); const V vv = Conv<V>::Make(vi);
         char d[160]; d[0] = 0; const char * name = "";
         switch(op)
         {
            case 0: case 1: case 2: case 3: case 4: case 5:
            {
               name = "Put"; snprintf(d, sizeof(d), "Put(t%d,%d,%d)", w, k, vi);
               typename Model::iterator f = m[w].find(kk); const bool had = (f != m[w].end()); const V old = had ? f->second : V();
               // an update re-positions the entry relative to its neighbours: it moves when its sort value changed, and may move whenever the table is not in sorted order
               Touch(w, kk, had ? &old : NULL, &vv, false, (had)&&(((BYKEY == false)&&(!(old == vv)))||(sorted[w] == false)));
               if ((autoSort[w] == false)&&((had == false)||((BYKEY == false)&&(!(old == vv))))) sorted[w] = false;
               if (t[w]->Put(kk, vv).IsError()) FAIL("Put failed");
               m[w][kk] = vv;
            }
            break;
            case 6: case 7: case 8:
            {
               name = "Remove"; snprintf(d, sizeof(d), "Remove(t%d,%d)", w, k);
               typename Model::iterator f = m[w].find(kk); const bool had = (f != m[w].end());
               if (had) {const V old = f->second; Touch(w, kk, &old, NULL, true, false);}
               V got = V(); const status_t r = (op == 8) ? t[w]->Remove(kk, got) : t[w]->Remove(kk);
               if (r.IsOK() != had) FAIL("Remove([%s]) returned %s, the map %s the key: %s", Conv<K>::Show(kk).c_str(), r(), had ? "holds" : "does not hold", g_trace.c_str());
               if ((had)&&(op == 8)&&(!(got == f->second))) FAIL("Remove returned a wrong previous value");
               if (had) m[w].erase(f);
            }
            break;
            case 9: case 10:
            {
               name = (op == 9) ? "RemoveFirst" : "RemoveLast"; snprintf(d, sizeof(d), "%s(t%d)", name, w);
               if (m[w].empty()) {if (((op == 9) ? t[w]->RemoveFirst() : t[w]->RemoveLast()).IsOK()) FAIL("%s succeeded on an empty table", name);}
               else
               {
                  const K * pk = (op == 9) ? t[w]->GetFirstKey() : t[w]->GetLastKey(); if (pk == NULL) FAIL("no first/last key on a non-empty table");
                  const K victim = *pk; const V old = m[w][victim]; Touch(w, victim, &old, NULL, true, false);
                  K rk = K(); if (((op == 9) ? t[w]->RemoveFirst(rk) : t[w]->RemoveLast(rk)).IsError()) FAIL("%s failed on a non-empty table", name);
                  if (!(rk == victim)) FAIL("%s removed [%s], the first/last key was [%s]", name, Conv<K>::Show(rk).c_str(), Conv<K>::Show(victim).c_str());
                  m[w].erase(victim);
               }
            }
            break;
            case 11:
            {
               name = "GetOrPut"; snprintf(d, sizeof(d), "GetOrPut(t%d,%d,%d)", w, k, vi);
               typename Model::iterator f = m[w].find(kk); const bool had = (f != m[w].end());
               if (had == false) {Touch(w, kk, NULL, &vv, false, false); if (autoSort[w] == false) sorted[w] = false;}
               V * p = t[w]->GetOrPut(kk, vv); if (p == NULL) FAIL("GetOrPut failed");
               if (!(*p == (had ? f->second : vv))) FAIL("GetOrPut([%s]) returned [%s], expected [%s]: %s", Conv<K>::Show(kk).c_str(), Conv<V>::Show(*p).c_str(), Conv<V>::Show(had ? f->second : vv).c_str(), g_trace.c_str());
               if (had == false) m[w][kk] = vv;
            }
            break;
            case 12:
            {
               // the documented way to change a value in place in a sorted-by-value table: modify, then Reposition()
               name = "modify+Reposition"; snprintf(d, sizeof(d), "*Get(t%d,%d)=%d;Reposition", w, k, vi);
               typename Model::iterator f = m[w].find(kk);
               if (f == m[w].end()) {if (t[w]->Reposition(kk).IsOK()) FAIL("Reposition of a missing key succeeded");}
               else {const V old = f->second; Touch(w, kk, &old, &vv, false, true); *t[w]->Get(kk) = vv; if (t[w]->Reposition(kk).IsError()) FAIL("Reposition failed"); f->second = vv;}
            }
            break;
            case 13:
            {
               name = "Clear"; const bool rel = (k&1); snprintf(d, sizeof(d), "Clear(t%d,%d)", w, (int)rel);
               for (typename Model::const_iterator i = m[w].begin(); i != m[w].end(); ++i) {const V old = i->second; Touch(w, i->first, &old, NULL, true, false);}
               Loosen(w); t[w]->Clear(rel); m[w].clear(); if (autoSort[w]) sorted[w] = true;
            }
            break;
            case 14:
            {
               name = "assign"; snprintf(d, sizeof(d), "t%d = t%d", w, 1-w);
               for (typename Model::const_iterator i = m[w].begin(); i != m[w].end(); ++i) {const V old = i->second; Touch(w, i->first, &old, NULL, true, false);}
               Loosen(w); *t[w] = *t[1-w]; m[w] = m[1-w];
               sorted[w] = true;      // CopyFrom() appends the pairs and then sorts the whole table, whatever the auto-sort setting
            }
            break;
            case 15:
            {
               name = "SwapContents"; snprintf(d, sizeof(d), "SwapContents");
               Loosen(0); Loosen(1); KillIter(0); KillIter(1);      // which table a registered iterator follows across a swap is the first target's subject
               t[0]->SwapContents(*t[1]); std::swap(m[0], m[1]); std::swap(sorted[0], sorted[1]);
               for (int x=0; x<2; x++) {autoSort[x] = t[x]->GetAutoSortEnabled(); if (autoSort[x] == false) g_unsortedPhase = true;}    // whether the setting travels with the contents is not documented: read it back
            }
            break;
            case 16:
            {
               name = "Put(table)"; snprintf(d, sizeof(d), "t%d.Put(t%d)", w, 1-w);
               for (typename Model::const_iterator i = m[1-w].begin(); i != m[1-w].end(); ++i) {typename Model::iterator f = m[w].find(i->first); const bool had = (f != m[w].end()); const V old = had ? f->second : V(); Touch(w, i->first, had ? &old : NULL, &i->second, false, had);}
               if (m[1-w].size()) {for (typename Model::const_iterator i = m[w].begin(); i != m[w].end(); ++i) Touch(w, i->first, NULL, NULL, false, true); Loosen(w); sorted[w] = true;}    // Put(table) is CopyFrom(table, false): it ends with a sort of the whole table
               if (t[w]->Put(*t[1-w]).IsError()) FAIL("Put(table) failed");
               for (typename Model::const_iterator i = m[1-w].begin(); i != m[1-w].end(); ++i) m[w][i->first] = i->second;
            }
            break;
            case 17:
            {
               name = "EnsureSize"; const uint32 n = (uint32)(k*20); const bool shrink = (vi&1); snprintf(d, sizeof(d), "EnsureSize(t%d,%u,%d)", w, n, (int)shrink);
               if (t[w]->EnsureSize(n, shrink).IsError()) FAIL("EnsureSize failed");
            }
            break;
            case 18: name = "ShrinkToFit"; snprintf(d, sizeof(d), "ShrinkToFit(t%d)", w); if (t[w]->ShrinkToFit().IsError()) FAIL("ShrinkToFit failed"); break;
            case 19:
            {
               name = "SetAutoSortEnabled"; const bool en = (k&1), now = ((k&6) != 0); snprintf(d, sizeof(d), "SetAutoSortEnabled(t%d,%d,%d)", w, (int)en, (int)now);
               if (en != autoSort[w]) {if ((en)&&(now)) {for (typename Model::const_iterator i = m[w].begin(); i != m[w].end(); ++i) Touch(w, i->first, NULL, NULL, false, true); Loosen(w); sorted[w] = true;} if (en == false) {g_unsortedPhase = true; if (it[w]) it[w]->autoSortThroughout = false;}}
               t[w]->SetAutoSortEnabled(en, now); autoSort[w] = en;
               if (t[w]->GetAutoSortEnabled() != en) FAIL("GetAutoSortEnabled does not report what was set");
            }
            break;
            case 20:
            {
               name = "Sort"; snprintf(d, sizeof(d), "Sort(t%d)", w);
               for (typename Model::const_iterator i = m[w].begin(); i != m[w].end(); ++i) Touch(w, i->first, NULL, NULL, false, true);
               Loosen(w);     // (whether an explicit Sort() of equal entries keeps their order is not documented: a live traversal is not judged across it)
               t[w]->Sort(); sorted[w] = true;
            }
            break;
            case 21: case 22: case 23: name = "iter-start"; snprintf(d, sizeof(d), "iter(t%d,%s%s)", w, (vi&1) ? "backward" : "forward", (op == 23) ? ",at-key" : ""); StartIter(w, (vi&1) != 0, k, (op == 23)&&(m[w].count(kk) != 0)); break;
            case 24: case 25: case 26: case 27: name = "iter++"; snprintf(d, sizeof(d), "iter%d++", w); if (it[w]) Advance(w); break;
            case 28:
            {
               name = "bulk"; const int n = 4+vi*3; snprintf(d, sizeof(d), "bulk(t%d,%d from %d)", w, n, k);
               for (int j=0; j<n; j++) {const int kj = (k+j*7)%16; const K kkj = Conv<K>::Make(kj); const V vj = Conv<V>::Make((vi+j)%8); typename Model::iterator f = m[w].find(kkj); const bool had = (f != m[w].end()); const V old = had ? f->second : V(); Touch(w, kkj, had ? &old : NULL, &vj, false, (had)&&(((BYKEY == false)&&(!(old == vj)))||(sorted[w] == false))); if ((autoSort[w] == false)&&((had == false)||((BYKEY == false)&&(!(old == vj))))) sorted[w] = false; if (t[w]->Put(kkj, vj).IsError()) FAIL("Put failed"); m[w][kkj] = vj;}
            }
            break;
            default:
            {
               name = "copy-construct"; snprintf(d, sizeof(d), "t%d = TableT(t%d)", w, 1-w);
               for (typename Model::const_iterator i = m[w].begin(); i != m[w].end(); ++i) {const V old = i->second; Touch(w, i->first, &old, NULL, true, false);}
               KillIter(w); TableT * fresh = new TableT(*t[1-w]); delete t[w]; t[w] = fresh; m[w] = m[1-w]; autoSort[w] = true; sorted[w] = true;   // a fresh table auto-sorts what it copies
            }
            break;
         }
         if (g_wantTrace || vf::Verbose()) {if (g_trace.size() < 1500) {g_trace += d; g_trace += "; ";}} else if (g_trace.size() < 600) {g_trace += d; g_trace += "; ";}
         if (vf::Verbose()) fprintf(stderr, "  %s\n", d);
         g_hash = vf::Hash64(bs.p+p0, bs.pos-p0, g_hash);
         CheckAll(d); (void) name;
      }
      KillIter(0); KillIter(1); delete t[0]; delete t[1];
   }
};

// String keys on the plain Hashtable: insertion order, exact list model (basic operations; the first target covers the rest with int keys)
static void RunStringKeys(BS & bs)
{
   typedef Hashtable<String,int,CollidingStringHash> HT; HT t; std::vector<std::pair<String,int> > l;
   uint32 nops = 0;
   while((bs.done() == false)&&(nops++ < 100))
   {
      const size_t p0 = bs.pos; const uint8_t op = bs.u8()%8; const int k = bs.u8()%16; const int v = bs.u8()%8; const String kk = SK(k);
      size_t at = l.size(); for (size_t i=0; i<l.size(); i++) if (l[i].first == kk) at = i;
      char d[100];
      switch(op)
      {
         case 0: case 1: case 2: snprintf(d, sizeof(d), "Put(%d,%d)", k, v); if (t.Put(kk, v).IsError()) FAIL("Put failed"); if (at < l.size()) l[at].second = v; else l.push_back(std::make_pair(kk, v)); break;
         case 3: snprintf(d, sizeof(d), "Remove(%d)", k); if (t.Remove(kk).IsOK() != (at < l.size())) FAIL("Remove(String key) status disagrees with the model: %s", g_trace.c_str()); if (at < l.size()) l.erase(l.begin()+at); break;
         case 4: snprintf(d, sizeof(d), "MoveToFront(%d)", k); if (t.MoveToFront(kk).IsOK() != (at < l.size())) FAIL("MoveToFront status"); if (at < l.size()) {std::pair<String,int> e = l[at]; l.erase(l.begin()+at); l.insert(l.begin(), e);} break;
         case 5: snprintf(d, sizeof(d), "MoveToBack(%d)", k); if (t.MoveToBack(kk).IsOK() != (at < l.size())) FAIL("MoveToBack status"); if (at < l.size()) {std::pair<String,int> e = l[at]; l.erase(l.begin()+at); l.push_back(e);} break;
         case 6: snprintf(d, sizeof(d), "SortByKey"); t.SortByKey(); std::stable_sort(l.begin(), l.end(), [](const std::pair<String,int> & a, const std::pair<String,int> & b){return a.first < b.first;}); break;
         default: snprintf(d, sizeof(d), "PutAtFront(%d,%d)", k, v); if (t.PutAtFront(kk, v).IsError()) FAIL("PutAtFront failed"); if (at < l.size()) l.erase(l.begin()+at); l.insert(l.begin(), std::make_pair(kk, v)); break;
      }
      if (g_trace.size() < 900) {g_trace += d; g_trace += "; ";}
      g_hash = vf::Hash64(bs.p+p0, bs.pos-p0, g_hash);
      if (t.GetNumItems() != l.size()) FAIL("String-keyed table holds %u items, the model %zu: %s", t.GetNumItems(), l.size(), g_trace.c_str());
      size_t i = 0; for (HashtableIterator<String,int,CollidingStringHash> it(t, HTIT_FLAG_NOREGISTER); it.HasData(); it++, i++) if ((i >= l.size())||(!(it.GetKey() == l[i].first))||(it.GetValue() != l[i].second)) FAIL("String-keyed table iterates differently from the model at position %zu after %s: %s", i, d, g_trace.c_str());
      for (int q=0; q<16; q++) {const String qq = SK(q); const int * g = t.Get(qq); bool has = false; int mv = 0; for (size_t j=0; j<l.size(); j++) if (l[j].first == qq) {has = true; mv = l[j].second;} if ((g != NULL) != has) FAIL("Get(String key) presence disagrees with the model: %s", g_trace.c_str()); if ((g)&&(*g != mv)) FAIL("Get(String key) value disagrees with the model");}
   }
   if (nops >= 10) g_mutWithIter = true;   // (no live iterators here; the flavour has its own non-triviality rule below)
}

extern "C" int vf_run_case(const uint8_t * data, size_t size)
{
   static CompleteSetupSystem * css = NULL; if (css == NULL) css = new CompleteSetupSystem;
   if (size < 8) return 0;
   BS bs(data, size);
   g_trace.clear(); g_wantTrace = vf::WantSample(); g_hash = 5; g_mutWithIter = g_traversalCompleted = g_unsortedPhase = g_tieSeen = false;
   const uint8_t flavour = bs.u8()%8;
   const char * fname;
   if (flavour <= 2)      {fname = "OrderedKeysHashtable<int,int>";       Run<int,int,OrderedKeysHashtable<int,int,CompareFunctor<int>,CollidingIntHash>, HashtableIterator<int,int,CollidingIntHash>, true> r; r.Go(bs);}
   else if (flavour <= 5) {fname = "OrderedValuesHashtable<int,int>";     Run<int,int,OrderedValuesHashtable<int,int,CompareFunctor<int>,CollidingIntHash>, HashtableIterator<int,int,CollidingIntHash>, false> r; r.Go(bs);}
   else if (flavour == 6) {fname = "OrderedKeysHashtable<String,String>"; Run<String,String,OrderedKeysHashtable<String,String,CompareFunctor<String>,CollidingStringHash>, HashtableIterator<String,String,CollidingStringHash>, true> r; r.Go(bs);}
   else                   {fname = "Hashtable<String,int>";               RunStringKeys(bs);}
   g_hash = vf::HashMix(g_hash, flavour);
   vf::Count((std::string("flavour_")+fname).c_str());
   if (g_traversalCompleted) vf::Count("case_live_traversal_completed_and_judged"); if (g_unsortedPhase) vf::Count("case_with_auto_sort_switched_off"); if (g_tieSeen) vf::Count("case_sorted_by_value_with_equal_values");
   if (g_mutWithIter) {vf::Count("case_mutation_with_live_iterator"); vf::NonTrivial(g_hash); if (vf::WantSample()) vf::Sample(std::string(fname)+": "+g_trace);}
   return 0;
}
