// C19: muscle::ThreadPool under the harness-owned scheduler.  Pool sizes 1-3, 1-4 clients, 1-3
// submitting threads; generated scripts of submissions, unregistration (from a non-pool thread),
// re-registration, pool destruction.  Handlers log (client, message, enter/exit) and yield inside.
// Oracle: per client exactly-once, in order, never two activations at once, at most pool-size
// activations globally, everything handled when unregister returns, no deadlock, shutdown returns.
#include "sched/sched.h"
#include "system/ThreadPool.h"
#include "util/ObjectPool.h"
#include "system/SetupSystem.h"
#include "syslog/SysLog.h"
#include "util/NetworkUtilityFunctions.h"

using namespace muscle;
const char * vf_harness_name = "c19_threadpool";

struct Log
{
   int active[4]; int sent[4]; bool switching[4]; int followUps[4]; int followUpsSent; volatile bool shutdownBegun; volatile int unregisteringWithBacklog; int globalActive; int maxGlobal; std::vector<int> handled[4]; bool submissionBetweenLastAndFinish; int poolSize; std::string desc; vsched::Scheduler * sc; uint8_t yields;
   Log() : globalActive(0), maxGlobal(0), submissionBetweenLastAndFinish(false), poolSize(0), sc(NULL), yields(1) {for (int i=0; i<4; i++) {active[i] = 0; sent[i] = 0; switching[i] = false; followUps[i] = 0;} followUpsSent = 0; shutdownBegun = false; unregisteringWithBacklog = 0;}
};
static Log * g_log = NULL;

class Client;
static Client * g_clients[4] = {NULL, NULL, NULL, NULL};
class Client : public IThreadPoolClient
{
public:
   Client(int id) : IThreadPoolClient(NULL), _id(id) {}
protected:
   virtual void MessageReceivedFromThreadPool(const MessageRef & msg, uint32)
   {
      Log & l = *g_log;
      if (l.active[_id]++ != 0) vf::Fail("two handler activations of client %d overlap (%s)", _id, l.desc.c_str());
      if (++l.globalActive > l.maxGlobal) l.maxGlobal = l.globalActive;
      if (l.globalActive > l.poolSize) vf::Fail("%d handlers active at once with a pool of %d threads (%s)", l.globalActive, l.poolSize, l.desc.c_str());
      {const uint64_t until = l.sc->Switches()+(uint64_t)l.yields*40; do {l.sc->YieldNow();} while(l.sc->Switches() < until);}   // the handler takes a while (0, 40, 80 or 120 context switches): other threads get to run inside it
      l.handled[_id].push_back((int)msg()->what);
      // follow-up work: while the client's owner is busy moving it to another pool (and therefore submits nothing itself), the handler hands the pool the next Message
      if ((l.switching[_id])&&(l.followUps[_id] > 0))
      {
         l.followUps[_id]--;
         MessageRef m = GetMessageFromPool((uint32)(_id*1000+l.sent[_id]));
         if (SendMessageToThreadPool(m).IsError()) vf::Fail("a handler's follow-up SendMessageToThreadPool failed while its client was being moved to another pool (%s)", l.desc.c_str());
         l.sent[_id]++; l.followUpsSent++;
      }
      l.sc->YieldNow();
      l.active[_id]--; l.globalActive--;
   }
private:
   int _id;
};

extern "C" int vf_run_case(const uint8_t * data, size_t size)
{
   static CompleteSetupSystem * css = NULL; if (css == NULL) {css = new CompleteSetupSystem; SetConsoleLogLevel(MUSCLE_LOG_NONE); ConstSocketRef wa, wb; (void) CreateConnectedSocketPair(wa, wb);   /* runs the function-local static initialisers of the socket pool now: with two pools, two logical threads could otherwise meet in one of them, which blocks in the C++ runtime where the scheduler cannot see it */}
   if (size < 6) return 0;
   vf::BS bs(data, size);
   const int P = 1+bs.u8()%3, NC = 1+bs.u8()%4; int NS = 1+bs.u8()%3; if (NS > NC) NS = NC;
   Log log; g_log = &log; log.poolSize = P; const uint8_t yb = bs.u8(); log.yields = (uint8_t)(yb%4); const bool earlyShutdown = ((yb>>2)%4 == 0); const bool midShutdown = ((yb>>2)%4 == 1);     /* midShutdown: the pool is shut down (Shutdown(), the pool object stays) while submitters are still at work, as soon as one of them is waiting in an unregistration with Messages outstanding */ const bool twoPools = (((yb>>4)&1) != 0)&&(midShutdown == false); const int P2 = 1+(yb>>5)%3; if (twoPools) log.poolSize = P+P2;     // earlyShutdown: the pool is destroyed with clients still registered and Messages possibly pending or being handled
   // per-submitter script: ops = (client, kind) with kind 0..5 send, 6 unregister+verify+re-register
   std::vector<std::vector<uint8_t> > scripts(NS); for (int s=0; s<NS; s++) {const uint32 n = 1+bs.u8()%10; for (uint32 i=0; i<n; i++) scripts[s].push_back(bs.u8());}
   char desc[160]; if (twoPools) snprintf(desc, sizeof(desc), "pools of %d and %d, %d client(s), %d submitting thread(s), handlers last %u context switches", P, P2, NC, NS, log.yields*40u); else snprintf(desc, sizeof(desc), "pool of %d, %d client(s), %d submitting thread(s), handlers last %u context switches", P, NC, NS, log.yields*40u); log.desc = desc;
   if (vf::Verbose()) fprintf(stderr, "config: %s\n", desc);

   vsched::ByteSource src(bs, (uint8_t)(bs.flip() ? 0x80 : 0xC0)); vsched::Scheduler sc(src); sc.SetContext(desc); log.sc = &sc;
   ThreadPool * pool = NULL; ThreadPool * pool2 = NULL; ThreadPool * curPool[4] = {NULL, NULL, NULL, NULL}; uint32 switches = 0; bool sawSwitchWithBacklog = false, shutdownWhileUnregistering = false; Client * clients[4] = {NULL, NULL, NULL, NULL};
   volatile bool go = false; volatile int doneCount = 0; uint32 totalSubmitted = 0, unregisters = 0; bool sawUnregisterWithBacklog = false; size_t handledAtShutdown[4] = {0, 0, 0, 0};

   sc.Spawn([&]{   // main logical thread: owns the pool
      pool = new ThreadPool((uint32)P); if (twoPools) pool2 = new ThreadPool((uint32)P2);
      for (int c=0; c<NC; c++) {clients[c] = new Client(c); clients[c]->SetThreadPool(pool); curPool[c] = pool;}
      go = true;
      if (midShutdown)
      {
         sc.WaitUntil([&]{return (log.unregisteringWithBacklog > 0)||(doneCount == NS);}, "a submitter to wait in an unregistration (or all of them to finish)");
         if (log.unregisteringWithBacklog > 0) shutdownWhileUnregistering = true;
         log.shutdownBegun = true; AbstractObjectRecycler::GlobalFlushAllCachedObjects();      // the public way to it: flushing every recycler of the process calls the Shutdown() of every ThreadPool (and drains the object pools).  It must return; from here on the pool takes no more work and what was pending is dropped
         if (log.globalActive != 0) vf::Fail("%d handler(s) still running after the pool's Shutdown() returned (%s)", log.globalActive, desc);
      }
      sc.WaitUntil([&]{return doneCount == NS;}, "submitters to finish");
      if (earlyShutdown)
      {
         // the pool goes first: its shutdown must return (the scheduler reports a deadlock otherwise), must leave no handler running, and what was handled up to
         // then is an in-order, duplicate-free prefix of what each client submitted; Messages still pending are dropped with the pool
         delete pool; pool = NULL; delete pool2; pool2 = NULL;
         if (log.globalActive != 0) vf::Fail("%d handler(s) still running after the pool's destructor returned (%s)", log.globalActive, desc);
         for (int c=0; c<NC; c++) {handledAtShutdown[c] = log.handled[c].size(); for (size_t k=0; k<log.handled[c].size(); k++) if (log.handled[c][k] != c*1000+(int)k) vf::Fail("client %d: Message %zu handled out of order or twice before the pool was shut down (got #%d) (%s)", c, k, log.handled[c][k]-c*1000, desc);}
         for (int c=0; c<NC; c++) delete clients[c];   // the pool's shutdown un-registered them
      }
      else
      {
         for (int c=0; c<NC; c++) delete clients[c];      // all unregistered by their submitters
         delete pool; delete pool2;                       // shutdown: must return
      }
   });
   for (int s=0; s<NS; s++) sc.Spawn([&, s]{
      sc.WaitUntil([&]{return go == true;}, "pool to be created");
      int * sent = log.sent; int base[4] = {0, 0, 0, 0};   // base: first sequence number of the current registration period
      std::vector<int> mine; for (int c=s; c<NC; c+=NS) mine.push_back(c);
      for (size_t i=0; i<=scripts[s].size(); i++)
      {
         bool tail = (i == scripts[s].size());
         if ((tail == false)&&(log.shutdownBegun)) {i = scripts[s].size(); tail = true;}      // the pool has been shut down: nothing more is submitted, the clients are taken off it
         const uint8_t b = tail ? 0 : scripts[s][i]; const int c = mine[(b>>3)%mine.size()]; const uint8_t kind = b%8;
         if ((tail == false)&&(kind == 7)&&(twoPools))
         {
            // move the client straight to the other pool (from this non-pool thread): that un-registers it from the pool it is in, which is documented to return only after
            // everything submitted has been handled; the client's handler may hand in follow-up work in the meantime
            ThreadPool * to = (curPool[c] == pool) ? pool2 : pool; const int sentBefore = sent[c];
            if ((int)log.handled[c].size() < sent[c]) sawSwitchWithBacklog = true;
            log.followUps[c] = (b>>6)%3; log.switching[c] = true;
            clients[c]->SetThreadPool(to); switches++;
            log.switching[c] = false; curPool[c] = to;
            if ((int)log.handled[c].size() < sentBefore) vf::Fail("moving client %d to another pool returned with %zu of the %d Messages submitted before it handled (%s)", c, log.handled[c].size(), sentBefore, desc);
            if (log.active[c] != 0) vf::Fail("a handler of client %d is still running in the old pool after the move to another pool returned (%s)", c, desc);
            for (size_t k=0; k<log.handled[c].size(); k++) if (log.handled[c][k] != c*1000+(int)k) vf::Fail("client %d: Message %zu handled out of order or twice around a move to another pool (got #%d) (%s)", c, k, log.handled[c][k]-c*1000, desc);
         }
         else if ((tail == false)&&(kind <= 5))
         {
            if ((log.active[c] == 0)&&(log.handled[c].size() < (size_t)sent[c])) {/* queued, not being handled */}
            MessageRef m = GetMessageFromPool((uint32)(c*1000+sent[c]));
            if (clients[c]->SendMessageToThreadPool(m).IsError()) {if (log.shutdownBegun == false) vf::Fail("SendMessageToThreadPool failed (%s)", desc); continue;}     // (refused by a pool that is shutting down)
            sent[c]++; totalSubmitted++;
         }
         else
         {
            // unregister (from this non-pool thread): documented to return only after every submitted Message has been handled
            if ((tail)&&(earlyShutdown)) break;      // these clients stay registered: the pool is destroyed under them
            for (size_t q=0; q<mine.size(); q++)
            {
               const int cc = tail ? mine[q] : c; if ((tail == false)&&(q > 0)) break;
               const bool backlog = ((int)log.handled[cc].size() < sent[cc]); if (backlog) {sawUnregisterWithBacklog = true; log.unregisteringWithBacklog = log.unregisteringWithBacklog+1;}
               clients[cc]->SetThreadPool(NULL); unregisters++;
               if (backlog) log.unregisteringWithBacklog = log.unregisteringWithBacklog-1;
               if (log.shutdownBegun)
               {
                  // the pool was shut down under this unregistration: what was still pending is dropped with it, but no handler of this client may be running now, and what was handled is an in-order prefix
                  if (log.active[cc] != 0) vf::Fail("a handler of client %d is still running after its unregistration returned during the pool's shutdown (%s)", cc, desc);
                  for (size_t k=0; k<log.handled[cc].size(); k++) if (log.handled[cc][k] != cc*1000+(int)k) vf::Fail("client %d: Message %zu handled out of order or twice before the shutdown (got #%d) (%s)", cc, k, log.handled[cc][k]-cc*1000, desc);
                  continue;
               }
               if ((int)log.handled[cc].size() != sent[cc]) vf::Fail("UnregisterClient returned with %zu of %d submitted Messages of client %d handled (%s)", log.handled[cc].size(), sent[cc], cc, desc);
               if (log.active[cc] != 0) vf::Fail("a handler of client %d is still running after unregistration returned (%s)", cc, desc);
               for (size_t k=0; k<log.handled[cc].size(); k++) if (log.handled[cc][k] != cc*1000+(int)k) vf::Fail("client %d: Message %zu handled out of order or twice (got #%d) (%s)", cc, k, log.handled[cc][k]-cc*1000, desc);
               if ((tail == false)&&(log.shutdownBegun == false)) {clients[cc]->SetThreadPool(curPool[cc]);}    // register again and carry on
            }
         }
      }
      (void) base;
      doneCount = doneCount+1;
   });
   sc.Run();
   g_log = NULL;
   uint32 handledTotal = 0; for (int c=0; c<4; c++) handledTotal += (uint32) log.handled[c].size();
   totalSubmitted += (uint32) log.followUpsSent;
   if (midShutdown) {if (handledTotal > totalSubmitted) vf::Fail("%u Messages submitted, %u handled (%s)", totalSubmitted, handledTotal, desc); vf::Count("case_pool_shut_down_while_submitters_at_work"); if (shutdownWhileUnregistering) vf::Count("case_pool_shut_down_under_a_waiting_unregistration");}
   else if ((earlyShutdown == false)&&(handledTotal != totalSubmitted)) vf::Fail("%u Messages submitted, %u handled (%s)", totalSubmitted, handledTotal, desc);
   if (earlyShutdown) {for (int c=0; c<NC; c++) if (log.handled[c].size() != handledAtShutdown[c]) vf::Fail("client %d: a Message was handled after the pool's destructor had returned (%s)", c, desc); vf::Count("case_pool_destroyed_with_clients_registered"); if (handledTotal < totalSubmitted) vf::Count("case_pool_destroyed_with_messages_pending");}

   vf::Count("context_switches", sc.Switches()); vf::Count("preemptions", sc.Preemptions()); vf::Count("messages_handled", handledTotal); vf::Count("unregistrations_checked", unregisters);
   if (log.maxGlobal >= 2) vf::Count("case_handlers_ran_in_parallel"); if (NC > P) vf::Count("case_more_clients_than_pool_threads"); if (sawUnregisterWithBacklog) vf::Count("case_unregister_with_messages_outstanding"); if (sawSwitchWithBacklog) vf::Count("case_client_moved_to_another_pool_with_messages_outstanding"); if (log.followUpsSent) vf::Count("case_handler_submitted_follow_up_during_a_pool_move"); vf::Count("pool_moves_checked", switches);
   const bool nontrivial = (sawUnregisterWithBacklog)||(sawSwitchWithBacklog)||(shutdownWhileUnregistering)||((log.maxGlobal >= 2)&&(sc.Preemptions() >= 1))||((earlyShutdown)&&(handledTotal < totalSubmitted));
   if (nontrivial) {uint64_t h = vf::HashStr(desc); for (size_t i=0; i<src.trace.size(); i++) h = vf::HashMix(h, src.trace[i]); for (int s=0; s<NS; s++) h = vf::Hash64(scripts[s].data(), scripts[s].size(), h); vf::NonTrivial(h); if (vf::WantSample()) vf::Sample(std::string(desc)+" | "+std::to_string(totalSubmitted)+" Messages, "+std::to_string(unregisters)+" unregistrations, max "+std::to_string(log.maxGlobal)+" handlers at once, "+std::to_string(sc.Switches())+" switches");}
   return 0;
}
