// C08: the C++ flattened bytes are the documented layout (reference encoder), and the C mini and
// micro codecs parse them to the same content (walk against the model) and re-serialise / rebuild
// them to the same bytes; the 8-byte stream frame is identical across the C++ and C gateways.
// Python-safe cases are also written to a batch file for the Python peer (py/c08_peer.py).
#include "models/refmsg.h"
#include "models/cbuild.h"
#include "transport/choppy.h"
#include "iogateway/MessageIOGateway.h"
#include "dataio/DataIO.h"
#include "system/SetupSystem.h"
#include "syslog/SysLog.h"
#include "lang/c/minimessage/MiniMessageGateway.h"
#include "lang/c/micromessage/MicroMessageGateway.h"
#include <unistd.h>

using namespace muscle;
using namespace refmsg;
const char * vf_harness_name = "c08_wire";

class CaptureIO : public DataIO
{
public:
   std::string out;
   virtual io_status_t Read(void *, uint32) {return io_status_t((int32)0);}
   virtual io_status_t Write(const void * b, uint32 n) {out.append((const char *)b, n); return io_status_t((int32)n);}
   virtual void FlushOutput() {} virtual void Shutdown() {}
   virtual const ConstSocketRef & GetReadSelectSocket() const {return GetNullSocket();}
   virtual const ConstSocketRef & GetWriteSelectSocket() const {return GetNullSocket();}
};
static int32 CapSend(const uint8 * buf, uint32 n, void * arg) {((std::string *)arg)->append((const char *)buf, n); return (int32) n;}

static FILE * g_emit = NULL; static uint32 g_emitted = 0;

extern "C" int vf_run_case(const uint8_t * data, size_t size)
{
   static CompleteSetupSystem * css = NULL;
   if (css == NULL)
   {
      css = new CompleteSetupSystem; SetConsoleLogLevel(MUSCLE_LOG_NONE);
      const char * d = getenv("VERIF_C08_EMIT"); if (d) {char p[512]; snprintf(p, sizeof(p), "%s/%d.batch", d, (int)getpid()); g_emit = fopen(p, "wb");}
   }
   if (size < 2) return 0;
   vf::BS bs(data, size);
   GenOpts o; o.commonRepertoire = true; o.allowNonFlattenable = false; o.pythonSafe = bs.flip(); o.maxDepth = 3; o.maxTopOps = 14; const uint8_t cfg = bs.u8(); o.allowBursts = (cfg%6 == 0); o.allowZeroLenRaw = ((cfg>>3)%4 == 0);
   Generator gen(bs, o); Message msg; MMsg mod; gen.Gen(0, msg, mod);
   const GenStats & st = gen.st;
   if (((cfg>>5)%8 == 7)&&(mod.find("pad") < 0))
   {
      // a Message whose flattened size is on or next to the 2048-byte scratch receive buffer of the C++ gateway (2030..2069 bytes): every implementation must still produce and accept it
      const size_t flat0 = Encode(mod).size(); const size_t target = 2030+(bs.u8()%40);
      if (flat0+25 <= target) {const size_t L = target-flat0-24; std::string v(L, '\0'); uint32 x = 99u+(uint32)L; for (size_t i=0; i<L; i++) {x = x*1664525u+1013904223u; v[i] = (char)(x>>24);} (void) msg.AddData("pad", B_RAW_TYPE, v.data(), (uint32)L); MField f; f.name = "pad"; f.tc = B_RAW_TYPE; f.items.push_back(v); mod.f.push_back(f); vf::Count("message_sized_to_the_scratch_buffer_boundary");}
   }

   // C++ bytes are the documented layout
   const uint32 fs = msg.FlattenedSize(); std::string b(fs, '\0'); msg.FlattenToBytes((uint8 *)&b[0], fs);
   const std::string ref = Encode(mod);
   if (b != ref) {size_t d = 0; while((d < b.size())&&(d < ref.size())&&(b[d] == ref[d])) d++; vf::Fail("C++ bytes differ from the documented layout at offset %zu (sizes %zu vs %zu) for %s", d, b.size(), ref.size(), Summary(mod).c_str());}

   // --- MiniMessage: parse, walk, re-serialise
   {
      MMessage * mm = MMAllocMessage(0);
      if (MMUnflattenMessage(mm, b.data(), fs) != CB_NO_ERROR) vf::Fail("MiniMessage rejects the C++ bytes of %s", Summary(mod).c_str());
      cbuild::WalkMM(mm, mod, "mini parse");
      if (MMGetFlattenedSize(mm) != fs) vf::Fail("MMGetFlattenedSize %u, C++ %u for %s", MMGetFlattenedSize(mm), fs, Summary(mod).c_str());
      std::string o2(fs, '\0'); MMFlattenMessage(mm, &o2[0]); if (o2 != b) vf::Fail("MiniMessage re-serialises %s to different bytes", Summary(mod).c_str());
      MMFreeMessage(mm);
   }
   // --- MiniMessage: build from the model, C++ must accept it
   {
      MMessage * mm = cbuild::BuildMM(mod); if (mm == NULL) vf::Fail("MiniMessage cannot build %s", Summary(mod).c_str());
      const uint32 s2 = MMGetFlattenedSize(mm); std::string o2(s2, '\0'); MMFlattenMessage(mm, &o2[0]); MMFreeMessage(mm);
      if (o2 != b) {size_t d = 0; while((d < b.size())&&(d < o2.size())&&(b[d] == o2[d])) d++; vf::Fail("a MiniMessage built from the same content flattens differently from C++ at offset %zu (sizes %zu vs %zu) for %s", d, o2.size(), b.size(), Summary(mod).c_str());}
      Message back; if (back.UnflattenFromBytes((const uint8 *)o2.data(), s2).IsError()) vf::Fail("C++ rejects bytes produced by MiniMessage"); Walk(back, mod, true, "C++ parse of mini bytes");
   }
   // --- MicroMessage: read-side walk
   {
      UMessage um; if (UMInitializeWithExistingData(&um, (const uint8 *)b.data(), fs) != CB_NO_ERROR) vf::Fail("MicroMessage rejects the C++ bytes of %s: %s", Summary(mod).c_str(), vf::Hex(b.data(), b.size(), 200).c_str());
      cbuild::WalkUM(&um, mod, "micro parse");
      if (UMGetFlattenedSize(&um) != fs) vf::Fail("UMGetFlattenedSize differs");
      if (UMGetNumFields(&um) != mod.f.size()) vf::Fail("UMGetNumFields %u, model %zu", UMGetNumFields(&um), mod.f.size());
   }
   // --- MicroMessage: build in place
   bool microBuilt = false;
   {
      std::vector<uint8> buf(fs+64); UMessage um;
      if (UMInitializeToEmptyMessage(&um, &buf[0], (uint32)buf.size(), mod.what) != CB_NO_ERROR) vf::Fail("UMInitializeToEmptyMessage failed");
      if (cbuild::BuildUM(&um, mod))
      {
         microBuilt = true;
         const std::string o2((const char *)UMGetFlattenedBuffer(&um), UMGetFlattenedSize(&um));
         if (o2 != b) {size_t d = 0; while((d < b.size())&&(d < o2.size())&&(b[d] == o2[d])) d++; vf::Fail("a MicroMessage built from the same content differs from the C++ bytes at offset %zu (sizes %zu vs %zu) for %s", d, o2.size(), b.size(), Summary(mod).c_str());}
         Message back; if (back.UnflattenFromBytes((const uint8 *)o2.data(), (uint32)o2.size()).IsError()) vf::Fail("C++ rejects bytes produced by MicroMessage"); Walk(back, mod, true, "C++ parse of micro bytes");
      }
      else vf::Count("micro_build_refused");   // e.g. a second field with the same name is not supported by the in-place builder
   }
   // --- the 8-byte frame
   {
      std::string frame(8, 0);
      for (int i=0; i<4; i++) {frame[i] = (char)(fs>>(8*i)); frame[4+i] = (char)(1164862256u>>(8*i));}
      const std::string expect = frame+b;
      MessageIOGateway gw; CaptureIO cap; gw.SetDataIO(DummyDataIORef(cap)); (void) gw.AddOutgoingMessage(GetMessageFromPool(msg)); for (int r=0; (r<100)&&(gw.HasBytesToOutput()); r++) (void) gw.DoOutput();
      if (cap.out != expect) vf::Fail("MessageIOGateway (Enc0) frame differs from <len LE><'Enc0' LE><bytes>: %s", vf::Hex(cap.out.data(), cap.out.size(), 24).c_str());
      // ... and a C++ gateway on the receiving end of that frame (read in two pieces) delivers the same Message
      {
         choppy::Pipe fpipe; for (size_t i=0; i<expect.size(); i++) fpipe.q.push_back((uint8)expect[i]); choppy::Plan plan(&bs); plan.generous = true; choppy::ChopIO rio(&fpipe, NULL, &plan);
         MessageIOGateway rg; rg.SetDataIO(DummyDataIORef(rio)); QueueGatewayMessageReceiver q; for (int r=0; (r<50)&&(fpipe.q.size()); r++) if (rg.DoInput(q).IsError()) vf::Fail("a C++ MessageIOGateway reports an error on the frame of a %u-byte Message that the other gateways produce identically", fs);
         MessageRef got; if ((q.GetMessages().RemoveHead(got).IsError())||(got() == NULL)) vf::Fail("a C++ MessageIOGateway does not deliver the %u-byte Message from its own frame", fs);
         ByteBufferRef gb = got()->FlattenToByteBuffer(); if ((gb() == NULL)||(gb()->GetNumBytes() != fs)||(memcmp(gb()->GetBuffer(), b.data(), fs) != 0)) vf::Fail("the Message a C++ MessageIOGateway delivers from the common frame differs from the one that was framed (%u bytes)", fs);
      }
      MMessageGateway * mg = MGAllocMessageGateway(); MMessage * mm = MMAllocMessage(0); (void) MMUnflattenMessage(mm, b.data(), fs); std::string o2;
      if (MGAddOutgoingMessage(mg, mm) != CB_NO_ERROR) vf::Fail("MGAddOutgoingMessage failed"); for (int r=0; (r<100)&&(MGHasBytesToOutput(mg)); r++) (void) MGDoOutput(mg, ~0u, CapSend, &o2);
      MMFreeMessage(mm); MGFreeMessageGateway(mg);
      if (o2 != expect) vf::Fail("mini gateway frame differs from the C++ gateway's: %s vs %s", vf::Hex(o2.data(), o2.size(), 24).c_str(), vf::Hex(expect.data(), expect.size(), 24).c_str());
      if (microBuilt)
      {
         std::vector<uint8> inb(64), outb(fs+128); UMessageGateway ug; UGGatewayInitialize(&ug, &inb[0], (uint32)inb.size(), &outb[0], (uint32)outb.size());
         UMessage um = UGGetOutgoingMessage(&ug, mod.what);
         if ((UMIsMessageValid(&um))&&(cbuild::BuildUM(&um, mod))) {UGOutgoingMessagePrepared(&ug, &um); std::string o3; for (int r=0; (r<100)&&(UGHasBytesToOutput(&ug)); r++) (void) UGDoOutput(&ug, ~0u, CapSend, &o3); if (o3 != expect) vf::Fail("micro gateway frame differs from the C++ gateway's: %s vs %s", vf::Hex(o3.data(), o3.size(), 24).c_str(), vf::Hex(expect.data(), expect.size(), 24).c_str());}
      }
   }
   // --- the micro gateway's frame *stream*: the same Message queued several times into a small output buffer that a slow transport drains a few bytes per call
   //     (so frames are partly sent, the buffer is compacted and refilled); the bytes on the wire must be the C++ gateway's frames, back to back
   if ((microBuilt)&&(fs <= 1500))
   {
      std::string frame(8, 0); for (int i=0; i<4; i++) {frame[i] = (char)(fs>>(8*i)); frame[4+i] = (char)(1164862256u>>(8*i));}
      const std::string one = frame+b;
      const uint32 B = (uint32)(2*one.size()+8+(cfg&31)); std::vector<uint8> inb(64), outb(B); UMessageGateway ug; UGGatewayInitialize(&ug, &inb[0], (uint32)inb.size(), &outb[0], B);
      const uint32 perCall = 1+((uint32)(cfg>>2)*7u)%(uint32)(one.size()+3); std::string wire; uint32 queued = 0, refused = 0; const uint32 want = 5;
      for (int r=0; (r<100000)&&((queued < want)||(UGHasBytesToOutput(&ug))); r++)
      {
         if (queued < want)
         {
            UMessage um = UGGetOutgoingMessage(&ug, mod.what);
            if (UMIsMessageValid(&um)) {if (cbuild::BuildUM(&um, mod)) {UGOutgoingMessagePrepared(&ug, &um); queued++;} else {UGOutgoingMessageCancelled(&ug, &um); refused++;}}     // (no room for the whole Message yet: cancel and drain some more)
         }
         if (UGDoOutput(&ug, perCall, CapSend, &wire) < 0) vf::Fail("UGDoOutput reported an error");
         if (r == 99999) vf::Fail("micro gateway never finished sending %u queued frames", queued);
      }
      std::string expectStream; for (uint32 i=0; i<queued; i++) expectStream += one;
      if (wire != expectStream) {size_t d = 0; while((d < wire.size())&&(d < expectStream.size())&&(wire[d] == expectStream[d])) d++; vf::Fail("micro gateway frame stream (%u frames of %zu bytes through a %u-byte output buffer, %u bytes per send call) differs from the C++ gateway's frames at offset %zu (sizes %zu vs %zu)", queued, one.size(), B, perCall, d, wire.size(), expectStream.size());}
      vf::Count("micro_gateway_frame_streams_checked"); if (refused) vf::Count("micro_gateway_stream_with_buffer_full_episodes");
   }
   // --- batch for the Python peer
   if ((g_emit)&&(o.pythonSafe)&&(g_emitted < 6000))
   {
      std::string dump; cbuild::Dump(mod, dump);
      const uint32 l1 = fs, l2 = (uint32) dump.size();
      fwrite(&l1, 4, 1, g_emit); fwrite(b.data(), 1, fs, g_emit); fwrite(&l2, 4, 1, g_emit); fwrite(dump.data(), 1, dump.size(), g_emit); fflush(g_emit);
      g_emitted++; vf::Count("emitted_for_python_peer");
   }

   uint32 ntypes = 0; for (uint32 m = st.typesMask; m; m >>= 1) ntypes += (m&1);
   if (st.hasZeroLenRaw) vf::Count("case_with_zero_length_raw_item");
   vf::Count(o.pythonSafe ? "case_python_safe" : "case_c_only");
   if (st.maxDepth >= 1) vf::Count("case_nesting_ge_1");
   if (ntypes >= 3) vf::Count("case_three_or_more_field_types");
   if ((ntypes >= 3)||(st.maxDepth >= 1)) {vf::NonTrivial(vf::HashStr(b)); if (vf::WantSample()) vf::Sample(Summary(mod)+" -> "+vf::Hex(b.data(), b.size(), 40));}
   return 0;
}
