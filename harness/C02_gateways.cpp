// C02 (gateway input paths): hostile byte streams / datagrams into the input path of every gateway
// type, delivered in generated segmentations.  Streams are produced by a real sender gateway of the
// same kind (so framing, compression and handshakes are valid) and then mutated at frame headers,
// truncated, or replaced by raw bytes.  Oracle: no sanitizer report, no abort, CPU budget; after an
// error the gateway can be Reset() and then delivers a good stream.
#include "models/refmsg.h"
#include "models/hostile.h"
#include <map>
#include "transport/choppy.h"
#include "iogateway/MessageIOGateway.h"
#include "iogateway/TemplatingMessageIOGateway.h"
#include "iogateway/PlainTextMessageIOGateway.h"
#include "iogateway/RawDataMessageIOGateway.h"
#include "iogateway/SLIPFramedDataMessageIOGateway.h"
#include "iogateway/WebSocketMessageIOGateway.h"
#include "iogateway/PacketTunnelIOGateway.h"
#include "iogateway/MiniPacketTunnelIOGateway.h"
#include "dataio/PacketDataIO.h"
#include "reflector/StorageReflectConstants.h"
#include "system/SetupSystem.h"
#include "syslog/SysLog.h"
#include "lang/c/minimessage/MiniMessageGateway.h"
#include "lang/c/micromessage/MicroMessageGateway.h"

using namespace muscle;
using namespace refmsg;
using namespace choppy;
const char * vf_harness_name = "c02_gateways";

struct Sink : public AbstractGatewayMessageReceiver
{
   uint32 n; Sink() : n(0) {}
   virtual void MessageReceivedFromGateway(const MessageRef & m, void *)
   {
      n++;
      if (m())
      {
         const uint32 fs = m()->FlattenedSize(); (void) m()->CalculateChecksum();
         if (fs < 100000) {std::vector<uint8> b(fs+1); m()->FlattenToBytes(&b[0], fs); Message m2; if (m2.UnflattenFromBytes(&b[0], fs).IsError()) vf::Fail("a Message delivered by a gateway from hostile input does not survive its own round trip");}
      }
   }
};

// datagram transport: the hostile input is a list of packets
class PktIO : public PacketDataIO
{
public:
   PktIO(std::deque<std::string> * in, uint32 mtu) : _in(in), _mtu(mtu) {}
   virtual uint32 GetMaximumPacketSize() const {return _mtu;}
   virtual const IPAddressAndPort & GetPacketSendDestination() const {return _d;}
   virtual void SetPacketSendDestination(const IPAddressAndPort & d) {_d = d;}
   virtual io_status_t ReadFrom(void * b, uint32 size, IPAddressAndPort & src)
   {
      if (_in->empty()) return io_status_t((int32)0);
      const std::string p = _in->front(); _in->pop_front();
      const uint32 k = muscleMin((uint32)p.size(), size); if (k) memcpy(b, p.data(), k);
      src = IPAddressAndPort(localhostIP, (uint16)(1000+(p.size()%3)));
      return io_status_t((int32)k);
   }
   virtual io_status_t WriteTo(const void * b, uint32 size, const IPAddressAndPort &) {if (_out) _out->push_back(std::string((const char *)b, size)); return io_status_t((int32)size);}
   virtual void FlushOutput() {} virtual void Shutdown() {}
   virtual const ConstSocketRef & GetReadSelectSocket() const {return GetNullSocket();}
   virtual const ConstSocketRef & GetWriteSelectSocket() const {return GetNullSocket();}
   std::deque<std::string> * _in; std::deque<std::string> * _out = NULL; uint32 _mtu; IPAddressAndPort _d;
};

enum {G_BIN_LIMITED, G_BIN_UNLIMITED, G_TEMPL, G_TEXT, G_TELNET, G_RAW, G_RAWMIN, G_SLIP, G_WS_SERVER, G_WS_NOHANDSHAKE, G_WS_CLIENT, G_TUNNEL, G_MINITUNNEL, G_MINI_C, G_MICRO_C, G_COUNT};
static const char * const GNAMES[] = {"binary_limit_1MiB", "binary_unlimited", "templating", "text", "telnet", "raw", "raw_min_chunk", "slip", "websocket_server", "websocket_no_handshake", "websocket_client", "packet_tunnel", "mini_packet_tunnel", "mini_c_gateway", "micro_c_gateway"};

static AbstractMessageIOGatewayRef MakeGateway(int kind, bool sender)
{
   switch(kind)
   {
      case G_BIN_LIMITED:   {MessageIOGateway * g = new MessageIOGateway(sender ? MUSCLE_MESSAGE_ENCODING_ZLIB_6 : MUSCLE_MESSAGE_ENCODING_DEFAULT); g->SetMaxIncomingMessageSize(1<<20); return AbstractMessageIOGatewayRef(g);}
      case G_BIN_UNLIMITED: return AbstractMessageIOGatewayRef(new MessageIOGateway);
      case G_TEMPL:         {TemplatingMessageIOGateway * g = new TemplatingMessageIOGateway(2000); g->SetMaxIncomingMessageSize(1<<20); return AbstractMessageIOGatewayRef(g);}
      case G_TEXT:          return AbstractMessageIOGatewayRef(new PlainTextMessageIOGateway);
      case G_TELNET:        return AbstractMessageIOGatewayRef(new TelnetPlainTextMessageIOGateway);
      case G_RAW:           return AbstractMessageIOGatewayRef(new RawDataMessageIOGateway(0));
      case G_RAWMIN:        return AbstractMessageIOGatewayRef(new RawDataMessageIOGateway(7, 7));
      case G_SLIP:          return AbstractMessageIOGatewayRef(new SLIPFramedDataMessageIOGateway);
      case G_WS_SERVER:     {WebSocketMessageIOGateway * g = sender ? new WebSocketMessageIOGateway("/", "localhost", "", "") : new WebSocketMessageIOGateway; g->SetSlaveGateway(AbstractMessageIOGatewayRef(new MessageIOGateway)); return AbstractMessageIOGatewayRef(g);}
      case G_WS_NOHANDSHAKE:{static bool f; f = false; return AbstractMessageIOGatewayRef(new WebSocketMessageIOGateway(&f));}
      case G_WS_CLIENT:     {WebSocketMessageIOGateway * g = sender ? new WebSocketMessageIOGateway : new WebSocketMessageIOGateway("/", "localhost", "", ""); g->SetSlaveGateway(AbstractMessageIOGatewayRef(new MessageIOGateway)); return AbstractMessageIOGatewayRef(g);}
      case G_TUNNEL:        {PacketTunnelIOGateway * g = new PacketTunnelIOGateway(AbstractMessageIOGatewayRef(), 300); g->SetMaxIncomingMessageSize(1<<20); return AbstractMessageIOGatewayRef(g);}
      case G_MINITUNNEL:    return AbstractMessageIOGatewayRef(new MiniPacketTunnelIOGateway(AbstractMessageIOGatewayRef(), 300));
   }
   return AbstractMessageIOGatewayRef();
}

// known finding F11 (C03): TemplateHashCode64 collides structurally, and a templating sender then serialises a Message through another shape's cached template (its DataFlattener
// aborts on the size mismatch).  The valid streams this harness makes for the templating gateway keep to one shape per hash code; what is left out is counted.
static std::string ShapeOf(const MMsg & m)
{
   std::string s = "{";
   for (size_t i=0; i<m.f.size(); i++) {const MField & f = m.f[i]; char b[48]; snprintf(b, sizeof(b), "%u*%zu", f.tc, f.items.size()); s += f.name+":"+b; if (f.tc == B_MESSAGE_TYPE) for (size_t k=0; k<f.subs.size(); k++) s += ShapeOf(*f.subs[k]); s += ";";}
   return s+"}";
}
static std::map<uint64, std::string> * g_templShapes = NULL;     // set while a templating sender is being fed

static MessageRef GenPayloadMsg(vf::BS & bs, int kind)
{
   if ((kind == G_TEXT)||(kind == G_TELNET)) {MessageRef m = GetMessageFromPool(PR_COMMAND_TEXT_STRINGS); const uint32 n = 1+bs.u8()%3; for (uint32 i=0; i<n; i++) (void) m()->AddString(PR_NAME_TEXT_LINE, String("line of text 0123456789").Substring(0, bs.u8()%23)); return m;}
   if ((kind == G_RAW)||(kind == G_RAWMIN)||(kind == G_SLIP)) {MessageRef m = GetMessageFromPool(PR_COMMAND_RAW_DATA); std::string c; const uint32 n = 1+bs.u8()%60; for (uint32 i=0; i<n; i++) c.push_back((char)bs.u8()); (void) m()->AddData(PR_NAME_DATA_CHUNKS, B_RAW_TYPE, c.data(), (uint32)c.size()); return m;}
   MessageRef m = GetMessageFromPool(); MMsg mod; GenOpts o; o.allowNonFlattenable = false; o.maxTopOps = 6; o.maxDepth = 2; o.allowBursts = false; Generator g(bs, o); g.Gen(0, *m(), mod);
   if ((g_templShapes)&&(vf::AllowKnown("F11") == false))
   {
      const uint64 hc = m()->TemplateHashCode64(); const std::string sh = ShapeOf(mod); std::map<uint64, std::string>::iterator it = g_templShapes->find(hc);
      if (it == g_templShapes->end()) (*g_templShapes)[hc] = sh; else if (it->second != sh) {vf::Excluded("F11"); return GetMessageFromPool(4711);}     // (a field-less Message instead: those bypass the templates)
   }
   return m;
}

static void MutateBytes(std::string & w, const std::vector<size_t> & frameStarts, vf::BS & bs, uint32 & nmut)
{
   const uint32 nm = bs.u8()%4;
   for (uint32 i=0; i<nm; i++)
   {
      const uint8_t k = bs.u8()%8;
      if ((k <= 3)&&(frameStarts.size() > 0)&&(w.size() >= 4))
      {
         // boundary value into one of the first four words of a frame (length, encoding / magic / id / offset words live there)
         size_t o = frameStarts[bs.u8()%frameStarts.size()]+4*(bs.u8()%4); if (o+4 > w.size()) o = (w.size()-4)&~(size_t)3;
         hostile::wr32(w, o, hostile::BoundaryValue(bs, hostile::rd32(w, o), (uint32_t)(w.size()-o-4)));
      }
      else if ((k == 4)&&(w.size() > 0)) w.resize(bs.u16()%w.size());
      else if ((k == 5)&&(w.size() > 0)) {const uint32 n = 1+bs.u8()%4; for (uint32 j=0; j<n; j++) w[bs.u16()%w.size()] = (char)bs.u8();}
      else if (k == 6) {const uint32 n = bs.u8()%40; for (uint32 j=0; j<n; j++) w.push_back((char)bs.u8());}
      else if ((k == 7)&&(w.size() >= 4)) {const size_t o = (bs.u16()%(w.size()/4))*4; hostile::wr32(w, o, hostile::BoundaryValue(bs, hostile::rd32(w, o), (uint32_t)(w.size()-o-4)));}
      nmut++;
   }
}

// Produces a valid wire image for (kind): stream bytes with frame-start offsets, or a list of datagrams
static void ProduceValid(int kind, vf::BS & bs, std::string & wire, std::vector<size_t> & frameStarts, std::deque<std::string> & packets)
{
   const uint32 n = 1+bs.u8()%4;
   if ((kind == G_TUNNEL)||(kind == G_MINITUNNEL))
   {
      std::deque<std::string> none; PktIO * io = new PktIO(&none, 300); io->_out = &packets;
      AbstractMessageIOGatewayRef snd = (kind == G_TUNNEL) ? AbstractMessageIOGatewayRef(new PacketTunnelIOGateway(AbstractMessageIOGatewayRef(), 300)) : AbstractMessageIOGatewayRef(new MiniPacketTunnelIOGateway(AbstractMessageIOGatewayRef(), 300));
      snd()->SetDataIO(DataIORef(io));
      for (uint32 i=0; i<n; i++) {(void) snd()->AddOutgoingMessage(GenPayloadMsg(bs, kind)); for (int r=0; (r<100)&&(snd()->HasBytesToOutput()); r++) (void) snd()->DoOutput();}
      return;
   }
   Pipe pipe, back; Plan plan(&bs); plan.generous = true;
   std::map<uint64, std::string> templShapes; struct ShapeScope {ShapeScope(std::map<uint64, std::string> * m, bool on) {g_templShapes = on ? m : NULL;} ~ShapeScope() {g_templShapes = NULL;}} shapeScope(&templShapes, kind == G_TEMPL);
   AbstractMessageIOGatewayRef snd = MakeGateway(kind, true);
   if (snd() == NULL) return;
   ChopIO sio(&back, &pipe, &plan); snd()->SetDataIO(DummyDataIORef(sio));
   if ((kind == G_WS_SERVER)||(kind == G_WS_CLIENT))
   {
      // run the handshake against a real peer so the captured stream contains a valid preamble
      AbstractMessageIOGatewayRef peer = MakeGateway(kind, false); Pipe toPeer; ChopIO pio(&toPeer, &back, &plan); peer()->SetDataIO(DummyDataIORef(pio)); Sink s2;
      for (int r=0; r<20; r++) {(void) snd()->DoOutput(); while(pipe.q.size()) {wire.push_back((char)pipe.q.front()); toPeer.q.push_back(pipe.q.front()); pipe.q.pop_front();} (void) peer()->DoInput(s2); (void) peer()->DoOutput(); Sink s3; (void) snd()->DoInput(s3);}
   }
   for (uint32 i=0; i<n; i++)
   {
      frameStarts.push_back(wire.size());
      (void) snd()->AddOutgoingMessage(GenPayloadMsg(bs, kind));
      for (int r=0; (r<200)&&(snd()->HasBytesToOutput()); r++) (void) snd()->DoOutput();
      while(pipe.q.size()) {wire.push_back((char)pipe.q.front()); pipe.q.pop_front();}
   }
}

static int32 CRecvFn(uint8 * buf, uint32 n, void * arg) {std::pair<Pipe *, Plan *> * io = (std::pair<Pipe *, Plan *> *) arg; const uint32 k = io->second->Chunk(muscleMin(n, (uint32)io->first->q.size())); for (uint32 i=0; i<k; i++) {buf[i] = io->first->q.front(); io->first->q.pop_front();} return (int32) k;}
static FILE * g_devnull = NULL;

// A MessageIOGateway on a packet transport (packet mode: one datagram = one framed Message).  Hostile datagrams are mixed with valid ones on ONE gateway object,
// without any Reset(): a datagram that cannot be parsed must cost nothing but itself -- every valid datagram that follows is delivered.
static int RunPacketModeBinary(vf::BS & bs)
{
   std::deque<std::string> wire; std::deque<std::string> made;
   {PktIO * io = new PktIO(&wire, 1400); io->_out = &made; MessageIOGateway snd; snd.SetDataIO(DataIORef(io)); const uint32 n = 2+bs.u8()%5; for (uint32 i=0; i<n; i++) {(void) snd.AddOutgoingMessage(GenPayloadMsg(bs, G_BIN_UNLIMITED)); for (int r=0; (r<100)&&(snd.HasBytesToOutput()); r++) (void) snd.DoOutput();}}
   std::deque<std::string> feed; uint32 validAfterBad = 0, bad = 0; bool sawBad = false; uint32 nmut = 0;
   for (size_t i=0; i<made.size(); i++)
   {
      std::string d = made[i]; if (d.size() > 1400) continue;
      const uint8_t k = bs.u8()%4;
      if (k == 0) {std::vector<size_t> fs(1, 0); MutateBytes(d, fs, bs, nmut); feed.push_back(d); bad++; sawBad = true; continue;}
      if (k == 1) {d.resize(bs.range(0, (uint32)d.size())); feed.push_back(d); bad++; sawBad = true; continue;}     // truncated
      feed.push_back(d); if (sawBad) validAfterBad++;
   }
   const size_t expectAtLeast = feed.size()-bad;
   wire = feed; PktIO * rio = new PktIO(&wire, 1400); MessageIOGateway rcv; rcv.SetDataIO(DataIORef(rio)); Sink sink;
   for (int r=0; (r<2000)&&(wire.size()); r++) (void) rcv.DoInput(sink);     // (an error status for a bad datagram is fine; the gateway object stays in use)
   for (int r=0; r<4; r++) (void) rcv.DoInput(sink);
   if (sink.n < expectAtLeast) vf::Fail("packet-mode MessageIOGateway: %zu valid datagrams were fed (mixed with %u malformed ones, no Reset()), only %u Messages were delivered", expectAtLeast, bad, sink.n);
   vf::Count("binary_packet_mode"); vf::Count("messages_delivered", sink.n); vf::Count("mutations", nmut);
   if (validAfterBad) {vf::Count("case_valid_datagram_after_a_malformed_one"); uint64_t h = 1234; for (size_t i=0; i<feed.size(); i++) h = vf::HashStr(feed[i], h); vf::NonTrivial(h);}
   return 0;
}

extern "C" int vf_run_case(const uint8_t * data, size_t size)
{
   static CompleteSetupSystem * css = NULL; if (css == NULL) {css = new CompleteSetupSystem; SetConsoleLogLevel(MUSCLE_LOG_NONE); g_devnull = fopen("/dev/null", "w");}
   if (size < 4) return 0;
   vf::BS bs(data, size);
   const uint8_t kb = bs.u8(); if (kb >= 240) return RunPacketModeBinary(bs);     /* (240..255 used to fold onto the first kinds) */
   const int kind = kb%G_COUNT; const uint8_t srcByte = bs.u8(); const uint8_t src = srcByte%8; const uint32 amplify = ((srcByte>>3) >= 24) ? (uint32)(((srcByte>>3)-23)*3) : 1;
   std::string wire; std::vector<size_t> frameStarts; std::deque<std::string> packets; uint32 nmut = 0;
   const int produceKind = (kind == G_MINI_C)||(kind == G_MICRO_C) ? G_BIN_UNLIMITED : ((kind == G_WS_NOHANDSHAKE) ? G_BIN_UNLIMITED : kind);
   if (src == 0) {while(bs.left() > 40) wire.push_back((char)bs.u8()); if ((kind == G_TUNNEL)||(kind == G_MINITUNNEL)) {size_t p = 0; while(p < wire.size()) {const size_t l = 1+((uint8_t)wire[p])%120; packets.push_back(wire.substr(p, l)); p += l;}} vf::Count("source_raw_bytes");}
   else
   {
      ProduceValid(produceKind, bs, wire, frameStarts, packets);
      if (src >= 2)
      {
         if ((kind == G_TUNNEL)||(kind == G_MINITUNNEL)) {for (size_t i=0; i<packets.size(); i++) if (bs.u8()%2) {std::vector<size_t> fs(1, 0); MutateBytes(packets[i], fs, bs, nmut);} if ((packets.size() > 1)&&(bs.u8()%4 == 0)) std::swap(packets[0], packets[packets.size()-1]); if ((packets.size())&&(bs.u8()%4 == 0)) packets.push_back(packets[0]);}
         else MutateBytes(wire, frameStarts, bs, nmut);
         vf::Count("source_mutated_valid_stream");
      }
      else vf::Count("source_valid_stream");
   }
   // a quarter of the stream cases is the same stream 3..24 times over (up to 20000 bytes), so that single reads can fill the gateways' scratch buffers (2048 bytes and up) completely
   if ((amplify > 1)&&(wire.size())&&(packets.empty())) {const std::string once = wire; for (uint32 i=1; (i<amplify)&&(wire.size()+once.size() <= 20000); i++) wire += once; vf::Count("source_stream_repeated_to_fill_scratch_buffers"); if (wire.size() >= 2048) vf::Count("case_stream_of_2048_bytes_or_more");}
   const uint64_t inHash = vf::HashStr(wire, (uint64_t)kind*131+packets.size());
   uint64_t ph = inHash; for (size_t i=0; i<packets.size(); i++) ph = vf::HashStr(packets[i], ph);

   Plan plan(&bs); Sink sink; bool sawError = false; uint32 delivered = 0;
   if ((kind == G_MINI_C)||(kind == G_MICRO_C))
   {
      Pipe pipe; for (size_t i=0; i<wire.size(); i++) pipe.q.push_back((uint8)wire[i]);
      std::pair<Pipe *, Plan *> io(&pipe, &plan);
      if (kind == G_MINI_C)
      {
         MMessageGateway * gw = MGAllocMessageGateway();
         for (int r=0; (r<3000)&&(pipe.q.size()); r++)
         {
            if (r > 400) plan.generous = true;
            MMessage * m = NULL; const int32 rc = MGDoInput(gw, (r%3) ? ~0u : 7, CRecvFn, &io, &m);
            if (m) {delivered++; MMPrint(m, g_devnull); const uint32 fs = MMGetFlattenedSize(m); uint8 * o = new uint8[fs ? fs : 1]; MMFlattenMessage(m, o); delete [] o; MMFreeMessage(m);}
            if (rc < 0) {sawError = true; break;}
         }
         MGFreeMessageGateway(gw);
      }
      else
      {
         const uint32 inSize = bs.flip() ? 4096 : 64; uint8 * inBuf = new uint8[inSize]; uint8 * outBuf = new uint8[64];   // per-iteration buffers (a static one leaks bytes between cases)
         UMessageGateway gw; UGGatewayInitialize(&gw, inBuf, inSize, outBuf, 64);
         for (int r=0; (r<3000)&&(pipe.q.size()); r++)
         {
            if (r > 400) plan.generous = true;
            UMessage m; UMInitializeToInvalid(&m); const int32 rc = UGDoInput(&gw, (r%3) ? ~0u : 7, CRecvFn, &io, &m);
            if (rc < 0) {sawError = true; break;}
            if (UMIsMessageValid(&m)) {delivered++; if (UMGetFlattenedSize(&m) < 3000) UMPrint(&m, g_devnull);}
         }
         delete [] inBuf; delete [] outBuf;
      }
   }
   else
   {
      AbstractMessageIOGatewayRef gw = MakeGateway(kind, false);
      // tunnels: in half of the cases the receiver's MTU (= the size of its heap-allocated packet buffer) is the length of the last packet plus 0..3 bytes, so that a
      // parser that reads a few bytes past the end of a received packet leaves the buffer and ASan sees it
      uint32 rmtu = 300;
      if (((kind == G_TUNNEL)||(kind == G_MINITUNNEL))&&(packets.size())&&(bs.flip()))
      {
         rmtu = muscleMax((uint32)32, muscleMin((uint32)300, (uint32)packets.back().size()+(uint32)(bs.u8()%4)));
         if (kind == G_TUNNEL) {PacketTunnelIOGateway * g = new PacketTunnelIOGateway(AbstractMessageIOGatewayRef(), rmtu); g->SetMaxIncomingMessageSize(1<<20); gw.SetRef(g);} else gw.SetRef(new MiniPacketTunnelIOGateway(AbstractMessageIOGatewayRef(), rmtu));
         vf::Count("tunnel_receiver_buffer_fitted_to_the_last_packet");
      }
      Pipe pipe, out; for (size_t i=0; i<wire.size(); i++) pipe.q.push_back((uint8)wire[i]);
      ChopIO sio(&pipe, &out, &plan); PktIO * pio = NULL;
      if ((kind == G_TUNNEL)||(kind == G_MINITUNNEL)) {pio = new PktIO(&packets, rmtu); gw()->SetDataIO(DataIORef(pio));} else gw()->SetDataIO(DummyDataIORef(sio));
      for (int r=0; r<3000; r++)
      {
         if (r > 400) plan.generous = true;
         const bool more = pio ? (packets.size() > 0) : (pipe.q.size() > 0);
         if (more == false) break;
         const io_status_t st = gw()->DoInput(sink, 1+bs.range(0, 4000));
         if (st.IsError()) {sawError = true; break;}
         if ((r%8) == 7) {(void) gw()->DoOutput();}
      }
      delivered = sink.n;
      // destructible and reusable: after an error (or not), Reset() and feed a good stream of the same kind
      if ((kind != G_WS_SERVER)&&(kind != G_WS_CLIENT)&&(kind != G_WS_NOHANDSHAKE)&&(rmtu == 300))     // (a receiver fitted to a short packet cannot take the full-size good stream)
      {
         gw()->Reset();
         std::string good; std::vector<size_t> fs; std::deque<std::string> goodPk; static const uint8_t seedBytes[48] = {1, 2, 3, 4, 5, 6, 7, 8, 9, 10, 11, 12}; vf::BS gb(seedBytes, sizeof(seedBytes));
         ProduceValid(kind, gb, good, fs, goodPk);
         pipe.q.clear(); for (size_t i=0; i<good.size(); i++) pipe.q.push_back((uint8)good[i]); packets = goodPk;
         Sink s2; plan.generous = true;
         for (int r=0; r<2000; r++) {const bool more = pio ? (packets.size() > 0) : (pipe.q.size() > 0); if (more == false) break; if (gw()->DoInput(s2).IsError()) vf::Fail("%s gateway: error on a valid stream after Reset() following hostile input", GNAMES[kind]);}
         if (s2.n == 0) vf::Fail("%s gateway delivers nothing from a valid stream after Reset() following hostile input", GNAMES[kind]);
         vf::Count("reuse_after_reset_checked");
      }
   }
   if (((kind == G_BIN_UNLIMITED)||(kind == G_BIN_LIMITED))&&(bs.flip()))
   {
      // a frame too large for the gateway's 2048-byte scratch buffer (so its receive buffer is a heap block of exactly the frame's size) whose last field claims a few bytes
      // more than the frame holds: the end of the body is cut off by 1..8 bytes and the length word in the frame header says so.  Rejected cleanly, or ASan speaks.
      MessageRef m = GetMessageFromPool(4242); (void) m()->AddInt32("first", 1); const uint32 pad = 2010+bs.u8(); const uint8_t tb = bs.u8();
      switch(tb%4)
      {
         case 0: {std::string raw(pad, 'r'); (void) m()->AddData("last", B_RAW_TYPE, raw.data(), (uint32)raw.size());} break;
         case 1: (void) m()->AddString("last", String("s").PaddedBy(pad)); break;
         case 2: {for (uint32 i=0; i<pad/8; i++) (void) m()->AddInt64("last", (int64)i);} break;
         default: {std::string raw(pad, 'q'); (void) m()->AddData("mid", B_RAW_TYPE, raw.data(), (uint32)raw.size()); MessageRef sub = GetMessageFromPool(7); (void) sub()->AddString("x", "yz"); (void) m()->AddMessage("last", sub);} break;
      }
      Pipe p1, back; Plan gen(&bs); gen.generous = true; {MessageIOGateway snd(MUSCLE_MESSAGE_ENCODING_DEFAULT); ChopIO sio3(&back, &p1, &gen); snd.SetDataIO(DummyDataIORef(sio3)); (void) snd.AddOutgoingMessage(m); for (int r=0; (r<400)&&(snd.HasBytesToOutput()); r++) (void) snd.DoOutput();}
      std::string frame; while(p1.q.size()) {frame.push_back((char)p1.q.front()); p1.q.pop_front();}
      if (frame.size() > 2056)
      {
         const uint32 cut = 1+(tb>>2)%8; frame.resize(frame.size()-cut); hostile::wr32(frame, 0, (uint32_t)(frame.size()-8));
         Pipe pin, pout; for (size_t i=0; i<frame.size(); i++) pin.q.push_back((uint8)frame[i]);
         Plan rp(&bs); rp.generous = ((tb>>5)&1) != 0; MessageIOGateway rcv; ChopIO rio3(&pin, &pout, &rp); rcv.SetDataIO(DummyDataIORef(rio3)); Sink s3;
         for (int r=0; (r<3000)&&(pin.q.size()); r++) {if (r > 400) rp.generous = true; if (rcv.DoInput(s3).IsError()) break;}
         if (s3.n > 0) vf::Count("lying_frame_delivered_with_a_shortened_last_field");     // (an array of fixed-size items that ends early is accepted with the items that are there: lenient, and not this property's business)
         vf::Count("frame_with_lying_last_field_beyond_the_scratch_buffer");
      }
   }
   if ((kind == G_TUNNEL)&&(bs.flip()))
   {
      // the size gate of the tunnel holds for every Message of a source, not only for its first: one sender, a receiver with a small limit, Messages below and above it
      // (the sizes are the peer's to declare: an oversized Message must not be reassembled, whatever came before it)
      const uint32 limit = 1200+(uint32)bs.u8()*4; std::deque<std::string> none, pk; PktIO * sio2 = new PktIO(&none, 300); sio2->_out = &pk;
      PacketTunnelIOGateway snd(AbstractMessageIOGatewayRef(), 300); snd.SetDataIO(DataIORef(sio2));
      const uint32 nm = 3+bs.u8()%3; std::vector<uint32> sizes; uint32 expectSmall = 0;
      for (uint32 i=0; i<nm; i++)
      {
         MessageRef m = GetMessageFromPool(100+i); const bool big = (i > 0)&&(bs.u8()%2 == 0); const uint32 payload = big ? limit+1+bs.range(0, 3000) : bs.range(0, limit-200);
         std::string raw(payload, (char)('a'+i)); (void) m()->AddData("d", B_RAW_TYPE, raw.data(), (uint32)raw.size()); sizes.push_back(m()->FlattenedSize()); if (m()->FlattenedSize() <= limit) expectSmall++;
         (void) snd.AddOutgoingMessage(m); for (int r=0; (r<400)&&(snd.HasBytesToOutput()); r++) (void) snd.DoOutput();
      }
      struct LimitSink : public AbstractGatewayMessageReceiver {uint32 n, limit; LimitSink(uint32 l) : n(0), limit(l) {} virtual void MessageReceivedFromGateway(const MessageRef & m, void *) {if (m()) {n++; if (m()->FlattenedSize() > limit) vf::Fail("a packet tunnel with a maximum incoming Message size of %u delivered a Message of %u bytes (not the first Message of its sender)", limit, m()->FlattenedSize());}}} ls(limit);
      PacketTunnelIOGateway rcv(AbstractMessageIOGatewayRef(), 300); rcv.SetMaxIncomingMessageSize(limit); PktIO * rio = new PktIO(&pk, 300); rcv.SetDataIO(DataIORef(rio));
      for (int r=0; (r<4000)&&(pk.size()); r++) if (rcv.DoInput(ls).IsError()) break;
      if (ls.n > expectSmall) vf::Fail("a packet tunnel with a maximum incoming Message size of %u delivered %u Messages, only %u of the %u sent are within the limit", limit, ls.n, expectSmall, nm);     // (Messages that share a packet with a refused fragment are dropped with it: the tunnel may lose, it may not exceed)
      vf::Count("tunnel_size_gate_checked"); if (expectSmall < nm) vf::Count("case_tunnel_size_gate_with_oversized_message_after_the_first");
   }
   vf::Count(GNAMES[kind]); vf::Count("messages_delivered", delivered); if (sawError) vf::Count("case_gateway_reported_error"); vf::Count("mutations", nmut);
   // non-trivial: the input reaches frame parsing (a valid first frame/preamble/packet precedes or contains the mutation), i.e. it is not rejected at byte 0
   const bool nontrivial = (src != 0)&&((wire.size() > 8)||(packets.size() > 0));
   if (nontrivial) {vf::NonTrivial(ph); if (vf::WantSample()) {char b[200]; snprintf(b, sizeof(b), "%s: %zu stream bytes / %zu packets, %u mutations, %u Messages delivered, error=%d: ", GNAMES[kind], wire.size(), packets.size(), nmut, delivered, (int)sawError); vf::Sample(std::string(b)+vf::Hex(wire.data(), wire.size(), 48));}}
   return 0;
}
