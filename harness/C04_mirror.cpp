// C04 (and, compiled with -DVF_C13, C13): histories of well-formed commands from 3-4 sessions on
// the single-stepped in-process server.  Every client applies every PR_RESULT_DATAITEMS (removals
// first, then sets) and replays every PR_RESULT_INDEXUPDATED entry in arrival order.  At every
// quiescent point each client's mirror of *other sessions'* nodes must equal what its current
// subscriptions (path and filter) select in the server's real tree (walked in-process), and every
// armed index replay must equal the server's index.  Documented notification suppression (quiet
// flags) makes the touched nodes don't-care.
#include "reflector/rharness.h"
#include <algorithm>

using namespace muscle;
using namespace rh;
#ifdef VF_C13
const char * vf_harness_name = "c13_index";
#else
const char * vf_harness_name = "c04_mirror";
#endif

struct Sub {std::string pat; int filterKind; int filterArg; ConstQueryFilterRef filter; bool settled; Sub() : filterKind(0), filterArg(0), settled(false) {}};   // settled: was in force at the last quiescent point;   // filterKind 0 = none
struct CState
{
   std::map<std::string, std::string> mirror;                       // path -> flattened payload
   std::map<std::string, std::vector<std::string> > idx;            // path -> replayed index
   std::set<std::string> armed;                                     // paths whose replay started from a 'c' entry
   std::set<std::string> noBirth;                                   // paths reported REMOVED since the last quiescent point: index entries that follow may belong to a node this client stopped watching in mid-life
   std::vector<Sub> subs;
   std::set<std::string> dontCare;                                  // paths this client need not be right about (quiet subscribe, known finding F16)
   std::set<std::string> owed;                                      // indexed nodes selected by an explicit GETDATA this client just sent (alone, at a quiescent point): the reply must carry their index snapshot
   int pruneChecks;                                                 // > 0 after this client removed a subscription or sent an explicit query: the next checks prune its mirror first (the server retracts nothing on unsubscribe)
   CState() : pruneChecks(0) {}
};
static std::vector<CState> g_cs; static std::vector<std::string> g_roots;
static std::vector<std::string> g_quietPrefixes;                    // subtrees touched by quiet sets/removes: don't-care for everybody
static std::string g_log; static bool g_wantLog;
static void Log(const std::string & s) {if (vf::Verbose()) fprintf(stderr, "  %s\n", s.c_str()); if ((g_wantLog)&&(g_log.size() < 1400)) {g_log += s; g_log += "; ";}}

static ConstQueryFilterRef MakeFilter(int kind, int arg)
{
   switch(kind)
   {
      case 1: return ConstQueryFilterRef(new Int32QueryFilter("v", Int32QueryFilter::OP_EQUAL_TO, arg));
      case 2: return ConstQueryFilterRef(new StringQueryFilter("s", StringQueryFilter::OP_EQUAL_TO, arg ? "abc" : "b"));
      case 3: return ConstQueryFilterRef(new ValueExistsQueryFilter("s"));
      case 4: return ConstQueryFilterRef(new Int32QueryFilter("v", Int32QueryFilter::OP_GREATER_THAN_OR_EQUAL_TO, arg));
      default: return ConstQueryFilterRef();
   }
}
static bool FilterOK(const Sub & s, const ConstMessageRef & payload, const DataNode * node)
{
   if (s.filter() == NULL) return true;
   ConstMessageRef p = payload;
   return s.filter()->Matches(p, node);
}
static bool IsQuietTouched(const std::string & path) {for (size_t i=0; i<g_quietPrefixes.size(); i++) {const std::string & q = g_quietPrefixes[i]; if ((path == q)||((path.size() > q.size())&&(path.compare(0, q.size(), q) == 0)&&(path[q.size()] == '/'))) return true;} return false;}
static bool Under(const std::string & path, const std::string & root) {return (path == root)||((path.size() > root.size())&&(path.compare(0, root.size(), root) == 0)&&(path[root.size()] == '/'));}

static std::set<std::string> g_lastTreePaths; static uint64_t g_armedFromBirth = 0, g_armedWhileEmpty = 0; static bool g_copies = false, g_copyJudged = false; static std::set<std::string> g_copyDests;
static void Apply(int ci, const Message & m)
{
   CState & c = g_cs[ci];
   if (vf::Verbose())
   {
      std::string l = "     c"+std::to_string(ci)+" receives";
      if (m.what == PR_RESULT_DATAITEMS) {const String * r; for (uint32 k=0; m.FindString(PR_NAME_REMOVED_DATAITEMS, k, &r).IsOK(); k++) l += std::string(" REMOVED ")+r->Cstr(); for (MessageFieldNameIterator it = m.GetFieldNameIterator(B_MESSAGE_TYPE); it.HasData(); it++) l += std::string(" SET ")+it.GetFieldName()();}
      else if (m.what == PR_RESULT_INDEXUPDATED) {for (MessageFieldNameIterator it = m.GetFieldNameIterator(B_STRING_TYPE); it.HasData(); it++) {l += std::string(" INDEX ")+it.GetFieldName()()+":"; const String * s; for (uint32 k=0; m.FindString(it.GetFieldName(), k, &s).IsOK(); k++) l += std::string(" ")+s->Cstr();}}
      else l += " what="+std::to_string(m.what);
      fprintf(stderr, "%s\n", l.c_str());
   }
   if (m.what == PR_RESULT_DATAITEMS)
   {
      const String * r; for (uint32 k=0; m.FindString(PR_NAME_REMOVED_DATAITEMS, k, &r).IsOK(); k++) {c.mirror.erase(r->Cstr()); c.idx.erase(r->Cstr()); c.armed.erase(r->Cstr()); c.noBirth.insert(r->Cstr());}
      for (MessageFieldNameIterator it = m.GetFieldNameIterator(B_MESSAGE_TYPE); it.HasData(); it++) {ConstMessageRef d; for (uint32 k=0; m.FindMessage(it.GetFieldName(), k, d).IsOK(); k++) c.mirror[it.GetFieldName()()] = Flat(*d());}
   }
   else if (m.what == PR_RESULT_INDEXUPDATED)
   {
      for (MessageFieldNameIterator it = m.GetFieldNameIterator(B_STRING_TYPE); it.HasData(); it++)
      {
         const std::string path = it.GetFieldName()(); std::vector<std::string> & v = c.idx[path];
         const String * s;
         for (uint32 k=0; m.FindString(it.GetFieldName(), k, &s).IsOK(); k++)
         {
            const char op = (*s)[0];
            if (op == INDEX_OP_CLEARED) {v.clear(); c.armed.insert(path); continue;}
#ifdef VF_C13
            // a node that did not exist at the last quiescent point, under a subscription that was already in force then: the client has been told about the node's whole life,
            // so its replay starts from the empty index the node was born with
            if ((op == INDEX_OP_ENTRYINSERTED)&&(c.armed.count(path) == 0)&&(g_lastTreePaths.count(path) == 0)&&(c.noBirth.count(path) == 0)&&(Under(path, g_roots[ci]) == false))
               for (size_t q=0; q<c.subs.size(); q++) if ((c.subs[q].settled)&&(PathMatch(Absolute(c.subs[q].pat), path))) {v.clear(); c.armed.insert(path); g_armedFromBirth++; break;}
#endif
            if (c.armed.count(path) == 0) continue;       // a client that was never given the snapshot cannot replay: entries for unarmed indices are not judged
            if ((IsQuietTouched(path))||(c.dontCare.count(path))||(Under(path, g_roots[ci]))) continue;     // own-session nodes are not compared (whether own changes are echoed is not promised)
            const int colon = s->IndexOf(':'); if (colon < 0) vf::Fail("malformed index update entry [%s]", s->Cstr());
            const uint32 pos = (uint32) atol(s->Cstr()+1); const std::string name = s->Cstr()+colon+1;
            if (op == INDEX_OP_ENTRYINSERTED) {if (pos > v.size()) vf::Fail("index update for %s inserts [%s] at position %u but the replayed index has only %zu entries", path.c_str(), name.c_str(), pos, v.size()); v.insert(v.begin()+pos, name);}
            else if (op == INDEX_OP_ENTRYREMOVED) {if ((pos >= v.size())||(v[pos] != name)) vf::Fail("index update for %s removes [%s] at position %u but the replayed index has [%s] there (size %zu): history [%s]", path.c_str(), name.c_str(), pos, (pos < v.size()) ? v[pos].c_str() : "-", v.size(), g_log.c_str()); v.erase(v.begin()+pos);}
            else vf::Fail("unknown index op [%s]", s->Cstr());
         }
      }
   }
}

struct Stats {bool supercede, setThenRemoveInBatch, filterChange, payloadAcrossFilter, departureWhileSubscribed, reorderAfterInserts, indexedRemoval; uint32 checks, comparedNodes, comparedIndices, dontCareSkips, requestedSnapshots; Stats() {memset(this, 0, sizeof(*this));}};
static Stats g_st;

static void Check(World & w, const char * when)
{
   HSession * any = w.AnySession(); if (any == NULL) return;
   std::map<std::string, NodeInfo> tree; WalkTree(any->Root(), tree);
   // standing invariants of the server's own indices: entries are existing children, each at most once
   for (std::map<std::string, NodeInfo>::iterator it = tree.begin(); it != tree.end(); ++it)
   {
      std::set<std::string> seen; const NodeInfo & ni = it->second;
      for (size_t i=0; i<ni.index.size(); i++)
      {
         if (seen.insert(ni.index[i]).second == false) vf::Fail("(%s) the index of %s lists [%s] twice: history [%s]", when, it->first.c_str(), ni.index[i].c_str(), g_log.c_str());
         if (std::find(ni.children.begin(), ni.children.end(), ni.index[i]) == ni.children.end()) vf::Fail("(%s) the index of %s lists [%s], which is not a child of that node: history [%s]", when, it->first.c_str(), ni.index[i].c_str(), g_log.c_str());
      }
   }
   g_st.checks++;
   for (size_t i=0; i<w.c.size(); i++) if (w.c[i]->connected)
   {
      CState & c = g_cs[i]; const std::string & root = w.c[i]->root;
      // C13: an index snapshot that was requested has arrived and equals the server's index
      for (std::set<std::string>::iterator it = c.owed.begin(); it != c.owed.end(); ++it)
      {
         std::map<std::string, NodeInfo>::iterator tn = tree.find(*it); if ((tn == tree.end())||(tn->second.index.empty())) continue;
         g_st.comparedIndices++; g_st.requestedSnapshots++;
         std::string a, b; for (size_t k=0; k<c.idx[*it].size(); k++) a += c.idx[*it][k]+" "; for (size_t k=0; k<tn->second.index.size(); k++) b += tn->second.index[k]+" ";
         if (c.armed.count(*it) == 0) vf::Fail("(%s) client %zu (%s) asked for %s with GETDATA; the server's index of that node is [%s] but the reply carried no index snapshot (no clear entry): history [%s]", when, i, root.c_str(), it->c_str(), b.c_str(), g_log.c_str());
         if (c.idx[*it] != tn->second.index) vf::Fail("(%s) client %zu (%s): the index snapshot of %s sent on request is [%s] but the server's index is [%s]: history [%s]", when, i, root.c_str(), it->c_str(), a.c_str(), b.c_str(), g_log.c_str());
      }
      c.owed.clear();
      // the client's half of "none extra": after it removed a subscription it drops what no remaining subscription selects (paths and filters, filters evaluated on the
      // mirrored payload) -- the server sends no retraction for that.  At any other time a node in the mirror that its subscriptions do not select is the server's doing.
      if (c.pruneChecks > 0)
      {
         c.pruneChecks--; vf::Count("mirror_pruned_after_unsubscribe_or_query");
         std::map<std::string, std::string> keep;
         for (std::map<std::string, std::string>::iterator it = c.mirror.begin(); it != c.mirror.end(); ++it)
         {
            bool sel = false;
            for (size_t s=0; (s<c.subs.size())&&(sel == false); s++) if (PathMatch(Absolute(c.subs[s].pat), it->first))
            {
               if (c.subs[s].filter() == NULL) sel = true;
               else {MessageRef pm = GetMessageFromPool(); if (pm()->UnflattenFromBytes((const uint8 *)it->second.data(), (uint32)it->second.size()).IsOK()) {std::map<std::string, NodeInfo>::iterator tn = tree.find(it->first); (void) tn; sel = FilterOK(c.subs[s], pm, NULL);}}
            }
            if (sel) keep[it->first] = it->second;
         }
         c.mirror.swap(keep);
         for (std::set<std::string>::iterator it = c.armed.begin(); it != c.armed.end(); ) {bool sel = false; for (size_t s=0; s<c.subs.size(); s++) if (PathMatch(Absolute(c.subs[s].pat), *it)) sel = true; if (sel) ++it; else {c.idx.erase(*it); c.armed.erase(it++);}}
      }
      std::map<std::string, std::string> expect, selectedBy;
      for (std::map<std::string, NodeInfo>::iterator it = tree.begin(); it != tree.end(); ++it)
      {
         const std::string & path = it->first; if ((path.size() <= 1)||(Under(path, root))) continue;      // other sessions' nodes only
         if (SplitPath(path).size() < 3) continue;                                                           // host and session directory nodes are the server's own furniture
         bool sel = false; for (size_t s=0; (s<c.subs.size())&&(sel == false); s++) if ((PathMatch(Absolute(c.subs[s].pat), path))&&(FilterOK(c.subs[s], it->second.data, NULL))) {sel = true; selectedBy[path] = c.subs[s].pat+(c.subs[s].filterKind ? (" filter#"+std::to_string(c.subs[s].filterKind)+"/"+std::to_string(c.subs[s].filterArg)) : std::string(""));}
         if (sel) expect[path] = Flat(*it->second.data());
      }
      std::set<std::string> all; for (std::map<std::string, std::string>::iterator it = expect.begin(); it != expect.end(); ++it) all.insert(it->first);
      for (std::map<std::string, std::string>::iterator it = c.mirror.begin(); it != c.mirror.end(); ++it) if ((Under(it->first, root) == false)&&(SplitPath(it->first).size() >= 3)) all.insert(it->first);
      for (std::set<std::string>::iterator it = all.begin(); it != all.end(); ++it)
      {
         const std::string & path = *it;
         if ((IsQuietTouched(path))||(c.dontCare.count(path))) {g_st.dontCareSkips++; continue;}
         const bool e = expect.count(path) > 0, h = c.mirror.count(path) > 0;
         g_st.comparedNodes++;
         if ((e)&&(h == false)) vf::Fail("(%s) client %zu (%s): node %s matches its subscription [%s] but is MISSING from its mirror: history [%s]", when, i, root.c_str(), path.c_str(), selectedBy[path].c_str(), g_log.c_str());
         if ((e == false)&&(h)) vf::Fail("(%s) client %zu (%s): its mirror holds %s, which %s: EXTRA: history [%s]", when, i, root.c_str(), path.c_str(), tree.count(path) ? "no longer matches its subscriptions" : "no longer exists on the server", g_log.c_str());
         if ((e)&&(h)&&(expect[path] != c.mirror[path])) vf::Fail("(%s) client %zu (%s): its mirror of %s is STALE: history [%s]", when, i, root.c_str(), path.c_str(), g_log.c_str());
      }
#ifdef VF_C13
      // a node whose index is empty (or absent) at this quiescent point, under one of the client's subscriptions: whatever happens to that index from now on is reported to the
      // client entry by entry, so its replay starts here from the empty index
      for (std::map<std::string, NodeInfo>::iterator it = tree.begin(); it != tree.end(); ++it)
      {
         const std::string & path = it->first; if ((it->second.index.size())||(c.armed.count(path))||(path.size() <= 1)||(Under(path, root))||(SplitPath(path).size() < 3)||(IsQuietTouched(path))||(c.dontCare.count(path))) continue;
         for (size_t s=0; s<c.subs.size(); s++) if (PathMatch(Absolute(c.subs[s].pat), path)) {c.armed.insert(path); c.idx[path].clear(); g_armedWhileEmpty++; break;}
      }
      for (size_t s=0; s<c.subs.size(); s++) c.subs[s].settled = true;
      c.noBirth.clear();
#endif
      // C13: every armed replay equals the server's index
      for (std::set<std::string>::iterator it = c.armed.begin(); it != c.armed.end(); ++it)
      {
         const std::string & path = *it; if ((IsQuietTouched(path))||(c.dontCare.count(path))||(Under(path, root))) continue;
         std::map<std::string, NodeInfo>::iterator tn = tree.find(path); if (tn == tree.end()) continue;     // node gone: the REMOVED notice disarms (checked by the mirror comparison)
         g_st.comparedIndices++; if ((tn->second.index.size())&&(g_copyDests.count(path))) g_copyJudged = true;
         if (c.idx[path] != tn->second.index)
         {
            std::string a, b; for (size_t k=0; k<c.idx[path].size(); k++) a += c.idx[path][k]+" "; for (size_t k=0; k<tn->second.index.size(); k++) b += tn->second.index[k]+" ";
            vf::Fail("(%s) client %zu (%s): the index of %s replayed from the update log is [%s] but the server's index is [%s]: history [%s]", when, i, root.c_str(), path.c_str(), a.c_str(), b.c_str(), g_log.c_str());
         }
      }
   }
}

static void RememberTree(World & w) {g_lastTreePaths.clear(); HSession * any = w.AnySession(); if (any == NULL) return; std::map<std::string, NodeInfo> tree; WalkTree(any->Root(), tree); for (std::map<std::string, NodeInfo>::iterator it = tree.begin(); it != tree.end(); ++it) g_lastTreePaths.insert(it->first);}
static const char * const REL[] = {"a", "b", "ab", "a/x", "a/y", "b/x", "a/x/p", "ab/a"};
static const char * const RMP[] = {"a", "b", "*", "a/*", "*/x", "a/x", "*/*", "a/x/p", "a*", "?", "(a|b)", "a*/*"};
static const char * const SUBTAIL[] = {"a", "*", "a/*", "*/x", "b", "*/*", "*/*/*", "a*", "(a|ab)", "?", "a/x", "ab/*"};
static const char * const HOSTS[] = {"h0", "h1"};

static std::string GenSubPath(World & w, vf::BS & bs)
{
   const std::string tail = SUBTAIL[bs.u8()%12];
   switch(bs.u8()%5)
   {
      case 0: return tail;                                    // relative: implicit /*/*/ prefix
      case 1: return "/*/*/"+tail;
      case 2: return std::string("/")+HOSTS[bs.u8()%2]+"/*/"+tail;
      case 3: {const int k = bs.u8()%(int)w.c.size(); return w.c[k]->connected ? ("/*/"+w.c[k]->id+"/"+tail) : ("/*/*/"+tail);}
      default: return "/*/*/"+tail;
   }
}

static MessageRef GenCommand(World & w, int who, vf::BS & bs, int depth, bool & pumpBefore, std::vector<std::function<void()> > & afterSend)
{
   Client & cl = *w.c[who]; CState & cs = g_cs[who]; char buf[600];
#ifdef VF_C13
   const uint8_t kb = bs.u8(); const uint8_t kind = (kb >= 232) ? 8 : (uint8_t)"\0\0\1\2\2\3\5\6\6\6\7\7"[kb%12];
#else
   const uint8_t kind = "\0\0\0\1\1\2\2\2\3\4\5\6"[bs.u8()%12];
#endif
   switch(kind)
   {
      case 0:   // SETDATA
      {
         MessageRef m = GetMessageFromPool(PR_COMMAND_SETDATA); const uint32 n = 1+(bs.u8()%4 == 0);
         SetDataNodeFlags flags; const bool quiet = (bs.u8()%10 == 0); if (quiet) flags.SetBit(SETDATANODE_FLAG_QUIET);
#ifdef VF_C13
         if (bs.u8()%2) flags.SetBit(SETDATANODE_FLAG_ADDTOINDEX);
#else
         if (bs.u8()%6 == 0) flags.SetBit(SETDATANODE_FLAG_ADDTOINDEX);
#endif
         {const uint8_t fb = bs.u8(); if (fb%8 == 0) flags.SetBit(SETDATANODE_FLAG_DONTOVERWRITEDATA); if ((fb/8)%4 == 0) {flags.SetBit(SETDATANODE_FLAG_ENABLESUPERCEDE); g_st.supercede = true;}}     // supercede: earlier updates of the same node that are still in a subscriber's outgoing queue are dropped in favour of this one
         if (flags.AreAnyBitsSet()) (void) m()->AddFlat(PR_NAME_FLAGS, flags);
         std::string l = "SETDATA";
         for (uint32 i=0; i<n; i++)
         {
            const uint8_t rb = bs.u8(); const char * rp = REL[rb%8];
#ifdef VF_C13
            // explicitly named children that look like the server's own generated names ("I<n>"): the name generator of later ordered inserts has to step around them
            {static const char * const INAMES[] = {"a/I0", "a/I1", "b/I2", "b/I1", "a/I3", "b/I0"}; if (rb >= 208) rp = INAMES[(rb-208)/8];}
#endif
            MessageRef d = GetMessageFromPool(bs.u8()%3); (void) d()->AddInt32("v", bs.u8()%3); if (bs.u8()%3 == 0) (void) d()->AddString("s", (bs.u8()&1) ? "abc" : "b");
            (void) m()->AddMessage(rp, d); snprintf(buf, sizeof(buf), " %s{v=%d%s}", rp, d()->GetInt32("v"), d()->HasName("s") ? ",s" : ""); l += buf;
            if (quiet) {const std::string full = cl.root+"/"+rp; afterSend.push_back([full]{g_quietPrefixes.push_back(full); std::vector<std::string> parts = SplitPath(full); std::string p; for (size_t k=0; k<parts.size(); k++) {p += "/"+parts[k]; if (k >= 2) g_quietPrefixes.push_back(p);}});}
         }
         snprintf(buf, sizeof(buf), "c%d %s%s%s", who, l.c_str(), quiet ? " QUIET" : "", flags.IsBitSet(SETDATANODE_FLAG_ADDTOINDEX) ? " ADDTOINDEX" : ""); Log(buf);
         return m;
      }
      case 1:   // REMOVEDATA
      {
         MessageRef m = GetMessageFromPool(PR_COMMAND_REMOVEDATA); const char * rp = RMP[bs.u8()%12]; (void) m()->AddString(PR_NAME_KEYS, rp);
         const int fk = (bs.u8()%5 == 0) ? 1+(bs.u8()%4) : 0; const int fa = bs.u8()%3; if (fk) {ConstQueryFilterRef f = MakeFilter(fk, fa); (void) m()->AddArchiveMessage(PR_NAME_FILTERS, *f());}
         const bool quiet = (bs.u8()%10 == 0); if (quiet) {(void) m()->AddBool(PR_NAME_REMOVE_QUIETLY, true); const std::string root = cl.root; afterSend.push_back([root]{g_quietPrefixes.push_back(root);});}
         snprintf(buf, sizeof(buf), "c%d REMOVEDATA %s%s%s", who, rp, fk ? " +filter" : "", quiet ? " QUIET" : ""); Log(buf);
         g_st.indexedRemoval = true;
         return m;
      }
      case 2:   // SUBSCRIBE (one or several entries)
      {
         MessageRef m = GetMessageFromPool(PR_COMMAND_SETPARAMETERS); const uint32 n = (bs.u8()%4 == 0) ? 2+(bs.u8()%2) : 1; std::string l = "SUBSCRIBE";
         const bool quiet = (bs.u8()%12 == 0); if (quiet) {(void) m()->AddBool(PR_NAME_SUBSCRIBE_QUIETLY, true); pumpBefore = true;}
         std::vector<std::string> changed;
         for (uint32 e=0; e<n; e++)
         {
            const std::string p = GenSubPath(w, bs); const int fk = (bs.u8()%3 == 0) ? 1+(bs.u8()%4) : 0; const int fa = bs.u8()%3;
            size_t existing = cs.subs.size(); for (size_t s=0; s<cs.subs.size(); s++) if (Absolute(cs.subs[s].pat) == Absolute(p)) existing = s;     // the server keys a subscription by its absolute path: 'a' and '/*/*/a' are the same subscription
            bool dupInThisMsg = false; for (MessageFieldNameIterator fit = m()->GetFieldNameIterator(); fit.HasData(); fit++) if ((fit.GetFieldName().StartsWith("SUBSCRIBE:"))&&(Absolute(fit.GetFieldName()()+10) == Absolute(p))) dupInThisMsg = true; if (dupInThisMsg) continue;
            const bool isChange = (existing < cs.subs.size())&&((cs.subs[existing].filterKind != fk)||(cs.subs[existing].filterArg != fa));
            if (isChange) {pumpBefore = true; g_st.filterChange = true; changed.push_back(p);}
            const String fn = String("SUBSCRIBE:")+p.c_str(); ConstQueryFilterRef f = MakeFilter(fk, fa);
            if (f()) (void) m()->AddArchiveMessage(fn, *f()); else (void) m()->AddBool(fn, true);
            snprintf(buf, sizeof(buf), " %s%s", p.c_str(), fk ? (std::string(" filter#")+std::to_string(fk)+"/"+std::to_string(fa)).c_str() : ""); l += buf; if (isChange) l += "(filter change)";
            const int wi = who; const size_t ex = existing;
            (void) ex;
            afterSend.push_back([wi, p, fk, fa, f, isChange, quiet, &w]{
               CState & c = g_cs[wi];
               if ((quiet)||(isChange))
               {
                  HSession * any = w.AnySession(); std::map<std::string, NodeInfo> tree; if (any) WalkTree(any->Root(), tree);
                  for (std::map<std::string, NodeInfo>::iterator it = tree.begin(); it != tree.end(); ++it)
                  {
                     if (quiet) {if (PathMatch(Absolute(p), it->first)) c.dontCare.insert(it->first); continue;}       // pre-existing nodes are not announced to a quiet subscriber
                  }
               }
            });
            // the subscription table is updated right away (commands are sent in the order generated; later commands of the same BATCH must see it)
            if (existing < cs.subs.size()) {cs.subs[existing].filterKind = fk; cs.subs[existing].filterArg = fa; cs.subs[existing].filter = f;} else {Sub ns; ns.pat = p; ns.filterKind = fk; ns.filterArg = fa; ns.filter = f; cs.subs.push_back(ns);}
         }
         if (changed.size())
         {
            // known finding F16: a filter change on one subscription reports REMOVED for nodes that another subscription of the same session still selects.
            // Evaluated once all entries of this Message are recorded (a later entry of the same Message can be the "other" subscription).
            const int wi = who;
            afterSend.push_back([wi, changed, &w]{
               if (vf::AllowKnown("F16")) return;
               CState & c = g_cs[wi]; HSession * any = w.AnySession(); std::map<std::string, NodeInfo> tree; if (any) WalkTree(any->Root(), tree);
               for (std::map<std::string, NodeInfo>::iterator it = tree.begin(); it != tree.end(); ++it) for (size_t q=0; q<changed.size(); q++) if (PathMatch(Absolute(changed[q]), it->first))
                  for (size_t s=0; s<c.subs.size(); s++) if ((Absolute(c.subs[s].pat) != Absolute(changed[q]))&&(PathMatch(Absolute(c.subs[s].pat), it->first))) {if (c.dontCare.insert(it->first).second) vf::Excluded("F16");}
            });
         }
         if (bs.u8()%4 == 0) {const int mx = 1+bs.u8()%3; (void) m()->AddInt32(PR_NAME_MAX_UPDATE_MESSAGE_ITEMS, mx); l += " maxitems="+std::to_string(mx);}
         snprintf(buf, sizeof(buf), "c%d %s%s", who, l.c_str(), quiet ? " QUIETLY" : ""); Log(buf);
         return m;
      }
      case 3:   // UNSUBSCRIBE
      {
         if (cs.subs.empty()) return MessageRef();
         MessageRef m = GetMessageFromPool(PR_COMMAND_REMOVEPARAMETERS);
         cs.pruneChecks = 2;
         if (bs.u8()%5 == 0) {(void) m()->AddString(PR_NAME_KEYS, "SUBSCRIBE:*"); snprintf(buf, sizeof(buf), "c%d UNSUBSCRIBE all", who); Log(buf); cs.subs.clear();}
         else {const size_t k = bs.u8()%cs.subs.size(); (void) m()->AddString(PR_NAME_KEYS, EscapeRegexTokens(String("SUBSCRIBE:")+cs.subs[k].pat.c_str())); snprintf(buf, sizeof(buf), "c%d UNSUBSCRIBE %s", who, cs.subs[k].pat.c_str()); Log(buf); cs.subs.erase(cs.subs.begin()+k);}
         return m;
      }
      case 4:   // BATCH of 2-3 commands
      {
         if (depth >= 2) return MessageRef();
         MessageRef m = GetMessageFromPool(PR_COMMAND_BATCH); const uint32 n = 2+(bs.u8()%2); Log("BATCH(");
         bool sawSet = false;
         for (uint32 i=0; i<n; i++) {MessageRef sub = GenCommand(w, who, bs, depth+1, pumpBefore, afterSend); if (sub()) {if ((sub()->what == PR_COMMAND_REMOVEDATA)&&(sawSet)) g_st.setThenRemoveInBatch = true; if (sub()->what == PR_COMMAND_SETDATA) sawSet = true; (void) m()->AddMessage(PR_NAME_KEYS, sub);}}
         Log(")");
         return m;
      }
      case 5:   // GETDATA: explicit snapshot request
      {
         cs.pruneChecks = 2;      // an explicit query returns nodes whether or not a subscription selects them: the client sorts them out like after an unsubscribe
         MessageRef m = GetMessageFromPool(PR_COMMAND_GETDATA); const std::string p = GenSubPath(w, bs); (void) m()->AddString(PR_NAME_KEYS, p.c_str()); snprintf(buf, sizeof(buf), "c%d GETDATA %s", who, p.c_str()); Log(buf);
         if (depth == 0)
         {
            // "the index snapshot the server sends on request": the request goes out alone between two quiescent points, and every indexed node of another session that its key
            // selects must come back as clear + inserts equal to the server's index.  (Own nodes are documented not to be returned without reflect-to-self; the server makes an
            // undocumented exception for sessions that used ordered inserts, but not for one whose index came from REORDERDATA, so own nodes cannot be judged either way.)
            pumpBefore = true; const int wi = who;
            afterSend.push_back([wi, p, &w]{
               CState & c = g_cs[wi]; HSession * any = w.AnySession(); std::map<std::string, NodeInfo> tree; if (any) WalkTree(any->Root(), tree);
               for (std::map<std::string, NodeInfo>::iterator it = tree.begin(); it != tree.end(); ++it)
                  if ((it->second.index.size())&&(PathMatch(Absolute(p), it->first))&&(IsQuietTouched(it->first) == false)&&(c.dontCare.count(it->first) == 0)&&(Under(it->first, g_roots[wi]) == false)) {c.owed.insert(it->first); c.armed.erase(it->first); c.idx.erase(it->first);}
            });
         }
         return m;
      }
      case 6:   // INSERTORDEREDDATA
      {
         MessageRef m = GetMessageFromPool(PR_COMMAND_INSERTORDEREDDATA); const char * parent = (bs.u8()&1) ? "a" : "b"; (void) m()->AddString(PR_NAME_KEYS, parent);
         static const char * const BEFORE[] = {"I0", "I1", "I2", "zzz", "x"}; const uint32 n = 1+(bs.u8()%3 == 0); std::string l;
         for (uint32 i=0; i<n; i++) {MessageRef d = GetMessageFromPool(7); (void) d()->AddInt32("v", bs.u8()%3); const char * bf = BEFORE[bs.u8()%5]; (void) m()->AddMessage(bf, d); l += std::string(" before ")+bf;}
         snprintf(buf, sizeof(buf), "c%d INSERTORDEREDDATA under %s%s", who, parent, l.c_str()); Log(buf);
         return m;
      }
#ifdef VF_C13
      case 8:   // the session copies one of its subtrees (ordered index included) to a place where nothing is yet: clone, or save to a Message and restore
      {
         static const char * const DST[] = {"c", "d", "e/k", "c/k"}; MessageRef m = GetMessageFromPool(HSession::CMD_COPY_SUBTREE); const uint8_t cb = bs.u8();
         const char * src = (cb&1) ? "a" : "b"; const char * dst = DST[(cb>>1)%4]; const bool restore = ((cb>>3)&1) != 0, indexed = ((cb>>4)%4 == 0);
         (void) m()->AddString("src", src); (void) m()->AddString("dst", dst); if (restore) (void) m()->AddBool("restore", true); if (indexed) (void) m()->AddBool("indexed", true);
         snprintf(buf, sizeof(buf), "c%d %s subtree %s -> %s%s", who, restore ? "SAVES AND RESTORES" : "CLONES", src, dst, indexed ? " (added to the index of its parent)" : ""); Log(buf);
         g_copies = true; g_copyDests.insert(cl.root+"/"+dst);
         return m;
      }
#endif
      default:  // REORDERDATA
      {
         MessageRef m = GetMessageFromPool(PR_COMMAND_REORDERDATA); static const char * const KIDS[] = {"a/I0", "a/I1", "a/I2", "b/I0", "b/I1", "a/x", "a/*", "*/I1", "a/y"}; static const char * const BEFORE[] = {"I0", "I1", "I2", "", "zzz", "x"};
         const char * kid = KIDS[bs.u8()%9]; const bool rm = (bs.u8()%5 == 0); const char * bf = rm ? PR_NAME_REMOVE_FROM_INDEX : BEFORE[bs.u8()%6];
         (void) m()->AddString(kid, bf); snprintf(buf, sizeof(buf), "c%d REORDERDATA %s -> %s", who, kid, rm ? "out of the index" : ((bf[0]) ? (std::string("before ")+bf).c_str() : "to the end")); Log(buf);
         g_st.reorderAfterInserts = true;
         return m;
      }
   }
}

extern "C" int vf_run_case(const uint8_t * data, size_t size)
{
   static CompleteSetupSystem * css = NULL; if (css == NULL) {css = new CompleteSetupSystem; SetConsoleLogLevel(MUSCLE_LOG_NONE);}
   if (size < 4) return 0;
   vf::BS bs(data, size);
   g_log.clear(); g_wantLog = true; g_quietPrefixes.clear(); g_st = Stats(); g_lastTreePaths.clear(); g_armedFromBirth = g_armedWhileEmpty = 0; g_copies = g_copyJudged = false; g_copyDests.clear();
   const int NC = 3+(bs.u8()%2);
   World w; w.Start(NC); g_cs.clear(); g_cs.resize(NC);
   w.onMessage = [](int ci, const Message & m){Apply(ci, m);};
   g_roots.assign(NC, ""); for (int i=0; i<NC; i++) {w.Connect(i, HOSTS[i%2]); g_roots[i] = w.c[i]->root;}
   w.Pump();
   int steps = 0; uint64_t h = 1;
   while((bs.done() == false)&&(steps++ < 50))
   {
      const size_t p0 = bs.pos;
      const int who = bs.u8()%NC; Client & cl = *w.c[who];
      if (cl.connected == false)
      {
         w.Connect(who, HOSTS[bs.u8()%2]); g_cs[who] = CState(); g_roots[who] = cl.root; Log("c"+std::to_string(who)+" RECONNECT as "+cl.root); w.Pump(); Check(w, "after reconnect"); RememberTree(w);
         h = vf::Hash64(data+p0, bs.pos-p0, h); continue;
      }
      const uint8_t x = bs.u8();
      if (x%16 == 0)
      {
         // departure: clean close or cut inside pending output
         bool othersSubscribed = false; for (int j=0; j<NC; j++) if ((j != who)&&(w.c[j]->connected)&&(g_cs[j].subs.size())) othersSubscribed = true;
         if (othersSubscribed) g_st.departureWhileSubscribed = true;
         if (x&16) {Log("c"+std::to_string(who)+" DISCONNECT"); w.Disconnect(who);} else {const uint32 k = bs.u8(); Log("c"+std::to_string(who)+" CUT after "+std::to_string(k)+" bytes"); (void) w.Cut(who, k);}
         w.Pump(); Check(w, "after departure"); RememberTree(w);
         h = vf::Hash64(data+p0, bs.pos-p0, h); continue;
      }
      bool pumpBefore = false; std::vector<std::function<void()> > afterSend;
      std::string savedLog = g_log; const std::vector<Sub> subsBefore = g_cs[who].subs;
      MessageRef m = GenCommand(w, who, bs, 0, pumpBefore, afterSend);
      if (m())
      {
         if (pumpBefore) {std::vector<Sub> subsAfter = g_cs[who].subs; g_cs[who].subs = subsBefore; w.Pump(); Check(w, "before a quiet subscribe / filter change"); RememberTree(w); g_cs[who].subs = subsAfter;}
         if (vf::Verbose()) fprintf(stderr, "     >>> c%d sends %s\n", who, m()->ToString(4)());
         if (w.Send(who, m).IsError()) vf::Fail("AddOutgoingMessage failed");
         for (size_t i=0; i<afterSend.size(); i++) afterSend[i]();
         if (pumpBefore) {w.Pump(); Check(w, "after a quiet subscribe / filter change"); RememberTree(w);}
      }
      (void) savedLog;
      h = vf::Hash64(data+p0, bs.pos-p0, h);
      if (bs.u8()%3) {Log("--pump"); w.Pump(); Check(w, "mid-history"); RememberTree(w);}
   }
   w.Pump(); Check(w, "end of history"); RememberTree(w);
   w.Stop();

   vf::Count("steps", (uint64_t)steps); vf::Count("quiescent_checks", g_st.checks); vf::Count("mirror_nodes_compared", g_st.comparedNodes); vf::Count("index_replays_compared", g_st.comparedIndices); vf::Count("dont_care_skips", g_st.dontCareSkips);
   if (g_st.setThenRemoveInBatch) vf::Count("case_set_then_remove_in_one_batch"); if (g_st.filterChange) vf::Count("case_filter_change_on_existing_subscription"); if (g_st.departureWhileSubscribed) vf::Count("case_departure_while_others_subscribed");
   if (g_st.reorderAfterInserts) vf::Count("case_with_reorder"); if (g_st.supercede) vf::Count("case_with_superceding_set"); if (g_st.comparedIndices) vf::Count("case_with_armed_index_replay_compared"); if (g_st.requestedSnapshots) vf::Count("case_with_requested_index_snapshot_judged");
   if (g_armedFromBirth) vf::Count("case_index_replayed_from_the_birth_of_its_node"); if (g_armedWhileEmpty) vf::Count("case_index_replayed_from_an_empty_index_at_a_quiescent_point"); if (g_copies) vf::Count("case_with_subtree_clone_or_restore"); if (g_copyJudged) vf::Count("case_index_of_a_cloned_or_restored_node_judged");
#ifdef VF_C13
   const bool nontrivial = (g_st.comparedIndices >= 1)&&((g_st.reorderAfterInserts)||(g_st.indexedRemoval));
#else
   const bool nontrivial = (g_st.comparedNodes >= 1)&&((g_st.setThenRemoveInBatch)||(g_st.filterChange)||(g_st.departureWhileSubscribed));
#endif
   if (nontrivial) {vf::NonTrivial(h); if (vf::WantSample()) vf::Sample(g_log);}
   return 0;
}
