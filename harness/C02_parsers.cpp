// C02 (Message parsers): hostile bytes into Message::UnflattenFromBytes, Message::TemplatedUnflatten,
// MMUnflattenMessage (mini) and UMInitializeWithExistingData + full read-side walk (micro).
// Oracle: no sanitizer report / abort / hang; bytes *requested* from the allocator during the parse
// <= 64*N + 64 KiB; a failed parser leaves its object destructible and reusable; an accepted object
// survives a full walk, re-flatten (size contract), print, compare.
#include "models/refmsg.h"
#include "models/hostile.h"
#include "system/SetupSystem.h"
#include "syslog/SysLog.h"
#include "lang/c/minimessage/MiniMessage.h"
#include "lang/c/micromessage/MicroMessage.h"

using namespace muscle;
using namespace refmsg;
const char * vf_harness_name = "c02_parsers";

extern "C" volatile size_t g_meter_req, g_meter_max, g_meter_calls;
static FILE * g_devnull = NULL; static bool g_printMicro = true; static uint32 g_microBudget = 0;   // bounds the read-side walk (it branches per sub-Message)

static_assert(B_BOOL_TYPE == 1112493900, "type constants"); static_assert(B_MESSAGE_TYPE == 1297303367, "type constants"); static_assert(B_RAW_TYPE == 1380013908, "type constants"); static_assert(B_STRING_TYPE == 1129534546, "type constants");

static void CheckMeter(const char * parser, size_t n, const std::string & input)
{
   const size_t req = g_meter_req;
   if (req > 64*n + 65536) vf::Fail("%s requested %zu bytes from the allocator (largest single request %zu, %zu calls) while parsing a %zu-byte input: %s", parser, req, (size_t)g_meter_max, (size_t)g_meter_calls, n, vf::Hex(input.data(), input.size(), 80).c_str());
}

static void WalkCpp(const Message & m, int depth)
{
   for (MessageFieldNameIterator it = m.GetFieldNameIterator(); it.HasData(); it++)
   {
      uint32 tc = 0, n = 0; bool fixed = false; (void) m.GetInfo(it.GetFieldName(), &tc, &n, &fixed);
      for (uint32 i=0; (i<n)&&(i<64); i++)
      {
         const void * d; uint32 sz; (void) m.FindData(it.GetFieldName(), B_ANY_TYPE, i, &d, &sz);
         if ((tc == B_STRING_TYPE)&&(i < 8)) {const String * s = NULL; if (m.FindString(it.GetFieldName(), i, &s).IsOK()) {if (strlen(s->Cstr()) != s->Length()) vf::Fail("parsed String item has an embedded NUL / wrong length");}}
         if ((tc == B_BOOL_TYPE)&&(i < 8)) {bool b = false; (void) m.FindBool(it.GetFieldName(), i, b); volatile int x = b ? 1 : 0; (void) x;}
         if ((tc == B_MESSAGE_TYPE)&&(depth < 50)) {ConstMessageRef sub; if (m.FindMessage(it.GetFieldName(), i, sub).IsOK()) WalkCpp(*sub(), depth+1);}
      }
   }
}

static const uint8 GOOD[] = {0x30,0x30,0x4d,0x50, 1,0,0,0, 1,0,0,0,  2,0,0,0,'k',0, 0x47,0x4e,0x4f,0x4c, 4,0,0,0, 7,0,0,0};   // {what=1, k: int32 7}

static void RunCpp(const std::string & in)
{
   const size_t n = in.size();
   uint8 * heap = new uint8[n ? n : 1]; memcpy(heap, in.data(), n);    // exact-size heap copy: any over-read is an ASan report
   Message m; (void) m.AddString("stale", "field from an earlier use of this object");
   g_meter_req = 0; g_meter_max = 0; g_meter_calls = 0;
   const status_t r = m.UnflattenFromBytes(heap, (uint32)n);
   CheckMeter("Message::UnflattenFromBytes", n, in);
   if (r.IsOK())
   {
      vf::Count("cpp_accepted");
      WalkCpp(m, 0);
      const uint32 fs = m.FlattenedSize();
      std::vector<uint8> out(fs+16, 0xEE); m.FlattenToBytes(&out[8], fs);
      for (int i=0; i<8; i++) if ((out[i] != 0xEE)||(out[8+fs+i] != 0xEE)) vf::Fail("re-flattening an accepted hostile Message wrote outside FlattenedSize()=%u", fs);
      Message m2; if (m2.UnflattenFromBytes(&out[8], fs).IsError()) vf::Fail("the library accepted a hostile input but rejects its own re-serialisation of it");
      if (m2.FlattenedSize() != fs) vf::Fail("FlattenedSize differs after re-parse of an accepted hostile Message");
      (void) m.CalculateChecksum(); (void) (m == m2); if (g_printMicro) (void) m.ToString(2); (void) m.TemplateHashCode64();
      MessageRef t = m.CreateMessageTemplate(); if (t()) {const uint32 tfs = m.TemplatedFlattenedSize(*t()); std::vector<uint8> tb(tfs+1); m.TemplatedFlatten(*t(), DataFlattener(&tb[0], tfs));}
   }
   else vf::Count("cpp_rejected");
   // destructible and reusable
   if (m.UnflattenFromBytes(GOOD, sizeof(GOOD)).IsError()) vf::Fail("Message object not reusable after parsing hostile input");
   if ((m.what != 1)||(m.GetNumNames() != 1)||(m.GetInt32("k") != 7)) vf::Fail("Message object holds stale state after re-use");
   delete [] heap;
}

static void RunTemplated(const std::string & payload, const Message & tmpl)
{
   const size_t n = payload.size();
   uint8 * heap = new uint8[n ? n : 1]; memcpy(heap, payload.data(), n);
   Message m;
   g_meter_req = 0; g_meter_max = 0; g_meter_calls = 0;
   DataUnflattener un(heap, (uint32)n);
   const status_t r = m.TemplatedUnflatten(tmpl, un);
   CheckMeter("Message::TemplatedUnflatten", n+tmpl.FlattenedSize(), payload);
   if (r.IsOK())
   {
      vf::Count("templated_accepted");
      WalkCpp(m, 0);
      const uint32 fs = m.FlattenedSize(); std::vector<uint8> out(fs+1); m.FlattenToBytes(&out[0], fs);
      Message m2; if (m2.UnflattenFromBytes(&out[0], fs).IsError()) vf::Fail("Message accepted by TemplatedUnflatten does not survive a regular round trip");
      (void) m.ToString(2);
   }
   else vf::Count("templated_rejected");
   if (m.UnflattenFromBytes(GOOD, sizeof(GOOD)).IsError()) vf::Fail("Message object not reusable after a hostile TemplatedUnflatten");
   delete [] heap;
}

static void RunMini(const std::string & in)
{
   const size_t n = in.size();
   uint8 * heap = new uint8[n ? n : 1]; memcpy(heap, in.data(), n);
   g_meter_req = 0; g_meter_max = 0; g_meter_calls = 0;
   MMessage * mm = MMAllocMessage(0);
   if (mm == NULL) {delete [] heap; return;}
   const c_status_t r = MMUnflattenMessage(mm, heap, (uint32)n);
   CheckMeter("MMUnflattenMessage", n, in);
   if (r == CB_NO_ERROR)
   {
      vf::Count("mini_accepted");
      if (g_printMicro) MMPrint(mm, g_devnull);
      const uint32 fs = MMGetFlattenedSize(mm);
      uint8 * buf = new uint8[fs ? fs : 1];
      MMFlattenMessage(mm, buf);
      MMessage * m2 = MMAllocMessage(0);
      if (m2) {if (MMUnflattenMessage(m2, buf, fs) != CB_NO_ERROR) vf::Fail("MiniMessage accepted a hostile input but rejects its own re-serialisation of it"); /* no equality demanded here: duplicate field names in a hostile input are legitimately collapsed by the second parse */ MMFreeMessage(m2);}
      MMessage * c = MMCloneMessage(mm); if (c) MMFreeMessage(c);
      delete [] buf;
   }
   else vf::Count("mini_rejected");
   // reusable
   if (MMUnflattenMessage(mm, GOOD, sizeof(GOOD)) != CB_NO_ERROR) vf::Fail("MMessage not reusable after hostile input");
   MMFreeMessage(mm);
   delete [] heap;
}

static void WalkMicro(const UMessage * um, int depth)
{
   UMessageFieldNameIterator it; UMIteratorInitialize(&it, um, B_ANY_TYPE);
   int guard = 0;
   while(guard++ < 4096)
   {
      uint32 nItems = 0, tc = 0; const char * fn = UMIteratorGetCurrentFieldName(&it, &nItems, &tc);
      if (fn == NULL) break;
      (void) strlen(fn);
      (void) UMGetNumItemsInField(um, fn, B_ANY_TYPE); (void) UMGetFieldTypeCode(um, fn);
      const uint32 idxs[4] = {0, 1, nItems ? nItems-1 : 0, nItems};
      for (int k=0; k<4; k++)
      {
         const uint32 idx = idxs[k];
         bool seen = false; for (int q=0; q<k; q++) if (idxs[q] == idx) seen = true;
         if ((seen)||(g_microBudget == 0)) continue;
         g_microBudget--;
         switch(tc)
         {
            case B_BOOL_TYPE:   {UBool v; (void) UMFindBool(um, fn, idx, &v); (void) UMGetBoolFromArray(UMGetBools(um, fn), idx);} break;
            case B_INT8_TYPE:   {int8 v; (void) UMFindInt8(um, fn, idx, &v); (void) UMGetInt8FromArray(UMGetInt8s(um, fn), idx);} break;
            case B_INT16_TYPE:  {int16 v; (void) UMFindInt16(um, fn, idx, &v); (void) UMGetInt16FromArray(UMGetInt16s(um, fn), idx);} break;
            case B_INT32_TYPE:  {int32 v; (void) UMFindInt32(um, fn, idx, &v); (void) UMGetInt32FromArray(UMGetInt32s(um, fn), idx);} break;
            case B_INT64_TYPE:  {int64 v; (void) UMFindInt64(um, fn, idx, &v); (void) UMGetInt64FromArray(UMGetInt64s(um, fn), idx);} break;
            case B_FLOAT_TYPE:  {float v; (void) UMFindFloat(um, fn, idx, &v); (void) UMGetFloatFromArray(UMGetFloats(um, fn), idx);} break;
            case B_DOUBLE_TYPE: {double v; (void) UMFindDouble(um, fn, idx, &v); (void) UMGetDoubleFromArray(UMGetDoubles(um, fn), idx);} break;
            case B_POINT_TYPE:  {UPoint v; (void) UMFindPoint(um, fn, idx, &v); (void) UMGetPointFromArray(UMGetPoints(um, fn), idx);} break;
            case B_RECT_TYPE:   {URect v; (void) UMFindRect(um, fn, idx, &v); (void) UMGetRectFromArray(UMGetRects(um, fn), idx);} break;
            case B_STRING_TYPE: {const char * s = UMGetString(um, fn, idx); if (s) (void) strlen(s);} break;
            case B_MESSAGE_TYPE: {UMessage sub; if ((UMFindMessage(um, fn, idx, &sub) == CB_NO_ERROR)&&(depth < 20)) WalkMicro(&sub, depth+1);} break;
            default: {const void * p = NULL; uint32 nb = 0; if ((UMFindData(um, fn, tc, idx, &p, &nb) == CB_NO_ERROR)&&(p)&&(nb)) {volatile uint8 a = ((const uint8 *)p)[0], b = ((const uint8 *)p)[nb-1]; (void) a; (void) b;}} break;
         }
      }
      UMIteratorAdvance(&it);
   }
   if ((depth == 0)&&(g_printMicro)) UMPrint(um, g_devnull);   // (UMPrint indents with putchar(), i.e. on stdout, and quadratically in the nesting depth: printed only for shallow inputs)
}

static void RunMicro(const std::string & in)
{
   const size_t n = in.size();
   uint8 * heap = new uint8[n ? n : 1]; memcpy(heap, in.data(), n);
   g_meter_req = 0; g_meter_max = 0; g_meter_calls = 0;
   UMessage um;
   if (UMInitializeWithExistingData(&um, heap, (uint32)n) == CB_NO_ERROR)
   {
      vf::Count("micro_accepted");
      (void) UMGetWhatCode(&um); (void) UMGetNumFields(&um); (void) UMGetFlattenedSize(&um); (void) UMIsMessageValid(&um);
      g_microBudget = 4000; WalkMicro(&um, 0);
   }
   else vf::Count("micro_rejected");
   CheckMeter("MicroMessage read side", n, in);
   delete [] heap;
}

extern "C" int vf_run_case(const uint8_t * data, size_t size)
{
   static CompleteSetupSystem * css = NULL; if (css == NULL) {css = new CompleteSetupSystem; SetConsoleLogLevel(MUSCLE_LOG_NONE); g_devnull = fopen("/dev/null", "w");}
   if (size < 2) return 0;
   vf::BS bs(data, size);
   const uint8_t which = bs.u8()%5;      // 0 C++, 1 templated, 2 mini, 3 micro, 4 all three plain parsers on the same bytes
   const uint8_t src   = bs.u8()%16;     // where the hostile bytes come from

   std::string in; bool structured = false; hostile::Stats hs;
   Message valid; MMsg mod;
   if (src == 0)
   {
      // arbitrary bytes behind a valid header, so the first gate is passed
      const char hdr[4] = {0x30,0x30,0x4d,0x50}; in.assign(hdr, 4); while(bs.done() == false) in.push_back((char)bs.u8());
      vf::Count("source_raw_bytes_after_magic");
   }
   else if (src == 1)
   {
      // deep nesting; the unchanged tree recurses once per level (known finding F7), so depth is capped unless the exclusion is lifted
      uint32 depth = (bs.u8()%8 == 0) ? (1+(bs.u16()%1000)) : (1+(bs.u8()%64));
      if (vf::AllowKnown("F7")) depth = 20000+bs.u16(); else vf::Excluded("F7");
      in = hostile::DeepNest(depth);
      if (bs.flip()) in = hostile::Mutate(in, bs, hs);
      vf::Count("source_deep_nesting");
      structured = true;
   }
   else
   {
      GenOpts o; o.maxTopOps = 12; o.allowBursts = (src >= 12); o.commonRepertoire = (which >= 2);
      Generator gen(bs, o); gen.Gen(0, valid, mod);
      const std::string enc = Encode(mod);
      in = (src == 2) ? enc : hostile::Mutate(enc, bs, hs);
      vf::Count((src == 2) ? "source_valid_encoding" : "source_mutated_valid_encoding");
      structured = true;
   }
   if (in.size() > 4*1024*1024) return 0;
   if (vf::Verbose()) fprintf(stderr, "INPUT which=%u src=%u (%zu bytes): %s\n", which, src, in.size(), vf::Hex(in.data(), in.size(), 600).c_str());

   if (which == 1)
   {
      // hostile templated payload against a template built from a generated Message
      if (valid.GetNumNames() == 0) {(void) valid.AddInt32("i", 1); (void) valid.AddString("s", "x"); MessageRef sub = GetMessageFromPool(3); (void) sub()->AddInt8("b", 1); (void) valid.AddMessage("m", sub); (void) valid.AddMessage("m", sub); (void) valid.AddData("r", B_RAW_TYPE, "abc", 3); (void) valid.AddBool("o", true); (void) valid.AddBool("o", false);}
      MessageRef tmpl = valid.CreateMessageTemplate(); if (tmpl() == NULL) return 0;
      const uint32 tfs = valid.TemplatedFlattenedSize(*tmpl()); std::string payload(tfs, '\0'); valid.TemplatedFlatten(*tmpl(), DataFlattener((uint8 *)&payload[0], tfs));
      // byte-level mutation of the payload (it has no self-describing structure to map)
      const uint32 nm = bs.u8()%4;
      for (uint32 i=0; i<nm; i++)
      {
         const uint8_t k = bs.u8()%4;
         if ((k == 0)&&(payload.size() >= 4)) {const size_t o = (bs.u16()%(payload.size()/4))*4; hostile::wr32(payload, o, hostile::BoundaryValue(bs, hostile::rd32(payload, o), (uint32_t)(payload.size()-o-4)));}
         else if ((k == 1)&&(payload.size() > 0)) payload.resize(bs.u16()%payload.size());
         else if ((k == 2)&&(payload.size() > 0)) payload[bs.u16()%payload.size()] = (char)bs.u8();
         else {const uint32 n = bs.u8()%9; for (uint32 j=0; j<n; j++) payload.push_back((char)bs.u8());}
      }
      RunTemplated(payload, *tmpl());
      vf::Count("entry_templated");
      if (tfs > 0) vf::NonTrivial(vf::HashStr(payload, 0x7e3a));
      if (vf::WantSample()) vf::Sample("TemplatedUnflatten(template of "+Summary(mod)+", payload "+vf::Hex(payload.data(), payload.size(), 40)+")");
      return 0;
   }

   g_printMicro = ((src != 1)||(in.size() < 3000))&&(in.size() < 8192);   // printing is quadratic in the nesting depth: only for inputs nested < ~100 deep
   if ((which == 0)||(which == 4)) {RunCpp(in);   vf::Count("entry_cpp");}
   if ((which == 2)||(which == 4)) {RunMini(in);  vf::Count("entry_mini");}
   if ((which == 3)||(which == 4)) {RunMicro(in); vf::Count("entry_micro");}

   // non-trivial: the input passes the parser's first gate (magic + at least the field-count word), i.e. reaches field parsing
   const bool gate = (in.size() >= 12)&&(hostile::rd32(in, 0) == 1347235888)&&(hostile::rd32(in, 8) > 0);
   if (gate) {vf::Count("reached_field_parsing"); vf::NonTrivial(vf::HashStr(in, which));}
   vf::Count("mut_word_substitutions", hs.wordSubs); vf::Count("mut_truncations", hs.truncations); vf::Count("mut_type_swaps", hs.typeSwaps); vf::Count("mut_record_duplications", hs.dups); vf::Count("mut_noise", hs.noise);
   (void) structured;
   if ((gate)&&(vf::WantSample())) {static const char * W[] = {"C++", "templated", "mini", "micro", "C++ + mini + micro"}; vf::Sample(std::string(W[which])+" <- "+vf::Hex(in.data(), in.size(), 72)+" ("+std::to_string(in.size())+" bytes)");}
   return 0;
}
