// C20: a tree of PulseNodes driven through a PulseNodeManager subclass under a simulated clock,
// against a model of (attached?, valid requested time) per node.  Callbacks may invalidate,
// detach, attach and re-parent nodes; the unit of observation is the wait boundary (DESIGN C20).
#include "engine/harness.h"
#include <algorithm>
#include "util/PulseNode.h"
#include "system/SetupSystem.h"
#include <vector>
#include <set>
using namespace muscle;
const char * vf_harness_name = "c20_pulsenode";
typedef vf::BS BS;
#define FAIL(...) vf::Fail(__VA_ARGS__)
static const uint64 NEVER = MUSCLE_TIME_NEVER;
static bool g_allowGptMut = true; static uint64_t g_gptMutations = 0; static bool IsAncestorOf(int a, int b);
static std::vector<bool> g_touched; static uint64_t g_cbMut = 0; static void CallbackMutations(int self);
struct TNode;
static std::vector<TNode *> g_nodes; static BS * g_bs; static uint64 g_now; static std::vector<int> g_pulsedThisRound; static std::vector<int> g_askedThisRound;
struct TNode : public PulseNode {
   int id; bool alive;
   // model state
   int parent;        // -1 = detached; -2 = is root
   bool valid;        // has a currently valid requested time
   uint64 req;        // the requested time (if valid)
   TNode(int i) : id(i), alive(true), parent(-1), valid(false), req(NEVER) {}
   virtual uint64 GetPulseTime(const PulseArgs & args)
   {
      if (valid) FAIL("node %d asked for its time while its previous answer is still valid", id);
      if ((parent == -1)) FAIL("detached node %d was asked for its pulse time", id);
      g_askedThisRound.push_back(id);
      const uint8_t c = g_bs->u8(); uint64 t;
      switch(c%5) {case 0: t = NEVER; break; case 1: t = (g_now > 5) ? g_now-5 : 0; break; case 2: t = g_now; break; case 3: t = g_now+1+(c/5)%20; break; default: t = g_now+100+(c/5); break;}
      valid = true; req = t; (void) args;
      // a node that answers the question may re-arm what hangs below it at the same time (a composite timer and its sub-timers): it takes back the time of one of its own
      // children, or adopts a detached node.  Both must still be asked before the wait that follows.
      if ((g_allowGptMut)&&((c/5)%13 == 12))
      {
         const int N = (int)g_nodes.size(); const uint8_t k = g_bs->u8(); const int other = 1+(k>>1)%(N-1); TNode * o = g_nodes[other];
         if ((o->alive)&&(other != id))
         {
            if ((k&1)&&(o->parent == id)) {o->InvalidatePulseTime(true); o->valid = false; g_gptMutations++;}
            else if (((k&1) == 0)&&(o->parent == -1)&&(IsAncestorOf(other, id) == false)) {PutPulseChild(o); o->parent = id; o->valid = false; g_gptMutations++;}
         }
      }
      return t;
   }
   virtual void Pulse(const PulseArgs & args)
   {
      if (parent == -1) FAIL("detached node %d was pulsed", id);
      if (!valid) FAIL("node %d pulsed without a valid requested time", id);
      if (req > g_now) FAIL("node %d pulsed at %llu before its time %llu", id, (unsigned long long)g_now, (unsigned long long)req);
      if (args.GetScheduledTime() != req) FAIL("node %d: scheduled time %llu != requested %llu", id, (unsigned long long)args.GetScheduledTime(), (unsigned long long)req);
      if (args.GetCallbackTime() != g_now) FAIL("node %d: callback time wrong", id);
      for (size_t i=0;i<g_pulsedThisRound.size();i++) if (g_pulsedThisRound[i] == id) FAIL("node %d pulsed twice in one round", id);
      g_pulsedThisRound.push_back(id); if (vf::Verbose()) fprintf(stderr, "  pulse %d (req %llu now %llu)\n", id, (unsigned long long)req, (unsigned long long)g_now);
      valid = false;   // per PulseAux: after Pulse() our scheduled time becomes invalid and we will be asked again
      CallbackMutations(id);
   }
};
static bool IsAncestor(int a, int b);
static bool IsAttached(int i) {while(true) {TNode * n = g_nodes[i]; if (!n->alive) return false; if (n->parent == -2) return true; if (n->parent == -1) return false; i = n->parent;}}
static bool IsAncestorOf(int a, int b) {return IsAncestor(a, b);}
static bool IsAncestor(int a, int b) {/* is a an ancestor of (or equal to) b */ while(b >= 0) {if (a == b) return true; b = g_nodes[b]->parent;} return false;}
static std::set<int> g_mayBeOnStack; static uint64_t g_cbDestroys = 0; static bool g_allowCbMut = true; static uint64_t g_mutThisRound = 0, g_deferrals = 0, g_rounds = 0, g_roundsWithMut = 0;
static void CallbackMutations(int self)
{
   if (g_allowCbMut == false) return;
   const int N = (int)g_nodes.size();
   // The pulse is running inside PulseAux() of the callback's node and of every node above it -- whatever earlier callbacks of this round did to the links since those
   // frames were entered.  The union, over the callbacks of this round, of the ancestor chains at callback entry contains every node with a live frame (frames entered
   // since the previous callback are linked by intact links down to a frame that was already live then).
   for (int i=self; i>=0; i=g_nodes[i]->parent) g_mayBeOnStack.insert(i);
   const std::set<int> & onStack = g_mayBeOnStack;
   const uint32 n = g_bs->u8()%3;
   for (uint32 k=0;k<n;k++)
   {
      const uint8_t op = g_bs->u8()%5; const int a = 1+g_bs->u8()%(N-1), b = g_bs->u8()%N; TNode * na = g_nodes[a]; TNode * nb = g_nodes[b];
      if ((!na->alive)||(!nb->alive)) continue;
      g_cbMut++; g_mutThisRound++; if (vf::Verbose()) fprintf(stderr, "    callback of %d: op %u a=%d b=%d\n", self, (unsigned)op, a, b);
      switch(op)
      {
         case 0: na->InvalidatePulseTime((g_bs->u8()&1)!=0); na->valid = false; break;
         case 1: if ((na->parent >= 0)&&((a == self)||(!IsAncestor(a, self)))) {g_nodes[na->parent]->RemovePulseChild(na); na->parent = -1; na->valid = false; g_touched[a] = true;} break;   // never detach a proper ancestor of the running callback
         case 2: if ((na->parent == -1)&&(!IsAncestor(a, b))&&(a != b)) {nb->PutPulseChild(na); na->parent = b; na->valid = false; g_touched[a] = true;} break;                               // attach a detached node anywhere
         case 3: if ((na->parent >= 0)&&(!IsAncestor(a, self))&&(!IsAncestor(a, b))&&(a != b)) {nb->PutPulseChild(na); na->parent = b; na->valid = false; g_touched[a] = true;} break;      // re-parent a node that is not on the call stack
         case 4: if ((onStack.count(a) == 0)&&(g_bs->u8()%2 == 0)) {for (int i=0;i<N;i++) if (g_nodes[i]->alive && g_nodes[i]->parent == a) {g_nodes[i]->parent = -1; g_nodes[i]->valid = false; g_touched[i] = true;} delete na; g_nodes[a] = new TNode(a); g_touched[a] = true; g_cbDestroys++;} break;   // destroy a node that is not on the call stack (a sibling, a cousin, a subtree elsewhere): its children become detached
      }
   }
}
static bool TouchedChain(int i) {while(i >= 0) {if (g_touched[i]) return true; i = g_nodes[i]->parent;} return false;}
class Mgr : public PulseNodeManager {public: uint64 GetMin(PulseNode & root, uint64 now) {uint64 m = MUSCLE_TIME_NEVER; CallGetPulseTimeAux(root, now, m); return m;} void DoPulse(PulseNode & root, uint64 now) {CallPulseAux(root, now);}};
static int Depth(int i) {int d = 0; while((i >= 0)&&(g_nodes[i]->parent >= 0)) {i = g_nodes[i]->parent; d++;} return d;}
extern "C" int vf_run_case(const uint8_t * data, size_t size)
{
   static CompleteSetupSystem * css = NULL; if (css == NULL) css = new CompleteSetupSystem;
   BS bs(data, size); g_bs = &bs; g_now = 1000; g_allowCbMut = true; g_cbDestroys = 0; g_allowGptMut = true; g_gptMutations = 0;
   for (size_t i=0;i<g_nodes.size();i++) delete g_nodes[i]; g_nodes.clear();
   uint64_t h = 11; bool multiDepthPulse = false, cbMutCase = false, deferredCase = false, invalidatedBeforePulse = false; uint32 cycles = 0, totalPulses = 0; std::string trace; const bool wantTrace = vf::WantSample();
   Mgr mgr; const int N = 7; for (int i=0;i<N;i++) g_nodes.push_back(new TNode(i)); g_nodes[0]->parent = -2;
   int steps = 0;
   while(!bs.done() && steps++ < 80)
   {
      const size_t posBefore = bs.pos;
      const uint8_t op = bs.u8()%8; const int a = 1+bs.u8()%(N-1), b = bs.u8()%N;
      TNode * na = g_nodes[a]; TNode * nb = g_nodes[b];
      if (vf::Verbose()) fprintf(stderr, " op %u a=%d b=%d\n", op, a, b);
      switch(op)
      {
         case 0: case 1: if (na->alive && nb->alive && !IsAncestor(a, b)) {nb->PutPulseChild(na); na->parent = b; na->valid = false; /* re-attached nodes get re-asked: RemovePulseChild clears validity; a fresh PutPulseChild of a detached node keeps whatever validity it had? model conservatively below */} break;
         case 2: if (na->alive && na->parent >= 0) {g_nodes[na->parent]->RemovePulseChild(na); na->parent = -1; na->valid = false;} break;
         case 3: if (na->alive) {na->InvalidatePulseTime((bs.u8()&1)!=0); na->valid = false;} break;
         case 4: if (na->alive && (bs.u8()%4==0)) {/* destroy: children become detached */ for (int i=0;i<N;i++) if (g_nodes[i]->alive && g_nodes[i]->parent == a) {g_nodes[i]->parent = -1; g_nodes[i]->valid = false;} delete na; g_nodes[a] = new TNode(a); } break;
         default:
         {
            // one event-loop cycle: ask, advance the clock, pulse
            g_askedThisRound.clear();
            const uint64 m = mgr.GetMin(*g_nodes[0], g_now);
            uint64 expect = NEVER; for (int i=0;i<N;i++) if (IsAttached(i)) {TNode * n = g_nodes[i]; if (!n->valid) FAIL("attached node %d was not asked for its time before the wait", i); if (n->req < expect) expect = n->req;}
            if (m != expect) FAIL("root reports wake-up %llu, min of requested times is %llu", (unsigned long long)m, (unsigned long long)expect);
            const uint8_t ab = bs.u8(); const uint8_t adv = ab%4; bool invalidatedNow = false;
            // what an event loop's I/O handlers do between the wait and the pulse: a node (the root included) takes back the time it asked for
            if ((ab>>2)%8 == 7) {const int who = ((ab>>5)&1) ? 0 : (int)(1+(ab>>6)%(N-1)); TNode * n = g_nodes[who]; if (n->alive) {n->InvalidatePulseTime(true); n->valid = false; invalidatedBeforePulse = true; invalidatedNow = (who != 0);   /* the root has no ancestors to re-queue: taking back its own time defers nobody */}}
            if (adv == 0) g_now += 1; else if ((adv == 1)&&(m != NEVER)&&(m > g_now)) g_now = m; else if (adv == 2) g_now += 30; else g_now += 200;
            g_pulsedThisRound.clear(); g_touched.assign(N, false); g_mutThisRound = 0; if (invalidatedNow) g_mutThisRound++;   /* like a callback mutation, this re-queues the node's ancestors: due nodes below them may be deferred to the follow-up cycle */ g_mayBeOnStack.clear(); if (vf::Verbose()) {fprintf(stderr, "ROUND now=%llu:", (unsigned long long)g_now); for (int i=0;i<N;i++) fprintf(stderr, " [%d p=%d v=%d req=%lld]", i, g_nodes[i]->parent, (int)g_nodes[i]->valid, (long long)g_nodes[i]->req); fprintf(stderr, "\n");}
            mgr.DoPulse(*g_nodes[0], g_now);
            std::set<int> got(g_pulsedThisRound.begin(), g_pulsedThisRound.end());
            g_rounds++; if (g_mutThisRound) {g_roundsWithMut++; cbMutCase = true;}
            cycles++; totalPulses += (uint32) got.size();
            {std::set<int> depths; for (std::set<int>::const_iterator gi = got.begin(); gi != got.end(); ++gi) depths.insert(Depth(*gi)); if ((got.size() >= 2)&&(depths.size() >= 2)) multiDepthPulse = true;}
            if ((wantTrace)&&(trace.size() < 900)) {char tb[96]; snprintf(tb, sizeof(tb), "cycle(now=%llu wake=%lld fired=%zu cbmut=%llu); ", (unsigned long long)g_now, (long long)m, got.size(), (unsigned long long)g_mutThisRound); trace += tb;}
            std::vector<int> deferred; for (int i=0;i<N;i++) if (IsAttached(i) && g_nodes[i]->valid && (g_nodes[i]->req <= g_now)) deferred.push_back(i);
            if ((deferred.size() > 0)&&(g_mutThisRound == 0)) FAIL("node %d is attached, valid and due but was not pulsed in a cycle without callback mutations", deferred[0]);
            if (deferred.size() > 0)
            {
               // a callback changed the tree: the library may defer due nodes to the next cycle, but then it must not let the loop wait, and a quiet next cycle must fire them all
               g_deferrals++; deferredCase = true; g_allowCbMut = false; g_allowGptMut = false; g_askedThisRound.clear();
               const uint64 m2 = mgr.GetMin(*g_nodes[0], g_now);
               uint64 expect2 = NEVER; for (int i=0;i<N;i++) if (IsAttached(i)) {TNode * n = g_nodes[i]; if (!n->valid) FAIL("attached node %d was not asked before the follow-up wait", i); if (n->req < expect2) expect2 = n->req;}
               if (m2 != expect2) FAIL("follow-up wake-up %llu != min requested %llu", (unsigned long long)m2, (unsigned long long)expect2);
               if (m2 > g_now) FAIL("due node %d was deferred and the loop would now wait until %llu", deferred[0], (unsigned long long)m2);
               g_pulsedThisRound.clear(); mgr.DoPulse(*g_nodes[0], g_now);
               std::set<int> got2(g_pulsedThisRound.begin(), g_pulsedThisRound.end());
               for (size_t d=0; d<deferred.size(); d++) if (got2.count(deferred[d]) == 0) FAIL("deferred node %d did not fire in the quiet follow-up cycle", deferred[d]);
               g_allowCbMut = true; g_allowGptMut = true;
            }
         }
         break;
      }
      h = vf::Hash64(data+posBefore, bs.pos-posBefore, h);
      if ((wantTrace)&&(op < 5)&&(trace.size() < 900)) {static const char * NM[] = {"attach", "attach", "detach", "invalidate", "destroy?"}; char tb[64]; snprintf(tb, sizeof(tb), "%s(%d,%d); ", NM[op], a, b); trace += tb;}
   }
   vf::Count("pulse_cycles", cycles); vf::Count("callbacks_fired", totalPulses);
   if (multiDepthPulse) vf::Count("case_pulse_fired_nodes_at_two_depths");
   if (cbMutCase) vf::Count("case_with_callback_mutation"); if (g_cbDestroys) vf::Count("case_callback_destroyed_a_node_off_the_call_stack"); if (invalidatedBeforePulse) vf::Count("case_node_invalidated_between_wait_and_pulse"); if (g_gptMutations) vf::Count("case_time_question_answered_by_re_arming_children");
   if (deferredCase) vf::Count("case_with_deferred_due_node");
   if ((multiDepthPulse)||(cbMutCase)) {vf::NonTrivial(h); if (wantTrace) vf::Sample(trace);}
   return 0;
}
