// C12: PacketTunnelIOGateway / MiniPacketTunnelIOGateway over a faulty datagram transport.
// Safety (always): every delivered Message is bit-identical to a Message that *that sender* sent.
// Completeness (fault-free plans): every sent Message that fits the gateway's limits arrives once, in order.
// Short packet sequences get their fault plans enumerated exhaustively ({deliver, drop, duplicate, swap-with-next}^n).
#include "engine/harness.h"
#include "iogateway/PacketTunnelIOGateway.h"
#include "iogateway/MiniPacketTunnelIOGateway.h"
#include "iogateway/MessageIOGateway.h"
#include "iogateway/RawDataMessageIOGateway.h"
#include "dataio/PacketDataIO.h"
#include "dataio/ByteBufferPacketDataIO.h"
#include "dataio/PacketizedProxyDataIO.h"
#include "transport/choppy.h"
#include "system/SetupSystem.h"
#include "syslog/SysLog.h"
#include <deque>
#include <vector>
#include <string>
#include <set>

using namespace muscle;
const char * vf_harness_name = "c12_tunnel";
typedef vf::BS BS;

struct Pkt {std::string b; int from;};
struct Net {std::deque<Pkt> q;};
class PktIO : public PacketDataIO
{
public:
   PktIO(Net * in, Net * out, uint32 mtu, int id, BS * bs) : _in(in), _out(out), _mtu(mtu), _id(id), _bs(bs), _allowBlock(false), _blocked(0) {}
   virtual uint32 GetMaximumPacketSize() const {return _mtu;}
   virtual const IPAddressAndPort & GetPacketSendDestination() const {return _d;}
   virtual void SetPacketSendDestination(const IPAddressAndPort & d) {_d = d;}
   virtual io_status_t ReadFrom(void * b, uint32 size, IPAddressAndPort & src)
   {
      if ((_in == NULL)||(_in->q.empty())) return io_status_t((int32)0);
      Pkt & p = _in->q.front(); const uint32 n = muscleMin(size, (uint32)p.b.size()); if (n) memcpy(b, p.b.data(), n);
      src = IPAddressAndPort(localhostIP, (uint16)(1000+p.from)); _in->q.pop_front(); return io_status_t((int32)n);
   }
   virtual io_status_t WriteTo(const void * b, uint32 size, const IPAddressAndPort &)
   {
      if ((_allowBlock)&&(_bs->done() == false)&&(_bs->u8()%6 == 0)) {_blocked++; return io_status_t((int32)0);}   // would-block: nothing was sent
      if (size > _mtu) vf::Fail("gateway wrote a %u-byte packet over a transport whose MTU is %u", size, _mtu);
      Pkt p; p.b.assign((const char *)b, size); p.from = _id; _out->q.push_back(p); return io_status_t((int32)size);
   }
   virtual void FlushOutput() {} virtual void Shutdown() {}
   virtual const ConstSocketRef & GetReadSelectSocket() const {return GetNullSocket();}
   virtual const ConstSocketRef & GetWriteSelectSocket() const {return GetNullSocket();}
   Net * _in; Net * _out; uint32 _mtu; int _id; BS * _bs; bool _allowBlock; uint32 _blocked; IPAddressAndPort _d;
};
struct Recv : public AbstractGatewayMessageReceiver
{
   std::vector<std::pair<std::string, int> > got; bool rawChunks; Recv() : rawChunks(false) {}
   virtual void MessageReceivedFromGateway(const MessageRef & m, void * ud)
   {
      const IPAddressAndPort * iap = (const IPAddressAndPort *) ud;
      if (rawChunks) {const void * p; uint32 n; for (uint32 i=0; m()->FindData(PR_NAME_DATA_CHUNKS, B_RAW_TYPE, i, &p, &n).IsOK(); i++) got.push_back(std::make_pair(std::string((const char *)p, n), iap ? (int)iap->GetPort()-1000 : -1)); return;}
      ByteBufferRef b = m()->FlattenToByteBuffer();
      got.push_back(std::make_pair(std::string((const char *)b()->GetBuffer(), b()->GetNumBytes()), iap ? (int)iap->GetPort()-1000 : -1));
   }
};

struct Cfg {bool mini, slave; uint32 mtu; uint8 level; int nsend; bool libTransport; bool rawSlave;};   // rawSlave: the slave gateway is a RawDataMessageIOGateway, which turns one Message into one buffer per chunk   // libTransport: the receiver reads through the library's own ByteBufferPacketDataIO instead of the harness transport
static AbstractMessageIOGatewayRef MakeTunnel(const Cfg & c, bool receiver)
{
   AbstractMessageIOGatewayRef sl; if (c.slave) {if (c.rawSlave) sl.SetRef(new RawDataMessageIOGateway); else sl.SetRef(new MessageIOGateway); if (receiver) sl()->SetPacketRemoteLocationTaggingEnabled(false);}   // a packet-mode slave tags Messages with the sender's address by default: off, so received == sent
   if (c.mini) {MiniPacketTunnelIOGateway * g = new MiniPacketTunnelIOGateway(sl, c.mtu); if (receiver == false) g->SetZLibCompressionLevel(c.level); return AbstractMessageIOGatewayRef(g);}
   return AbstractMessageIOGatewayRef(new PacketTunnelIOGateway(sl, c.mtu));
}

static void Deliver(const Cfg & c, const std::vector<Pkt> & arrived, BS * bs, Recv & recv)
{
   Net in; for (size_t i=0; i<arrived.size(); i++) in.q.push_back(arrived[i]);
   AbstractMessageIOGatewayRef rcv = MakeTunnel(c, true);
   if (c.libTransport)
   {
      Queue<ConstByteBufferRefAndIPAddressAndPort> bufs;
      for (size_t i=0; i<arrived.size(); i++) {ByteBufferRef bb = GetByteBufferFromPool((uint32)arrived[i].b.size(), (const uint8 *)arrived[i].b.data()); (void) bufs.AddTail(ConstByteBufferRefAndIPAddressAndPort(bb, IPAddressAndPort(localhostIP, (uint16)(1000+arrived[i].from))));}
      ByteBufferPacketDataIO * bio = new ByteBufferPacketDataIO(bufs, c.mtu); rcv()->SetDataIO(DataIORef(bio));
      for (int r=0; (r<20000)&&(bio->GetBuffersToRead().HasItems()); r++) if (rcv()->DoInput(recv).IsError()) vf::Fail("tunnel receiver reported an I/O error (ByteBufferPacketDataIO transport)");
      return;
   }
   PktIO * rio = new PktIO(&in, NULL, c.mtu, 9, bs); rcv()->SetDataIO(DataIORef(rio));
   for (int r=0; (r<20000)&&(in.q.empty() == false); r++) if (rcv()->DoInput(recv).IsError()) vf::Fail("tunnel receiver reported an I/O error");
}

static void CheckSafety(const Cfg & c, const Recv & recv, const std::multiset<std::string> * sentSet, const char * what)
{
   for (size_t i=0; i<recv.got.size(); i++)
   {
      const int from = recv.got[i].second;
      if ((from < 0)||(from >= c.nsend)) vf::Fail("%s: delivered Message with unknown source %d", what, from);
      if (sentSet[from].count(recv.got[i].first) == 0) vf::Fail("%s: delivered Message %zu (%zu bytes) was never sent by sender %d (mini=%d mtu=%u slave=%d level=%u): %s", what, i, recv.got[i].first.size(), from, (int)c.mini, c.mtu, (int)c.slave, c.level, vf::Hex(recv.got[i].first.data(), recv.got[i].first.size(), 48).c_str());
   }
}

// the tunnel over a byte stream: the library's PacketizedProxyDataIO frames each packet with a length prefix; the sender writes into an in-memory
// pipe, the receiver reads it in generated segment sizes (incl. 0 = would-block and 1 byte at a time).  Nothing is lost: everything sent must arrive, once, in order.
static int RunStream(Cfg c, BS & bs)
{
   using namespace choppy;
   c.nsend = 1;
   Pipe pipe; Plan wplan(&bs); wplan.generous = true; Plan rplan(&bs);
   const bool choppyWrites = ((c.mtu%2) == 1);
   // a third of the packet-tunnel cases with a slave gateway use a RawDataMessageIOGateway slave: raw chunks, some of them larger than what that gateway reads in one call (8192 bytes),
   // so the tunnel has to keep calling its slave until the reassembled buffer is used up.  Raw data has no framing of its own: what must arrive is the same bytes in the same order.
   const bool rawStream = (c.slave)&&(c.mini == false)&&((c.mtu/2)%3 == 0); if (rawStream) c.rawSlave = true; std::string rawSent;     // the stream below accepts the sender's writes in generated pieces too (short writes, would-block): back-pressure on a perfectly reliable transport
   DataIORef childW(new ChopIO(NULL, &pipe, &wplan)); PacketizedProxyDataIO * pw = new PacketizedProxyDataIO(childW, c.mtu); DataIORef pwRef(pw);
   AbstractMessageIOGatewayRef snd = MakeTunnel(c, false); snd()->SetDataIO(pwRef);
   std::vector<std::string> sent; uint64_t h = 77|((uint64_t)c.mtu<<8)|(c.mini ? 1 : 0); size_t biggest = 0;
   const uint32 fakeMtu = MUSCLE_MAX_PAYLOAD_BYTES_PER_UDP_ETHERNET_PACKET;
   const uint32 nm = 1+bs.u8()%6;
   for (uint32 k=0; k<nm; k++)
   {
      if (rawStream)
      {
         MessageRef rm = GetMessageFromPool(PR_COMMAND_RAW_DATA); const uint32 nchunks = 1+bs.u8()%3;
         for (uint32 q=0; q<nchunks; q++) {const uint32 clen = (bs.u8()%3 == 0) ? 1+bs.range(0, 20000) : 1+bs.range(0, 300); std::string v(clen, '\0'); uint32 x = bs.u8()+k*7+q; for (uint32 j=0; j<clen; j++) {x = x*1664525u+1013904223u; v[j] = (char)(x>>24);} (void) rm()->AddData(PR_NAME_DATA_CHUNKS, B_RAW_TYPE, v.data(), clen); rawSent += v; if (clen > biggest) biggest = clen;}
         if (snd()->AddOutgoingMessage(rm).IsError()) vf::Fail("AddOutgoingMessage failed"); h = vf::HashStr(rawSent.substr(rawSent.size() > 64 ? rawSent.size()-64 : 0), h^rawSent.size());
         continue;
      }
      MessageRef m = GetMessageFromPool(bs.u8()%4); uint32 len = (bs.u8()%3 == 0) ? bs.range(0, 6*c.mtu) : bs.range(0, 60); if (len > 8000) len = 8000;
      if ((c.slave)&&(vf::AllowKnown("F25") == false)&&(len+64 > fakeMtu)) {len = bs.range(0, 200); vf::Excluded("F25");}
      if (len) {std::string v(len, '\0'); uint32 x = bs.u8(); for (uint32 j=0; j<len; j++) {x = x*1664525u+1013904223u; v[j] = (char)(x>>24);} (void) m()->AddData("d", B_RAW_TYPE, v.data(), len);}
      (void) m()->AddInt32("seq", (int32)k);
      ByteBufferRef fb = m()->FlattenToByteBuffer(); const std::string fl((const char *)fb()->GetBuffer(), fb()->GetNumBytes());
      const uint32 overhead = c.mini ? (12+4+(c.slave ? 8 : 0)) : 0; const bool fits = (c.mini == false)||(fl.size()+overhead <= c.mtu);
      if (snd()->AddOutgoingMessage(m).IsError()) vf::Fail("AddOutgoingMessage failed");
      if (fits) sent.push_back(fl); h = vf::HashStr(fl, h); if (fl.size() > biggest) biggest = fl.size();
   }
   if (choppyWrites) wplan.generous = false;
   for (int r=0; r<50000; r++)
   {
      if (r > 3000) wplan.generous = true;
      {int spins = 0; while(pw->HasBufferedOutput()) {pw->WriteBufferedOutput(); if (++spins > 40) wplan.generous = true;}}
      if (snd()->HasBytesToOutput() == false) break;
      if (snd()->DoOutput().IsError()) vf::Fail("tunnel sender reported an I/O error over the packetized stream transport");
      if (r == 49999) vf::Fail("tunnel sender never finished its output over the packetized stream transport");
   }
   wplan.generous = true; while(pw->HasBufferedOutput()) pw->WriteBufferedOutput();
   const size_t streamBytes = pipe.q.size(); if (wplan.partialOps) vf::Count("case_stream_transport_with_short_writes");
   DataIORef childR(new ChopIO(&pipe, NULL, &rplan)); DataIORef prRef(new PacketizedProxyDataIO(childR, c.mtu));
   AbstractMessageIOGatewayRef rcv = MakeTunnel(c, true); rcv()->SetDataIO(prRef); Recv recv; recv.rawChunks = rawStream;
   for (int r=0; (r<200000)&&(pipe.q.size()); r++) {if (r > 20000) rplan.generous = true; if (rcv()->DoInput(recv).IsError()) vf::Fail("tunnel receiver reported an I/O error over the packetized stream transport (mini=%d mtu=%u slave=%d, %zu stream bytes, %llu partial reads so far)", (int)c.mini, c.mtu, (int)c.slave, streamBytes, (unsigned long long)rplan.partialOps);}
   for (int r=0; r<8; r++) (void) rcv()->DoInput(recv);
   if (rawStream)
   {
      std::string rawGot; for (size_t i=0; i<recv.got.size(); i++) rawGot += recv.got[i].first;
      if (rawGot != rawSent) vf::Fail("packetized stream transport with a raw-data slave gateway (nothing lost): %zu bytes sent in chunks of up to %zu bytes, %zu bytes received%s (mtu=%u, %zu stream bytes)", rawSent.size(), biggest, rawGot.size(), (rawGot.size() == rawSent.size()) ? ", different bytes" : "", c.mtu, streamBytes);
      vf::Count("mode_packetized_stream_transport"); vf::Count("packet_tunnel"); vf::Count("stream_transport_with_raw_data_slave_gateway"); if (biggest > 8192) vf::Count("case_raw_chunk_larger_than_one_slave_read");
      if ((rplan.partialOps >= 2)&&(rawSent.size())) vf::NonTrivial(vf::HashMix(h, rplan.partialOps));
      return 0;
   }
   std::vector<std::string> g; for (size_t i=0; i<recv.got.size(); i++) g.push_back(recv.got[i].first);
   if (g != sent) vf::Fail("packetized stream transport (nothing lost): %zu (fitting) Messages sent, %zu received%s (mini=%d mtu=%u slave=%d, %zu stream bytes, %llu partial reads)", sent.size(), g.size(), (g.size() == sent.size()) ? ", different content or order" : "", (int)c.mini, c.mtu, (int)c.slave, streamBytes, (unsigned long long)rplan.partialOps);
   vf::Count("mode_packetized_stream_transport"); vf::Count(c.mini ? "mini_tunnel" : "packet_tunnel");
   if ((rplan.partialOps >= 2)&&(sent.size() >= 1)) {vf::NonTrivial(vf::HashMix(h, rplan.partialOps)); if (vf::WantSample()) {char b[200]; snprintf(b, sizeof(b), "%s over PacketizedProxyDataIO mtu=%u slave=%d: %zu Messages (largest %zu bytes) in %zu stream bytes, %llu partial reads", c.mini ? "mini tunnel" : "packet tunnel", c.mtu, (int)c.slave, sent.size(), biggest, streamBytes, (unsigned long long)rplan.partialOps); vf::Sample(b);}}
   return 0;
}

extern "C" int vf_run_case(const uint8_t * data, size_t size)
{
   static CompleteSetupSystem * css = NULL; if (css == NULL) {css = new CompleteSetupSystem; SetConsoleLogLevel(MUSCLE_LOG_NONE);}
   if (size < 8) return 0;
   BS bs(data, size);
   Cfg c; c.mini = bs.flip(); const uint8_t faultMode = bs.u8()%4;   // 0 fault-free, 1 sampled faults, 2 exhaustive plans (short sequences), 3 fault-free with would-block writes
   c.slave = bs.flip(); const uint8_t nsb = bs.u8(); c.nsend = 1+nsb%3; c.libTransport = ((nsb/3)%2 == 1); c.rawSlave = false; const bool streamMode = ((nsb/6)%8 == 7)&&((faultMode == 0)||(faultMode == 3));
   {const uint8_t k = bs.u8()%6; c.mtu = c.mini ? ((k == 0) ? 17 : ((k == 1) ? bs.range(17, 60) : ((k == 2) ? 1500 : bs.range(60, 1500)))) : ((k == 0) ? 25 : ((k == 1) ? bs.range(25, 60) : ((k == 2) ? 1500 : bs.range(26, 400))));}
   c.level = c.mini ? (uint8)("\0\1\x09\6"[bs.u8()%4]) : 0;
   const bool blocks = (faultMode == 3)||((faultMode == 1)&&(bs.flip()));
   const bool wrap = (c.mini == false)&&(bs.u8()%3 == 0);
   // known finding F25: with a slave gateway on a packet transport the reassembled buffer is fed through a fake packet DataIO of the compile-time UDP payload size: larger Messages are dropped
   const uint32 fakeMtu = MUSCLE_MAX_PAYLOAD_BYTES_PER_UDP_ETHERNET_PACKET; const bool f25 = vf::AllowKnown("F25");

   if (streamMode) return RunStream(c, bs);
   c.rawSlave = (c.slave)&&(c.mini == false)&&((nsb/48)%2 == 1);
   Net wire; AbstractMessageIOGatewayRef snd[3]; PktIO * sio[3];
   for (int i=0; i<c.nsend; i++)
   {
      sio[i] = new PktIO(NULL, &wire, c.mtu, i, &bs); sio[i]->_allowBlock = blocks; snd[i] = MakeTunnel(c, false); snd[i]()->SetDataIO(DataIORef(sio[i]));
      if (wrap) static_cast<PacketTunnelIOGateway *>(snd[i]())->VerifSetSendMessageIDCounter(0xFFFFFFFFu-(uint32)(bs.u8()%4));
   }
   std::vector<std::string> sent[3]; std::multiset<std::string> sentSet[3]; uint64_t h = (c.mini?1:0)|(c.slave?2:0)|((uint64_t)c.mtu<<8)|((uint64_t)c.level<<40);
   const uint32 nm = 1+bs.u8()%((faultMode == 2) ? 3 : 6); size_t biggest = 0;
   for (uint32 k=0; k<nm; k++)
   {
      if (c.rawSlave)
      {
         // a raw-data Message of 1-4 chunks: the slave gateway hands the tunnel one buffer per chunk, and the receiving slave delivers them as chunks again, in order
         const int who = bs.u8()%c.nsend; MessageRef m = GetMessageFromPool(PR_COMMAND_RAW_DATA); const uint32 nchunks = 1+bs.u8()%4;
         for (uint32 q=0; q<nchunks; q++) {const uint32 len = 1+bs.range(0, 150); std::string v(len, '\0'); uint32 x = bs.u8()+k*7+q; const bool same = bs.flip(); for (uint32 j=0; j<len; j++) {x = x*1664525u+1013904223u; v[j] = same ? (char)('A'+(k+q)%4) : (char)(x>>24);} (void) m()->AddData(PR_NAME_DATA_CHUNKS, B_RAW_TYPE, v.data(), len); sent[who].push_back(v); sentSet[who].insert(v); h = vf::HashStr(v, h^(uint64_t)who); if (v.size() > biggest) biggest = v.size();}
         if (snd[who]()->AddOutgoingMessage(m).IsError()) vf::Fail("AddOutgoingMessage failed");
         if (bs.flip()) for (int i=0; i<c.nsend; i++) (void) snd[i]()->DoOutput();
         continue;
      }
      const int who = bs.u8()%c.nsend; MessageRef m = GetMessageFromPool(bs.u8()%4);
      const uint8_t lk = bs.u8()%4; uint32 len = (lk == 0) ? bs.range(0, 10*c.mtu) : ((lk == 1) ? 0 : bs.range(0, 60)); if (len > 12000) len = 12000;
      if ((c.slave)&&(f25 == false)&&(len+64 > fakeMtu)) {len = bs.range(0, 200); vf::Excluded("F25");}
      if (len)
      {
         std::string v(len, '\0'); const bool compressible = bs.flip(); uint32 x = bs.u8();
         for (uint32 j=0; j<len; j++) {x = x*1664525u+1013904223u; v[j] = compressible ? (char)(j%3) : (char)(x>>24);}
         (void) m()->AddData("d", B_RAW_TYPE, v.data(), len);
      }
      (void) m()->AddInt32("seq", (int32)k);
      ByteBufferRef fb = m()->FlattenToByteBuffer(); const std::string fl((const char *)fb()->GetBuffer(), fb()->GetNumBytes());
      // the mini tunnel cannot fragment: a Message bigger than one packet's payload is dropped by design (documented)
      const uint32 overhead = c.mini ? (12+4+(c.slave ? 8 : 0)) : 0; const bool fits = (c.mini == false)||(fl.size()+overhead <= c.mtu);
      if (snd[who]()->AddOutgoingMessage(m).IsError()) vf::Fail("AddOutgoingMessage failed");
      if (fits) sent[who].push_back(fl);
      sentSet[who].insert(fl); h = vf::HashStr(fl, h^(uint64_t)who); if (fl.size() > biggest) biggest = fl.size();
      if (bs.flip()) for (int i=0; i<c.nsend; i++) (void) snd[i]()->DoOutput();
   }
   // an event loop calls DoOutput() only while HasBytesToOutput() says so: flush exactly like that
   for (int r=0; r<50000; r++) {bool any = false; for (int i=0; i<c.nsend; i++) if (snd[i]()->HasBytesToOutput()) {any = true; if (snd[i]()->DoOutput().IsError()) vf::Fail("tunnel sender reported an I/O error");} if (any == false) break; if (r == 49999) vf::Fail("tunnel sender never finished its output");}
   uint32 blocked = 0; for (int i=0; i<c.nsend; i++) blocked += sio[i]->_blocked;

   std::vector<Pkt> packets(wire.q.begin(), wire.q.end());
   const bool multiFragment = (c.mini == false)&&(biggest+24 > c.mtu);
   bool nontrivial = false; uint64_t plans = 0;

   if (faultMode == 2)
   {
      if ((packets.size() >= 1)&&(packets.size() <= 6))
      {
         // exhaustive: every plan over {deliver, drop, duplicate, swap-with-next} for this packet sequence, each against a fresh receiver
         const size_t n = packets.size(); uint64_t total = 1; for (size_t i=0; i<n; i++) total *= 4;
         for (uint64_t plan=0; plan<total; plan++)
         {
            std::vector<Pkt> arrived; uint64_t q = plan; std::vector<int> act(n); for (size_t i=0; i<n; i++) {act[i] = (int)(q%4); q /= 4;}
            for (size_t i=0; i<n; i++)
            {
               if (act[i] == 1) continue;
               if (act[i] == 2) {arrived.push_back(packets[i]); arrived.push_back(packets[i]); continue;}
               if ((act[i] == 3)&&(i+1 < n)) {arrived.push_back(packets[i+1]); arrived.push_back(packets[i]); i++; continue;}
               arrived.push_back(packets[i]);
            }
            Recv recv; recv.rawChunks = c.rawSlave; Deliver(c, arrived, &bs, recv); CheckSafety(c, recv, sentSet, "exhaustive fault plan");
            if (plan == 0) {for (int s=0; s<c.nsend; s++) {std::vector<std::string> g; for (size_t i=0; i<recv.got.size(); i++) if (recv.got[i].second == s) g.push_back(recv.got[i].first); if (g != sent[s]) vf::Fail("fault-free plan: sender %d sent %zu (fitting) Messages, receiver got %zu (mini=%d mtu=%u slave=%d level=%u)", s, sent[s].size(), g.size(), (int)c.mini, c.mtu, (int)c.slave, c.level);}}
            plans++;
         }
         vf::Count("exhaustive_plan_sets"); vf::Count("exhaustive_fault_plans", plans);
         nontrivial = (n >= 2)&&(multiFragment||(c.nsend > 1));
      }
      else vf::Count("exhaustive_skipped_sequence_too_long");
   }
   else
   {
      std::vector<Pkt> arrived; bool hit = false; std::deque<Pkt> w(packets.begin(), packets.end());
      while(w.empty() == false)
      {
         Pkt p = w.front(); w.pop_front();
         const uint8 f = (faultMode == 1) ? (uint8)(bs.u8()%8) : 7;
         if (f == 0) {hit = true; continue;}
         if (f == 1) {arrived.push_back(p); arrived.push_back(p); hit = true; continue;}
         if ((f == 2)&&(w.empty() == false)) {Pkt q = w.front(); w.pop_front(); arrived.push_back(q); arrived.push_back(p); hit = true; continue;}
         if ((f == 3)&&(arrived.size())) {arrived.push_back(arrived[bs.u8()%arrived.size()]); arrived.push_back(p); hit = true; continue;}   // replay of an old packet
         arrived.push_back(p);
      }
      Recv recv; recv.rawChunks = c.rawSlave; Deliver(c, arrived, &bs, recv); CheckSafety(c, recv, sentSet, (faultMode == 1) ? "sampled fault plan" : "fault-free");
      if (faultMode != 1)
      {
         for (int s=0; s<c.nsend; s++)
         {
            std::vector<std::string> g; for (size_t i=0; i<recv.got.size(); i++) if (recv.got[i].second == s) g.push_back(recv.got[i].first);
            if (g != sent[s]) vf::Fail("fault-free transport (would-block writes: %u): sender %d sent %zu (fitting) Messages, receiver got %zu (mini=%d mtu=%u slave=%d level=%u, %zu packets)", blocked, s, sent[s].size(), g.size(), (int)c.mini, c.mtu, (int)c.slave, c.level, packets.size());
         }
         nontrivial = (biggest+24 > 2*c.mtu)&&(c.mini == false);   // a Message spanning >= 3 packets
         if ((c.mini)&&(packets.size() >= 2)) nontrivial = true;
      }
      else nontrivial = hit&&(multiFragment||(packets.size() >= 3));
      plans = 1;
   }
   vf::Count(c.mini ? "mini_tunnel" : "packet_tunnel"); static const char * const FM[] = {"mode_fault_free", "mode_sampled_faults", "mode_exhaustive_plans", "mode_fault_free_with_would_block_writes"}; vf::Count(FM[faultMode]);
   if (c.slave) vf::Count("with_slave_gateway"); if (c.rawSlave) vf::Count("with_raw_data_slave_gateway_several_buffers_per_message"); if (c.libTransport) vf::Count("receiver_on_library_ByteBufferPacketDataIO"); if (wrap) vf::Count("message_id_wraparound"); if (c.nsend > 1) vf::Count("several_senders"); vf::Count("packets", packets.size()); vf::Count("would_block_writes", blocked);
   if (nontrivial) {vf::NonTrivial(vf::HashMix(h, faultMode)); if (vf::WantSample()) {char b[200]; snprintf(b, sizeof(b), "%s mtu=%u slave=%d level=%u senders=%d: %u Messages (largest %zu bytes) in %zu packets, %s, %llu plan(s), %u would-block writes", c.mini?"mini tunnel":"packet tunnel", c.mtu, (int)c.slave, c.level, c.nsend, nm, biggest, packets.size(), FM[faultMode], (unsigned long long)plans, blocked); vf::Sample(b);}}
   return 0;
}
