// C16: muscle::Queue<T> against a std::deque<T> model, for a trivially copyable item type (int)
// and an owning, instance-counted, poison-on-destroy type (Tracked).  Each operation's expected
// behaviour is taken from that method's own doc comment in util/Queue.h.
#include "engine/harness.h"
#include "util/Queue.h"
#include "system/SetupSystem.h"
#include <deque>
#include <algorithm>
#include <type_traits>

using namespace muscle;
const char * vf_harness_name = "c16_queue";

static int g_live = 0;
struct Tracked
{
   int v; int tag; uint32_t magic;
   Tracked(int x = 0, int t = 0) : v(x), tag(t), magic(0xC0FFEE01) {g_live++;}
   Tracked(const Tracked & r) : v(r.v), tag(r.tag), magic(0xC0FFEE01) {if (r.magic != 0xC0FFEE01) vf::Fail("copy-constructing from a destroyed/garbage Tracked"); g_live++;}
   ~Tracked() {if (magic != 0xC0FFEE01) vf::Fail("destroying a Tracked twice (or garbage)"); magic = 0xDEAD; g_live--;}
   Tracked & operator=(const Tracked & r) {if ((magic != 0xC0FFEE01)||(r.magic != 0xC0FFEE01)) vf::Fail("assigning to/from a destroyed Tracked"); v = r.v; tag = r.tag; return *this;}
   bool operator==(const Tracked & r) const {return v == r.v;}
   bool operator!=(const Tracked & r) const {return v != r.v;}
   bool operator<(const Tracked & r) const {return v < r.v;}
   bool operator>(const Tracked & r) const {return v > r.v;}
};
static inline bool Same(const int & a, const int & b) {return a == b;}
static inline bool Same(const Tracked & a, const Tracked & b) {return (a.v == b.v)&&(a.tag == b.tag);}
static inline int Val(const int & a) {return a;}
static inline int Val(const Tracked & a) {return a.v*1000+a.tag;}
template<class T> static T Mk(int v, int tag);
template<> int Mk<int>(int v, int) {return v;}
template<> Tracked Mk<Tracked>(int v, int tag) {return Tracked(v, tag);}

template <class T> static std::string Render(const std::deque<T> & d) {std::string s = "["; for (size_t i=0; (i<d.size())&&(i<24); i++) {char b[32]; snprintf(b, sizeof(b), "%s%d", i?" ":"", Val(d[i])); s += b;} if (d.size() > 24) s += " ..."; return s+"]";}

template <class T> static void Compare(const Queue<T> & q, const std::deque<T> & d, const char * after)
{
   if (q.GetNumItems() != d.size()) vf::Fail("size %u, model %zu after %s", q.GetNumItems(), d.size(), after);
   for (uint32 i=0; i<d.size(); i++) if (!Same(q[i], d[i])) vf::Fail("item %u is %d, model %d after %s (model %s)", i, Val(q[i]), Val(d[i]), after, Render(d).c_str());
   if (d.size()) {if (!Same(q.Head(), d.front()) || !Same(q.Tail(), d.back())) vf::Fail("Head/Tail after %s", after);}
   if (q.IsEmpty() != d.empty()) vf::Fail("IsEmpty after %s", after);
   if (q.GetNumAllocatedItemSlots() < q.GetNumItems()) vf::Fail("fewer slots than items after %s", after);
   uint32 l0 = 0, l1 = 0; const T * a0 = q.GetArrayPointer(0, l0); const T * a1 = q.GetArrayPointer(1, l1);
   if ((a0?l0:0)+(a1?l1:0) != d.size()) vf::Fail("array pointers cover %u+%u != %zu after %s", l0, l1, d.size(), after);
   uint32 k = 0;
   if (a0) for (uint32 i=0; i<l0; i++,k++) if (!Same(a0[i], d[k])) vf::Fail("array0 item %u after %s", i, after);
   if (a1) for (uint32 i=0; i<l1; i++,k++) if (!Same(a1[i], d[k])) vf::Fail("array1 item %u after %s", i, after);
   if (q.IsNormalized() && d.size()) {const T * h = q.HeadPointer(); for (uint32 i=0; i<d.size(); i++) if (!Same(h[i], d[i])) vf::Fail("normalized but HeadPointer() not contiguous at %u after %s", i, after);}
   if (q.IsNormalized() == false) {if (a1 == NULL) vf::Fail("not normalized but only one array segment after %s", after);}
}

struct Ctx {uint32 maxSize; bool wrappedOp; bool headMovedRealloc; bool aliasOp; bool shrink; uint64_t h; uint32 nops; std::string trace;};

template <class T> static void Run(vf::BS & bs, Ctx & cx)
{
   Queue<T> q, q2; std::deque<T> d, d2;
   int steps = 0; int nextTag = 1;
   const bool wantTrace = vf::WantSample();
   while((bs.done() == false)&&(steps++ < 200))
   {
      const uint8_t opb = bs.u8(); const uint8_t op = (opb >= 230) ? (uint8_t)(46+(opb-230)/3) : (uint8_t)(opb%46); const int v = bs.u8()%16;   /* (230..255 used to fold onto 0..25) */ const uint8_t ib = bs.u8(); uint32 idx = ib%(uint32)(d.size()+2);
      // now and then the index is not just past the end but far out: what a failed search returns (-1), MUSCLE_NO_LIMIT, the sign boundary (only for the operations whose model is a plain "valid or not")
      if (((ib/(uint32)(d.size()+2))%8 == 7)&&((op == 5)||(op == 6)||(op == 33)||(op == 40))) {static const uint32 WILD[] = {0xFFFFFFFFu, 0x80000000u, 0x7FFFFFFFu, 0xFFFFFFFEu}; idx = WILD[v%4]; vf::Count("wild_index_operations");}
      const int tag = nextTag++;
      const char * name = "?";
      const bool wasWrapped = (q.IsNormalized() == false);
      const bool headOff    = (q.HasItems())&&(q.HeadPointer() != q.GetRawArrayPointer());
      const uint32 slotsBefore = q.GetNumAllocatedItemSlots();
      uint32 a1 = 0, a2 = 0;   // extra decoded arguments, for the canonical hash
      if (vf::Verbose()) fprintf(stderr, "  > op %u v=%d idx=%u (size %u slots %u)\n", op, v, idx, q.GetNumItems(), q.GetNumAllocatedItemSlots());
      switch(op)
      {
         case 0: name="AddTail"; if (q.AddTail(Mk<T>(v,tag)).IsError()) vf::Fail("AddTail failed"); d.push_back(Mk<T>(v,tag)); break;
         case 1: name="AddHead"; if (q.AddHead(Mk<T>(v,tag)).IsError()) vf::Fail("AddHead failed"); d.push_front(Mk<T>(v,tag)); break;
         case 2: {name="RemoveHead(ret)"; T r = Mk<T>(-1,-1); const status_t s = q.RemoveHead(r); if (s.IsOK() != !d.empty()) vf::Fail("RemoveHead status"); if (!d.empty()) {if (!Same(r, d.front())) vf::Fail("RemoveHead value"); d.pop_front();}} break;
         case 3: {name="RemoveTail(ret)"; T r = Mk<T>(-1,-1); const status_t s = q.RemoveTail(r); if (s.IsOK() != !d.empty()) vf::Fail("RemoveTail status"); if (!d.empty()) {if (!Same(r, d.back())) vf::Fail("RemoveTail value"); d.pop_back();}} break;
         case 4: {name="InsertItemAt"; const status_t s = q.InsertItemAt(idx, Mk<T>(v,tag)); if (s.IsError()) vf::Fail("InsertItemAt status idx=%u size=%zu", idx, d.size()); d.insert(d.begin()+muscleMin((size_t)idx, d.size()), Mk<T>(v,tag));} break;
         case 5: {name="RemoveItemAt(ret)"; T r = Mk<T>(-1,-1); const status_t s = q.RemoveItemAt(idx, r); if (s.IsOK() != (idx < d.size())) vf::Fail("RemoveItemAt status"); if (idx < d.size()) {if (!Same(r, d[idx])) vf::Fail("RemoveItemAt value"); d.erase(d.begin()+idx);}} break;
         case 6: {name="ReplaceItemAt"; const status_t s = q.ReplaceItemAt(idx, Mk<T>(v,tag)); if (s.IsOK() != (idx < d.size())) vf::Fail("ReplaceItemAt status"); if (idx < d.size()) d[idx] = Mk<T>(v,tag);} break;
         case 7: name="Clear"; q.Clear((v&1)!=0); d.clear(); break;
         case 8: name="FastClear"; if (std::is_trivial<T>::value) {q.FastClear(); d.clear();} break;   // documented to leave non-POD items in the array: trivial item types only
         case 9: {name="EnsureSize"; const uint32 n = bs.u8()%40; a1 = n; const bool setNum = (v&1)!=0; const bool shrink = (v&2)!=0; a2 = (uint32)(v%3);
                  if (q.EnsureSize(n, setNum, (uint32)(v%3), shrink).IsError()) vf::Fail("EnsureSize failed");
                  if (setNum) {while(d.size() > n) d.pop_back(); while(d.size() < n) d.push_back(T());}
                  if ((setNum == false)&&(q.GetNumAllocatedItemSlots() < n)) vf::Fail("EnsureSize(%u) left %u slots", n, q.GetNumAllocatedItemSlots());
                  if (shrink) cx.shrink = true;} break;
         case 10: name="ShrinkToFit"; if (q.ShrinkToFit((uint32)(v%3)).IsError()) vf::Fail("ShrinkToFit failed"); cx.shrink = true; break;
         case 11: name="Normalize"; q.Normalize(); if (!q.IsNormalized()) vf::Fail("not normalized after Normalize"); break;
         case 12: {name="Swap"; const uint32 j = bs.u8()%(uint32)(d.size()+1); a1 = j; if ((idx < d.size())&&(j < d.size())) {q.Swap(idx, j); std::swap(d[idx], d[j]);}} break;
         case 13: {name="ReverseItemOrdering"; const uint32 j = bs.u8()%(uint32)(d.size()+2); a1 = j; uint32 from = idx, to = j; q.ReverseItemOrdering(from, to); {const uint32 sz = (uint32)d.size(); if (sz > 0) {to = muscleMin(to, sz); if (from < to) std::reverse(d.begin()+from, d.begin()+to);}}} break;
         case 14: {name="Sort"; q.Sort(); std::stable_sort(d.begin(), d.end());} break;
         case 15: {name="AddTailMulti(q2)"; const uint32 st = bs.u8()%(uint32)(d2.size()+2); const uint32 cnt = (v&1)?MUSCLE_NO_LIMIT:(uint32)(bs.u8()%6); a1 = st; a2 = cnt; if (q.AddTailMulti(q2, st, cnt).IsError()) vf::Fail("AddTailMulti failed"); for (uint32 i=st; i<d2.size() && (i-st)<cnt; i++) d.push_back(d2[i]);} break;
         case 16: {name="AddHeadMulti(q2)"; const uint32 st = bs.u8()%(uint32)(d2.size()+2); const uint32 cnt = (v&1)?MUSCLE_NO_LIMIT:(uint32)(bs.u8()%6); a1 = st; a2 = cnt; if (q.AddHeadMulti(q2, st, cnt).IsError()) vf::Fail("AddHeadMulti failed"); std::deque<T> tmp; for (uint32 i=st; i<d2.size() && (i-st)<cnt; i++) tmp.push_back(d2[i]); d.insert(d.begin(), tmp.begin(), tmp.end());} break;
         case 17: {name="InsertItemsAt(q2)"; const uint32 st = bs.u8()%(uint32)(d2.size()+2); const uint32 cnt = (v&1)?MUSCLE_NO_LIMIT:(uint32)(bs.u8()%6); a1 = st; a2 = cnt; const status_t s = q.InsertItemsAt(idx, q2, st, cnt); std::deque<T> tmp; for (uint32 i=st; i<d2.size() && (i-st)<cnt; i++) tmp.push_back(d2[i]); if (s.IsError()) vf::Fail("InsertItemsAt failed idx=%u size=%zu", idx, d.size()); d.insert(d.begin()+muscleMin((size_t)idx, d.size()), tmp.begin(), tmp.end());} break;
         case 18: {name="AddTailMulti(self)"; if (d.size() > 2000) break; cx.aliasOp = true; if (q.AddTailMulti(q).IsError()) vf::Fail("AddTailMulti(self) failed"); std::deque<T> c = d; d.insert(d.end(), c.begin(), c.end());} break;
         case 19: {name="AddHeadMulti(self)"; if (d.size() > 2000) break; cx.aliasOp = true; if (q.AddHeadMulti(q).IsError()) vf::Fail("AddHeadMulti(self) failed"); std::deque<T> c = d; d.insert(d.begin(), c.begin(), c.end());} break;
         case 20: {name="RemoveHeadMulti"; const uint32 n = bs.u8()%6; a1 = n; const uint32 r = q.RemoveHeadMulti(n); uint32 m = 0; for (uint32 i=0; i<n && !d.empty(); i++) {d.pop_front(); m++;} if (r != m) vf::Fail("RemoveHeadMulti returned %u, model %u", r, m);} break;
         case 21: {name="RemoveTailMulti"; const uint32 n = bs.u8()%6; a1 = n; const uint32 r = q.RemoveTailMulti(n); uint32 m = 0; for (uint32 i=0; i<n && !d.empty(); i++) {d.pop_back(); m++;} if (r != m) vf::Fail("RemoveTailMulti returned %u, model %u", r, m);} break;
         case 22: {name="q2=q"; q2 = q; d2 = d;} break;
         case 23: {name="SwapContents"; q.SwapContents(q2); d.swap(d2);} break;
         case 24: {name="IndexOf/LastIndexOf"; const T t = Mk<T>(v,0); const int32 a = q.IndexOf(t); int32 b = -1; for (size_t i=0; i<d.size(); i++) if (d[i] == t) {b = (int32)i; break;} if (a != b) vf::Fail("IndexOf %d vs %d", a, b); const int32 a_2 = q.LastIndexOf(t); int32 b2 = -1; for (size_t i=d.size(); i>0; i--) if (d[i-1] == t) {b2 = (int32)(i-1); break;} if (a_2 != b2) vf::Fail("LastIndexOf %d vs %d", a_2, b2); if (q.Contains(t) != (b >= 0)) vf::Fail("Contains");} break;
         case 25: {name="RemoveFirstInstanceOf"; const T t = Mk<T>(v,0); const status_t s = q.RemoveFirstInstanceOf(t); bool f = false; for (size_t i=0; i<d.size(); i++) if (d[i] == t) {d.erase(d.begin()+i); f = true; break;} if (s.IsOK() != f) vf::Fail("RemoveFirstInstanceOf status");} break;
         case 26: {name="RemoveAllInstancesOf"; const T t = Mk<T>(v,0); const uint32 n = q.RemoveAllInstancesOf(t); uint32 m = 0; for (size_t i=0; i<d.size();) if (d[i] == t) {d.erase(d.begin()+i); m++;} else i++; if (n != m) vf::Fail("RemoveAllInstancesOf count %u vs %u", n, m);} break;
         case 27: {name="operator==/<"; if ((q == q2) != (d == d2)) vf::Fail("operator=="); if ((q != q2) == (d == d2)) vf::Fail("operator!="); if ((q < q2) != std::lexicographical_compare(d.begin(), d.end(), d2.begin(), d2.end())) vf::Fail("operator<");} break;
         case 28: {name="AddTailMulti(array)"; T arr[5]; const uint32 n = bs.u8()%6; a1 = n; for (uint32 i=0; i<5; i++) arr[i] = Mk<T>((int)(v+i)%16, tag); if (q.AddTailMulti(arr, n).IsError()) vf::Fail("AddTailMulti(array) failed"); for (uint32 i=0; i<n; i++) d.push_back(arr[i]);} break;
         case 29: {name="InsertItemsAt(array)"; T arr[5]; const uint32 n = bs.u8()%6; a1 = n; for (uint32 i=0; i<5; i++) arr[i] = Mk<T>((int)(v+i)%16, tag); const status_t s = q.InsertItemsAt(idx, arr, n); if (s.IsError()) vf::Fail("InsertItemsAt(array) failed"); d.insert(d.begin()+muscleMin((size_t)idx, d.size()), arr, arr+n);} break;
         case 30: {name="RemoveDuplicateItems"; const uint32 r = q.RemoveDuplicateItems(); const size_t before = d.size(); std::stable_sort(d.begin(), d.end()); d.erase(std::unique(d.begin(), d.end()), d.end()); if (r != before-d.size()) vf::Fail("RemoveDuplicateItems returned %u, model %zu", r, before-d.size());
                   // which of several equal items survives is not documented: take the survivor's identity from the queue when values agree
                   if (q.GetNumItems() == d.size()) for (uint32 i=0; i<d.size(); i++) if (q[i] == d[i]) d[i] = q[i];} break;
         case 31: {name="copy-ctor"; Queue<T> c(q); Compare(c, d, "copy-ctor");} break;
         case 32: {name="InsertItemsAt(self, sub-range)"; if (d.size() > 2000) break; cx.aliasOp = true; const uint32 st = (v&1) ? 0 : (uint32)(bs.u8()%(uint32)(d.size()+2)); const uint32 cnt = (v&2) ? MUSCLE_NO_LIMIT : (uint32)(bs.u8()%6); a1 = st; a2 = cnt; const status_t s = q.InsertItemsAt(idx, q, st, cnt); {std::deque<T> c; for (uint32 i=st; (i<d.size())&&((i-st)<cnt); i++) c.push_back(d[i]); if (s.IsError()) vf::Fail("InsertItemsAt(self) failed"); d.insert(d.begin()+muscleMin((size_t)idx, d.size()), c.begin(), c.end());}} break;
         case 33: {name="GetWithDefault/IsIndexValid/GetItemAt"; if (q.IsIndexValid(idx) != (idx < d.size())) vf::Fail("IsIndexValid"); const T r = q.GetWithDefault(idx, Mk<T>(99,99)); if (!Same(r, (idx<d.size())?d[idx]:Mk<T>(99,99))) vf::Fail("GetWithDefault"); T g = Mk<T>(-1,-1); const status_t s = q.GetItemAt(idx, g); if (s.IsOK() != (idx < d.size())) vf::Fail("GetItemAt status"); if ((idx < d.size())&&(!Same(g, d[idx]))) vf::Fail("GetItemAt value"); if ((q.GetItemAt(idx) != NULL) != (idx < d.size())) vf::Fail("GetItemAt pointer");} break;
         case 34: {name="AddTail(q[i]) alias"; if (idx < d.size()) {cx.aliasOp = true; const T c = d[idx]; if (q.AddTail(q[idx]).IsError()) vf::Fail("AddTail(alias) failed"); d.push_back(c);}} break;
         case 35: {name="AddHead(q[i]) alias"; if (idx < d.size()) {cx.aliasOp = true; const T c = d[idx]; if (q.AddHead(q[idx]).IsError()) vf::Fail("AddHead(alias) failed"); d.push_front(c);}} break;
         case 36: {name="InsertItemAt(i, q[j]) alias"; const uint32 j = bs.u8()%(uint32)(d.size()+1); a1 = j; if (j < d.size()) {cx.aliasOp = true; const T c = d[j]; if (q.InsertItemAt(idx, q[j]).IsError()) vf::Fail("InsertItemAt(alias) failed"); d.insert(d.begin()+muscleMin((size_t)idx, d.size()), c);}} break;
         case 37: {name="Sort(from,to)"; const uint32 j = bs.u8()%(uint32)(d.size()+2); a1 = j; q.Sort(idx, j); {const uint32 to = muscleMin(j, (uint32)d.size()); if (idx < to) std::stable_sort(d.begin()+idx, d.begin()+to);}} break;
         case 38: {name="forward/backward iterators"; uint32 i = 0; for (ConstQueueIterator<T> it = ((const Queue<T> &)q).GetIterator(); it.HasData(); it++, i++) {if ((i >= d.size())||(!Same(it.GetValue(), d[i]))) vf::Fail("forward iterator at %u", i);} if (i != d.size()) vf::Fail("forward iterator visited %u of %zu", i, d.size());
                   uint32 k = (uint32) d.size(); for (ConstQueueIterator<T> it = ((const Queue<T> &)q).GetBackwardIterator(); it.HasData(); it++) {if ((k == 0)||(!Same(it.GetValue(), d[k-1]))) vf::Fail("backward iterator at %u", k); k--;} if (k != 0) vf::Fail("backward iterator stopped at %u", k);} break;
         case 39: {name="RemoveHeadWithDefault/RemoveTailWithDefault"; if (v&1) {const T r = q.RemoveHeadWithDefault(); if (d.empty()) {if (!Same(r, T())) vf::Fail("RemoveHeadWithDefault on empty");} else {if (!Same(r, d.front())) vf::Fail("RemoveHeadWithDefault value"); d.pop_front();}} else {const T r = q.RemoveTailWithDefault(); if (d.empty()) {if (!Same(r, T())) vf::Fail("RemoveTailWithDefault on empty");} else {if (!Same(r, d.back())) vf::Fail("RemoveTailWithDefault value"); d.pop_back();}}} break;
         case 40: {name="RemoveItemAtWithDefault"; const T r = q.RemoveItemAtWithDefault(idx); if (idx < d.size()) {if (!Same(r, d[idx])) vf::Fail("RemoveItemAtWithDefault value"); d.erase(d.begin()+idx);} else if (!Same(r, T())) vf::Fail("RemoveItemAtWithDefault bad index");} break;
         case 41: {name="RemoveLastInstanceOf"; const T t = Mk<T>(v,0); const status_t s = q.RemoveLastInstanceOf(t); bool f = false; for (size_t i=d.size(); i>0; i--) if (d[i-1] == t) {d.erase(d.begin()+(i-1)); f = true; break;} if (s.IsOK() != f) vf::Fail("RemoveLastInstanceOf status");} break;
         case 42: {name="StartsWith/EndsWith(q2)"; const bool sw = (d2.size() <= d.size())&&(std::equal(d2.begin(), d2.end(), d.begin())); const bool ew = (d2.size() <= d.size())&&(std::equal(d2.begin(), d2.end(), d.end()-d2.size())); if (q.StartsWith(q2) != sw) vf::Fail("StartsWith(queue)"); if (q.EndsWith(q2) != ew) vf::Fail("EndsWith(queue)");} break;
         case 43: {name="move-assign q2=move(q)"; q2 = std::move(q); d2 = d; d.clear(); /* the moved-from queue is only required to be valid: re-sync the model with what it holds */ for (uint32 i=0; i<q.GetNumItems(); i++) d.push_back(q[i]);} break;
         case 44: {name="AddTailIfNotAlreadyPresent"; const T t = Mk<T>(v,tag); bool has = false; for (size_t i=0; i<d.size(); i++) if (d[i] == t) has = true; if (q.AddTailIfNotAlreadyPresent(t).IsError()) vf::Fail("AddTailIfNotAlreadyPresent failed"); if (!has) d.push_back(t);} break;
         case 46: {name="AddTailAndGet"; if (bs.u8()&1) {T * p = q.AddTailAndGet(Mk<T>(v,tag)); if (p == NULL) vf::Fail("AddTailAndGet failed"); if (!Same(*p, Mk<T>(v,tag))) vf::Fail("AddTailAndGet(item) returned a pointer to something else"); if (p != &q.Tail()) vf::Fail("AddTailAndGet(item) does not point at the tail");} else {T * p = q.AddTailAndGet(); if (p == NULL) vf::Fail("AddTailAndGet() failed"); if (p != &q.Tail()) vf::Fail("AddTailAndGet() does not point at the tail"); *p = Mk<T>(v,tag); /* (documented: a trivially-typed item starts out uninitialised, so it is assigned before anyone looks) */} d.push_back(Mk<T>(v,tag));} break;
         case 47: {name="AddHeadAndGet"; if (bs.u8()&1) {T * p = q.AddHeadAndGet(Mk<T>(v,tag)); if (p == NULL) vf::Fail("AddHeadAndGet failed"); if (!Same(*p, Mk<T>(v,tag))) vf::Fail("AddHeadAndGet(item) returned a pointer to something else"); if (p != &q.Head()) vf::Fail("AddHeadAndGet(item) does not point at the head");} else {T * p = q.AddHeadAndGet(); if (p == NULL) vf::Fail("AddHeadAndGet() failed"); if (p != &q.Head()) vf::Fail("AddHeadAndGet() does not point at the head"); *p = Mk<T>(v,tag);} d.push_front(Mk<T>(v,tag));} break;
         case 48: {name="AddHeadIfNotAlreadyPresent"; const T t = Mk<T>(v,tag); bool has = false; for (size_t i=0; i<d.size(); i++) if (d[i] == t) has = true; if (q.AddHeadIfNotAlreadyPresent(t).IsError()) vf::Fail("AddHeadIfNotAlreadyPresent failed"); if (has == false) d.push_front(t);} break;
         case 49: {name="CopyFrom(q2)"; if (q.CopyFrom(q2).IsError()) vf::Fail("CopyFrom failed"); d = d2;} break;
         case 50:
         {
            // keeps a sorted Queue sorted: documented to assume sorted order, so sort first.  Where the item lands among equal ones is not documented: judged by validity, then the model follows.
            name="Sort+InsertItemAtSortedPosition"; q.Sort(); std::stable_sort(d.begin(), d.end());
            const T t = Mk<T>(v,tag); const int32 at = q.InsertItemAtSortedPosition(t);
            if ((at < 0)||((uint32)at >= q.GetNumItems())) vf::Fail("InsertItemAtSortedPosition returned %d with %u items", at, q.GetNumItems());
            if (q.GetNumItems() != d.size()+1) vf::Fail("InsertItemAtSortedPosition: %u items, expected %zu", q.GetNumItems(), d.size()+1);
            if (!Same(q[(uint32)at], t)) vf::Fail("InsertItemAtSortedPosition returned index %d, which does not hold the inserted item", at);
            for (uint32 i=1; i<q.GetNumItems(); i++) if (q[i] < q[i-1]) vf::Fail("after InsertItemAtSortedPosition the Queue is not sorted at %u (model %s)", i, Render(d).c_str());
            {std::deque<T> rest; for (uint32 i=0; i<q.GetNumItems(); i++) if ((int32)i != at) rest.push_back(q[i]); if (rest.size() != d.size()) vf::Fail("size"); for (size_t i=0; i<d.size(); i++) if (!Same(rest[i], d[i])) vf::Fail("InsertItemAtSortedPosition disturbed the other items (at %zu, model %s)", i, Render(d).c_str());}
            d.insert(d.begin()+at, t);
         }
         break;
         case 51:
         {
            name="Sort+RemoveSortedDuplicateItems"; q.Sort(); std::stable_sort(d.begin(), d.end());
            const size_t before = d.size(); const uint32 r = q.RemoveSortedDuplicateItems();
            d.erase(std::unique(d.begin(), d.end()), d.end());      // keeps the first of each run, as "at most a single instance of any given value is left" allows
            if (r != before-d.size()) vf::Fail("RemoveSortedDuplicateItems returned %u, model %zu", r, before-d.size());
            if (q.GetNumItems() != d.size()) vf::Fail("RemoveSortedDuplicateItems left %u items, model %zu", q.GetNumItems(), d.size());
            for (uint32 i=0; i<q.GetNumItems(); i++) if (!(q[i] == d[i])) vf::Fail("RemoveSortedDuplicateItems: item %u has value %d, model %d", i, Val(q[i]), Val(d[i]));
            d.clear(); for (uint32 i=0; i<q.GetNumItems(); i++) d.push_back(q[i]);     // which instance of a run survives is not documented
         }
         break;
         case 52: {name="ReplaceAllItems"; const T t = Mk<T>(v,tag); q.ReplaceAllItems(t); for (size_t i=0; i<d.size(); i++) d[i] = t;} break;
         case 53:
         {
            name="GetLastValidIndex/GetNumUnusedItemSlots/EnsureCanAdd/GetIteratorAt";
            if (q.GetLastValidIndex() != ((int32)d.size())-1) vf::Fail("GetLastValidIndex %d with %zu items", q.GetLastValidIndex(), d.size());
            if (q.GetNumUnusedItemSlots() != q.GetNumAllocatedItemSlots()-q.GetNumItems()) vf::Fail("GetNumUnusedItemSlots");
            const uint32 extra = bs.u8()%6; a1 = extra; if (q.EnsureCanAdd(extra).IsError()) vf::Fail("EnsureCanAdd failed"); if (q.GetNumUnusedItemSlots() < extra) vf::Fail("EnsureCanAdd(%u) left %u unused slots", extra, q.GetNumUnusedItemSlots());
            {uint32 i = idx; for (ConstQueueIterator<T> it = static_cast<const Queue<T> &>(q).GetIteratorAt(idx); it.HasData(); it++, i++) {if (i >= d.size()) vf::Fail("GetIteratorAt(%u) runs past the end", idx); if (!Same(it.GetValue(), d[i])) vf::Fail("GetIteratorAt(%u): item %u differs from the model", idx, i);} if ((idx < d.size())&&(i != d.size())) vf::Fail("GetIteratorAt(%u) stopped at %u of %zu", idx, i, d.size());}
            {int32 i = (int32)idx; for (ConstQueueIterator<T> it = static_cast<const Queue<T> &>(q).GetBackwardIteratorAt(idx); it.HasData(); it++, i--) {if ((i < 0)||((size_t)i >= d.size())) vf::Fail("GetBackwardIteratorAt(%u) runs outside the Queue", idx); if (!Same(it.GetValue(), d[(size_t)i])) vf::Fail("GetBackwardIteratorAt(%u): item %d differs from the model", idx, i);} if ((idx < d.size())&&(i != -1)) vf::Fail("GetBackwardIteratorAt(%u) stopped at %d", idx, i);}
         }
         break;
         case 54: {name="q2.CopyFrom(q) then compare"; if (q2.CopyFrom(q).IsError()) vf::Fail("CopyFrom failed"); d2 = d; if (!(q == q2)) vf::Fail("a Queue and its CopyFrom() copy compare unequal");} break;
         case 45: {name="EnsureSize(setNumItems) bigger"; const uint32 n = (uint32)d.size()+(bs.u8()%5); a1 = n; if (q.EnsureSize(n, true).IsError()) vf::Fail("EnsureSize failed"); while(d.size() < n) d.push_back(T());} break;
      }
      cx.h = vf::HashMix(cx.h, ((uint64_t)op<<48)|((uint64_t)(v&15)<<40)|((uint64_t)(idx&0xFF)<<32)|((uint64_t)(a1&0xFFFF)<<16)|(a2&0xFFFF));
      cx.nops++;
      if (wasWrapped) cx.wrappedOp = true;
      if ((headOff)&&(slotsBefore != q.GetNumAllocatedItemSlots())) cx.headMovedRealloc = true;
      if (vf::Verbose()) fprintf(stderr, "  %-28s v=%d idx=%u a1=%u a2=%u -> size %u slots %u normalized %d model %s\n", name, v, idx, a1, a2, q.GetNumItems(), q.GetNumAllocatedItemSlots(), (int)q.IsNormalized(), Render(d).c_str());
      if ((wantTrace)&&(cx.trace.size() < 1200)) {char b[96]; snprintf(b, sizeof(b), "%s(v=%d,idx=%u,%u,%u); ", name, v, idx, a1, a2); cx.trace += b;}
      Compare(q, d, name); Compare(q2, d2, name);
      if (d.size() > cx.maxSize) cx.maxSize = (uint32) d.size();
   }
   if (wantTrace) cx.trace += " => " + Render(d);
}

extern "C" int vf_run_case(const uint8_t * data, size_t size)
{
   static CompleteSetupSystem * css = NULL; if (css == NULL) css = new CompleteSetupSystem;
   if (size < 2) return 0;
   vf::BS bs(data+1, size-1);
   Ctx cx; cx.wrappedOp = cx.headMovedRealloc = cx.aliasOp = cx.shrink = false; cx.h = data[0]&1; cx.nops = 0; cx.maxSize = 0;
   if (data[0]&1) {if (vf::Verbose()) fprintf(stderr, "Queue<int>\n"); Run<int>(bs, cx); vf::Count("item_type_int");}
   else
   {
      static bool warm = false;   // the default-item static of Queue<Tracked> is constructed once per process
      if (!warm) {warm = true; Queue<Tracked> w; (void) w.AddTail(Tracked(1)); (void) w.RemoveHeadWithDefault(); (void) w.GetWithDefault(5, Tracked(2)); (void) w.EnsureSize(8, true); w.Clear();}
      if (vf::Verbose()) fprintf(stderr, "Queue<Tracked>\n");
      const int before = g_live;
      Run<Tracked>(bs, cx);
      if (g_live != before) vf::Fail("Tracked live-instance count changed by %d over the case (leak or double destruction)", g_live-before);
      vf::Count("item_type_tracked");
   }
   vf::Count("ops", cx.nops);
   vf::Count((cx.maxSize <= 3) ? "max_size_le_3_inline" : ((cx.maxSize <= 12) ? "max_size_4_to_12" : ((cx.maxSize <= 64) ? "max_size_13_to_64" : "max_size_gt_64")));
   if (cx.wrappedOp) vf::Count("case_with_op_on_wrapped_ring");
   if (cx.headMovedRealloc) vf::Count("case_with_realloc_while_head_offset");
   if (cx.aliasOp) vf::Count("case_with_aliasing_operand");
   if (cx.shrink) vf::Count("case_with_shrink");
   if ((cx.wrappedOp)||(cx.headMovedRealloc)||(cx.aliasOp)) vf::NonTrivial(cx.h);
   if ((cx.trace.size())&&((cx.wrappedOp)||(cx.headMovedRealloc)||(cx.aliasOp))) vf::Sample(std::string((data[0]&1)?"Queue<int>: ":"Queue<Tracked>: ")+cx.trace);
   return 0;
}
