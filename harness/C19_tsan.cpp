// C19 supplement: the thread pool free-running on real threads under ThreadSanitizer (no scheduler, no hooks).
// Several user threads, each with clients of its own, register them, submit numbered Messages, unregister and register
// again -- all against one shared pool, whose bookkeeping is meant to sit under one lock.  This is what sees a narrowed
// lock scope (a table touched outside the lock), which the controlled scheduler cannot: it serialises logical threads at
// its hook points.  The functional oracle (once, in order, one at a time, everything handled when unregister returns)
// runs here too; a TSan report is a failure; silence proves nothing beyond the runs made.
#include "engine/harness.h"
#include "system/ThreadPool.h"
#include "system/SetupSystem.h"
#include "syslog/SysLog.h"
#include <atomic>
#include <thread>
#include <vector>

using namespace muscle;
const char * vf_harness_name = "c19_tsan";

class Client : public IThreadPoolClient
{
public:
   Client() : IThreadPoolClient(NULL), next(0), active(0), handled(0) {}
   std::atomic<int> next, active, handled;
protected:
   virtual void MessageReceivedFromThreadPool(const MessageRef & msg, uint32)
   {
      if (active.fetch_add(1) != 0) vf::Fail("two handler activations of one client overlap (free-running)");
      const int w = (int) msg()->what; if (w != next.load()) vf::Fail("a client's Message #%d was handled where #%d was due (free-running)", w, next.load());
      next.store(w+1); handled.fetch_add(1);
      active.fetch_sub(1);
   }
};

extern "C" int vf_run_case(const uint8_t * data, size_t size)
{
   static CompleteSetupSystem * css = NULL; if (css == NULL) {css = new CompleteSetupSystem; SetConsoleLogLevel(MUSCLE_LOG_NONE);}
   if (size < 4) return 0;
   vf::BS bs(data, size);
   const uint32 seed = bs.u32(); const int nthreads = 2+bs.u8()%5; const int poolSize = 1+bs.u8()%4; const int rounds = 6+(int)(bs.u8()%6);
   uint64_t submitted = 0;
   {
      ThreadPool pool((uint32)poolSize);
      std::vector<std::thread> ts; std::vector<uint64_t> sub(nthreads, 0);
      for (int t=0; t<nthreads; t++) ts.push_back(std::thread([&, t]{
         uint32 x = seed+777u*(uint32)(t+1);
         for (int r=0; r<rounds; r++)
         {
            // a fresh set of clients per round: the pool's tables grow to new maxima while other threads' clients come and go
            x = x*1664525u+1013904223u; const int nc = 1+(int)((x>>24)%3); std::vector<Client *> cl; for (int c=0; c<nc; c++) {cl.push_back(new Client); cl[c]->SetThreadPool(&pool);}
            std::vector<int> sent(nc, 0);
            x = x*1664525u+1013904223u; const int nm = (int)((x>>24)%12);
            for (int m=0; m<nm; m++) {x = x*1664525u+1013904223u; const int c = (int)((x>>24)%(uint32)nc); if (cl[c]->SendMessageToThreadPool(GetMessageFromPool((uint32)sent[c])).IsError()) vf::Fail("SendMessageToThreadPool failed (free-running)"); sent[c]++; sub[t]++;}
            for (int c=0; c<nc; c++)
            {
               cl[c]->SetThreadPool(NULL);      // returns only when everything submitted has been handled
               if (cl[c]->handled.load() != sent[c]) vf::Fail("unregistration returned with %d of %d submitted Messages handled (free-running)", cl[c]->handled.load(), sent[c]);
               if (cl[c]->active.load() != 0) vf::Fail("a handler is still running after unregistration returned (free-running)");
               delete cl[c];
            }
         }
      }));
      for (size_t i=0; i<ts.size(); i++) ts[i].join();
      for (int t=0; t<nthreads; t++) submitted += sub[t];
   }
   vf::Count("free_running_messages", submitted); vf::Count("free_running_user_threads", (uint64_t)nthreads);
   vf::NonTrivial(vf::Hash64(data, size, 0x19a));
   if (vf::WantSample()) vf::Sample(std::to_string(nthreads)+" free-running user threads x "+std::to_string(rounds)+" rounds of register / submit / unregister against a pool of "+std::to_string(poolSize)+", under ThreadSanitizer");
   return 0;
}
