// C03: sender gateway -> choppy in-memory pipe -> receiver gateway of the same kind, for every
// stream gateway type; the received sequence must equal the sent one under every segmentation and
// every interleaving of DoOutput(maxBytes)/DoInput(maxBytes).  Oracles per kind (see DESIGN C03).
#include "models/refmsg.h"
#include "models/cbuild.h"
#include "transport/choppy.h"
#include "iogateway/MessageIOGateway.h"
#include "iogateway/TemplatingMessageIOGateway.h"
#include "iogateway/PlainTextMessageIOGateway.h"
#include "iogateway/RawDataMessageIOGateway.h"
#include "iogateway/SLIPFramedDataMessageIOGateway.h"
#include "iogateway/WebSocketMessageIOGateway.h"
#include "reflector/StorageReflectConstants.h"
#include "system/SetupSystem.h"
#include "syslog/SysLog.h"
#include "lang/c/minimessage/MiniMessageGateway.h"
#include "lang/c/micromessage/MicroMessageGateway.h"
#include <map>

using namespace muscle;
using namespace refmsg;
using namespace choppy;
const char * vf_harness_name = "c03_gateways";

class IndependentStreamsGateway : public MessageIOGateway
{
public:
   IndependentStreamsGateway(int32 enc) : MessageIOGateway(enc) {}
   virtual bool AreOutgoingMessagesIndependent() const {return true;}
};

struct Recv : public AbstractGatewayMessageReceiver {std::vector<MessageRef> got; virtual void MessageReceivedFromGateway(const MessageRef & m, void *) {got.push_back(m);}};
static std::string Flat(const Message & m) {ByteBufferRef b = m.FlattenToByteBuffer(); return b() ? std::string((const char *)b()->GetBuffer(), b()->GetNumBytes()) : std::string("<flatten failed>");}

static std::string Shape(const MMsg & m)
{
   std::string s = "{";
   for (size_t i=0; i<m.f.size(); i++) {const MField & f = m.f[i]; char b[48]; snprintf(b, sizeof(b), "%u*%zu", f.tc, f.items.size()); s += f.name+":"+b; if (f.tc == B_MESSAGE_TYPE) for (size_t k=0; k<f.subs.size(); k++) s += Shape(*f.subs[k]); s += ";";}
   return s+"}";
}

// small-alphabet generator for the templating gateway: few names, few types, counts 1..4, so equal shapes (cache hits) and structurally colliding shapes are common
static void GenTemplMsg(vf::BS & bs, int depth, Message & msg, MMsg & mod)
{
   static const char * const N[] = {"a", "b", "m"};
   msg.what = mod.what = bs.u8()%3;
   const uint32 nf = 1+bs.u8()%3;
   for (uint32 i=0; i<nf; i++)
   {
      const std::string fn = N[bs.u8()%3]; if (mod.find(fn) >= 0) continue;
      MField f; f.name = fn; const uint32 cnt = 1+bs.u8()%4; const uint8_t t = bs.u8()%4;
      if ((t == 3)&&(depth < 2))
      {
         f.tc = B_MESSAGE_TYPE;
         for (uint32 k=0; k<muscleMin(cnt, (uint32)2); k++) {MessageRef sub = GetMessageFromPool(); std::shared_ptr<MMsg> sm(new MMsg); GenTemplMsg(bs, depth+1, *sub(), *sm); (void) msg.AddMessage(fn.c_str(), sub); f.items.push_back(Encode(*sm)); f.subs.push_back(sm);}
      }
      else if (t == 1) {f.tc = B_STRING_TYPE; for (uint32 k=0; k<cnt; k++) {std::string s((size_t)(bs.u8()%20), (char)('a'+k)); (void) msg.AddString(fn.c_str(), s.c_str()); f.items.push_back(s+std::string(1, '\0'));}}
      else if (t == 2) {f.tc = B_BOOL_TYPE; for (uint32 k=0; k<cnt; k++) {const bool b = bs.flip(); (void) msg.AddBool(fn.c_str(), b); f.items.push_back(std::string(1, b?(char)1:(char)0));}}
      else {f.tc = B_INT32_TYPE; for (uint32 k=0; k<cnt; k++) {const int32 v = (int32) bs.u8(); (void) msg.AddInt32(fn.c_str(), v); f.items.push_back(Bytes(&v, 4));}}
      mod.f.push_back(f);
   }
}

struct Case
{
   vf::BS & bs; Plan plan; uint8_t kind; uint32 nMsgs; uint64_t h; std::string desc;
   Case(vf::BS & b) : bs(b), plan(&b), kind(0), nMsgs(0), h(17) {}
};

static void Drain(AbstractMessageIOGateway & snd, AbstractMessageIOGateway & rcv, Recv & recv, Pipe & pipe, Plan & plan, const char * what)
{
   plan.generous = true;
   for (int rounds=0; rounds<200000; rounds++)
   {
      const io_status_t a = snd.DoOutput(), b = rcv.DoInput(recv);
      if ((a.IsError())||(b.IsError())) vf::Fail("%s: gateway I/O error while draining (out=%s in=%s)", what, a.GetStatus()(), b.GetStatus()());
      if ((a.GetByteCount() == 0)&&(b.GetByteCount() == 0)&&(snd.HasBytesToOutput() == false)&&(pipe.q.empty())) return;
   }
   vf::Fail("%s: stream did not drain", what);
}

static MessageRef GenBinaryMsg(Case & c, std::string & flat, bool templ, std::map<uint64, std::string> & shapes, bool big)
{
   MessageRef m = GetMessageFromPool(); MMsg mod;
   if (templ)
   {
      GenTemplMsg(c.bs, 0, *m(), mod);
      // known finding F11: TemplateHashCode64 collides structurally; the sender then serialises through the wrong cached template.
      const uint64 hc = m()->TemplateHashCode64(); const std::string sh = Shape(mod);
      std::map<uint64, std::string>::iterator it = shapes.find(hc);
      if (it == shapes.end()) shapes[hc] = sh;
      else if ((it->second != sh)&&(vf::AllowKnown("F11") == false)) {vf::Excluded("F11"); return MessageRef();}
   }
   else
   {
      GenOpts o; o.allowNonFlattenable = false; o.maxTopOps = 8; o.maxDepth = 2; const uint8_t cb = c.bs.u8(); o.allowBursts = (cb%8 == 0);
      Generator g(c.bs, o); g.Gen(0, *m(), mod);
      if (((cb>>3)%8 == 7)&&(big == false)&&(mod.find("pad") < 0))
      {
         // a Message whose flattened size lands on or next to the gateways' 2048-byte scratch receive buffer (header 8 + body): 2030 .. 2069 bytes
         const size_t flat0 = Encode(mod).size(); const size_t target = 2030+(c.bs.u8()%40);
         if (flat0+25 <= target) {const size_t L = target-flat0-24; std::vector<uint8> v(L); uint32 x = 12345u+(uint32)L; for (size_t i=0; i<L; i++) {x = x*1664525u+1013904223u; v[i] = (uint8)(x>>24);} (void) m()->AddData("pad", B_RAW_TYPE, &v[0], (uint32)L); MField f; f.name = "pad"; f.tc = B_RAW_TYPE; f.items.push_back(std::string((const char *)&v[0], L)); mod.f.push_back(f); vf::Count("message_sized_to_the_scratch_buffer_boundary");}
      }
      if (big) {std::vector<uint8> v(300*1024, 0); for (size_t i=0; i<v.size(); i++) v[i] = (uint8)(i*31+(i>>8)); (void) m()->AddData("big", B_RAW_TYPE, &v[0], (uint32)v.size()); MField f; f.name = "big"; f.tc = B_RAW_TYPE; f.items.push_back(std::string((const char *)&v[0], v.size())); int fi = mod.find("big"); if (fi >= 0) {(void) m()->RemoveName("big"); (void) m()->AddData("big", B_RAW_TYPE, &v[0], (uint32)v.size()); mod.f.erase(mod.f.begin()+fi);} mod.f.push_back(f);}
   }
   flat = Encode(mod);
   return m;
}

// ---- simplex C++ <-> C++ kinds ------------------------------------------------------------------
static void RunBinary(Case & c, AbstractMessageIOGatewayRef snd, AbstractMessageIOGatewayRef rcv, bool templ, bool switchEnc, bool big)
{
   Pipe pipe; ChopIO sio(NULL, &pipe, &c.plan), rio(&pipe, NULL, &c.plan);
   snd()->SetDataIO(DummyDataIORef(sio)); rcv()->SetDataIO(DummyDataIORef(rio));
   Recv recv; std::vector<std::string> sent; std::map<uint64, std::string> shapes;
   const uint32 n = big ? (1+c.bs.u8()%2) : (1+c.bs.u8()%10);
   for (uint32 i=0; i<n; i++)
   {
      std::string flat; MessageRef m = GenBinaryMsg(c, flat, templ, shapes, big&&(i == 0));
      if (m() == NULL) continue;
      if ((switchEnc)&&(c.bs.u8()%3 == 0)) static_cast<MessageIOGateway *>(snd())->SetOutgoingEncoding(MUSCLE_MESSAGE_ENCODING_DEFAULT+(int32)(c.bs.u8()%10));
      if (snd()->AddOutgoingMessage(m).IsError()) vf::Fail("AddOutgoingMessage failed");
      sent.push_back(flat); c.h = vf::HashStr(flat, c.h);
      const uint32 steps = c.bs.u8()%4;
      for (uint32 s=0; s<steps; s++)
      {
         const uint32 mo = (c.bs.u8()%4 == 0) ? (uint32)(1+c.bs.u8()%12) : (1+c.bs.range(0, 5000)), mi = (c.bs.u8()%4 == 0) ? (uint32)(1+c.bs.u8()%12) : (1+c.bs.range(0, 5000));
         if (snd()->DoOutput(mo).IsError()) vf::Fail("DoOutput error"); if (rcv()->DoInput(recv, mi).IsError()) vf::Fail("DoInput error: %s", rcv()->GetUnrecoverableErrorStatus()());
      }
   }
   Drain(*snd(), *rcv(), recv, pipe, c.plan, "binary");
   if (snd()->GetUnrecoverableErrorStatus().IsError() || rcv()->GetUnrecoverableErrorStatus().IsError()) vf::Fail("gateway error status");
   if (recv.got.size() != sent.size()) vf::Fail("sent %zu Messages, received %zu (%s)", sent.size(), recv.got.size(), c.desc.c_str());
   for (size_t i=0; i<sent.size(); i++) {const std::string g = Flat(*recv.got[i]()); if (g != sent[i]) vf::Fail("Message %zu of %zu arrived altered (%s): sent %s got %s", i, sent.size(), c.desc.c_str(), vf::Hex(sent[i].data(), sent[i].size(), 60).c_str(), vf::Hex(g.data(), g.size(), 60).c_str());}
   c.nMsgs = (uint32) sent.size();
}

// reference splitter for the text gateway: lines end at \n, \r or \r\n
static void RefSplit(const std::string & s, std::vector<std::string> & lines, std::string & pending)
{
   std::string cur; bool prevCR = false;
   for (size_t i=0; i<s.size(); i++)
   {
      const char ch = s[i];
      if (ch == '\r') {lines.push_back(cur); cur.clear(); prevCR = true;}
      else if (ch == '\n') {if (prevCR == false) {lines.push_back(cur); cur.clear();} prevCR = false;}
      else {cur.push_back(ch); prevCR = false;}
   }
   pending = cur;
}

static void CollectLines(const Recv & recv, std::vector<std::string> & out) {for (size_t i=0; i<recv.got.size(); i++) {const String * s; for (uint32 k=0; recv.got[i]()->FindString(PR_NAME_TEXT_LINE, k, &s).IsOK(); k++) out.push_back(std::string(s->Cstr(), s->Length()));}}

static void RunText(Case & c)
{
   static const char * const EOLS[] = {"\r\n", "\n", "\r"};
   if (c.bs.u8()%3 == 0)
   {
      // metamorphic check on the receiver alone: an arbitrary byte stream with mixed terminators delivers the same lines under any segmentation as a reference splitter
      std::string stream; const uint32 len = c.bs.range(0, 400);
      for (uint32 i=0; i<len; i++) {const uint8_t k = c.bs.u8(); char ch; if (k < 40) ch = '\r'; else if (k < 80) ch = '\n'; else {ch = (char)k; if (ch == '\0') ch = 'z';} stream.push_back(ch);}
      Pipe pipe; for (size_t i=0; i<stream.size(); i++) pipe.q.push_back((uint8)stream[i]);
      PlainTextMessageIOGateway rcv; ChopIO rio(&pipe, NULL, &c.plan); rcv.SetDataIO(DummyDataIORef(rio));
      Recv recv;
      for (int r=0; (r<4000)&&(pipe.q.empty() == false); r++) {if (r > 600) c.plan.generous = true; if (rcv.DoInput(recv, 1+c.bs.range(0, 300)).IsError()) vf::Fail("text receiver error");}
      std::vector<std::string> got, exp; std::string pend; CollectLines(recv, got); RefSplit(stream, exp, pend);
      if (got != exp) vf::Fail("text receiver: %zu lines delivered, reference splitter says %zu, for stream [%s]", got.size(), exp.size(), vf::Esc(stream).substr(0, 300).c_str());
      c.nMsgs = (uint32) exp.size(); c.h = vf::HashStr(stream, c.h); c.desc = "text receiver metamorphic, stream ["+vf::Esc(stream).substr(0, 80)+"]";
      return;
   }
   Pipe pipe; ChopIO sio(NULL, &pipe, &c.plan), rio(&pipe, NULL, &c.plan);
   PlainTextMessageIOGateway snd, rcv; const char * eol = EOLS[c.bs.u8()%3]; snd.SetOutgoingEndOfLineString(eol);
   snd.SetDataIO(DummyDataIORef(sio)); rcv.SetDataIO(DummyDataIORef(rio));
   Recv recv; std::vector<std::string> sentLines; const uint32 n = 1+c.bs.u8()%8;
   for (uint32 i=0; i<n; i++)
   {
      MessageRef m = GetMessageFromPool(PR_COMMAND_TEXT_STRINGS); const uint32 nl = c.bs.u8()%4;
      for (uint32 k=0; k<nl; k++)
      {
         std::string l; const uint8_t lk = c.bs.u8()%6; const uint32 len = (lk == 0) ? 0 : ((lk == 1) ? c.bs.range(2040, 2056) : (uint32)(c.bs.u8()%24));
         for (uint32 j=0; j<len; j++) {uint8_t ch = c.bs.u8(); if ((ch == 0)||(ch == '\r')||(ch == '\n')) ch = '.'; l.push_back((char)ch);}
         (void) m()->AddString(PR_NAME_TEXT_LINE, String(l.c_str())); sentLines.push_back(l); c.h = vf::HashStr(l, c.h);
      }
      if (snd.AddOutgoingMessage(m).IsError()) vf::Fail("AddOutgoingMessage failed");
      const uint32 steps = c.bs.u8()%4; for (uint32 s=0; s<steps; s++) {(void) snd.DoOutput(1+c.bs.range(0, 3000)); if (rcv.DoInput(recv, 1+c.bs.range(0, 3000)).IsError()) vf::Fail("text DoInput error");}
   }
   Drain(snd, rcv, recv, pipe, c.plan, "text");
   std::vector<std::string> got; CollectLines(recv, got);
   if (got != sentLines) vf::Fail("text gateway (EOL %s): sent %zu lines, received %zu", vf::Esc(eol).c_str(), sentLines.size(), got.size());
   c.nMsgs = n; c.desc += std::string(" eol=")+vf::Esc(eol);
}

// reference RFC 1055 decoder over the wire bytes: frames delimited by END (0xC0); ESC 0xDB + 0xDC -> END, ESC + 0xDD -> ESC; empty frames dropped
static void RefSlipDecode(const std::string & wire, std::vector<std::string> & frames)
{
   std::string cur; bool esc = false;
   for (size_t i=0; i<wire.size(); i++)
   {
      const uint8_t b = (uint8_t) wire[i];
      if (esc) {cur.push_back((b == 0xDC) ? (char)0xC0 : ((b == 0xDD) ? (char)0xDB : (char)b)); esc = false;}
      else if (b == 0xDB) esc = true;
      else if (b == 0xC0) {if (cur.size()) frames.push_back(cur); cur.clear();}
      else cur.push_back((char)b);
   }
}

static void RunRawOrSlip(Case & c, int mode /* 0 raw, 1 raw min-chunk, 2 SLIP */)
{
   Pipe pipe; std::string wire;
   // tee the wire bytes for the SLIP reference decoder
   class TeeIO : public ChopIO {public: TeeIO(Pipe * o, Plan * p, std::string * w) : ChopIO(NULL, o, p), _o(o), _w(w) {} virtual io_status_t Write(const void * b, uint32 n) {const io_status_t r = ChopIO::Write(b, n); if (r.GetByteCount() > 0) _w->append((const char *)b, (size_t)r.GetByteCount()); return r;} Pipe * _o; std::string * _w;};
   TeeIO sio(&pipe, &c.plan, &wire); ChopIO rio(&pipe, NULL, &c.plan);
   const uint32 k = 1+c.bs.u8()%9;
   AbstractMessageIOGatewayRef snd, rcv;
   if (mode == 2) {snd.SetRef(new SLIPFramedDataMessageIOGateway); rcv.SetRef(new SLIPFramedDataMessageIOGateway);}
   else {snd.SetRef(new RawDataMessageIOGateway); rcv.SetRef((mode == 1) ? new RawDataMessageIOGateway(k, k) : new RawDataMessageIOGateway);}
   snd()->SetDataIO(DummyDataIORef(sio)); rcv()->SetDataIO(DummyDataIORef(rio));
   Recv recv; std::string sentBytes; std::vector<std::string> sentChunks; const uint32 n = 1+c.bs.u8()%6;
   const bool f12 = vf::AllowKnown("F12");   // known finding: one recursion per successful write; a huge chunk over 1-byte writes overflows the stack
   for (uint32 i=0; i<n; i++)
   {
      MessageRef m = GetMessageFromPool(PR_COMMAND_RAW_DATA); const uint32 nc = 1+c.bs.u8()%3;
      for (uint32 q=0; q<nc; q++)
      {
         std::string ch; const uint32 len = f12 ? 400000 : (1+c.bs.range(0, 300));
         for (uint32 j=0; j<len; j++) {const uint8_t t = f12 ? 1 : c.bs.u8(); ch.push_back((char)((t%4 == 0) ? (uint8_t)(((t>>2)&1) ? 0xC0 : 0xDB) : ((t%4 == 1) ? (uint8_t)(0xDC+((t>>2)&1)) : (f12 ? (uint8_t)j : c.bs.u8()))));}
         (void) m()->AddData(PR_NAME_DATA_CHUNKS, B_RAW_TYPE, ch.data(), (uint32)ch.size()); sentBytes += ch; sentChunks.push_back(ch); c.h = vf::HashStr(ch, c.h);
      }
      if (snd()->AddOutgoingMessage(m).IsError()) vf::Fail("AddOutgoingMessage failed");
      if (f12) c.plan.forced = 1; else vf::Excluded("F12", 0);
      const uint32 steps = c.bs.u8()%4; for (uint32 s=0; s<steps; s++) {(void) snd()->DoOutput(1+c.bs.range(0, 2000)); if (rcv()->DoInput(recv, 1+c.bs.range(0, 2000)).IsError()) vf::Fail("raw/SLIP DoInput error");}
   }
   if (f12) {for (int r=0; r<4; r++) (void) snd()->DoOutput(); c.plan.forced = 0;}
   Drain(*snd(), *rcv(), recv, pipe, c.plan, "raw/SLIP");
   std::string gotBytes; std::vector<std::string> gotChunks;
   for (size_t i=0; i<recv.got.size(); i++) {const void * d; uint32 nb; for (uint32 q=0; recv.got[i]()->FindData(PR_NAME_DATA_CHUNKS, B_RAW_TYPE, q, &d, &nb).IsOK(); q++) {gotBytes.append((const char *)d, nb); gotChunks.push_back(std::string((const char *)d, nb));}}
   if (mode == 0) {if (gotBytes != sentBytes) vf::Fail("raw gateway: %zu bytes sent, %zu received, or content differs", sentBytes.size(), gotBytes.size());}
   else if (mode == 1)
   {
      const size_t expLen = (sentBytes.size()/k)*k;
      if ((gotBytes.size() != expLen)||(sentBytes.compare(0, gotBytes.size(), gotBytes) != 0)) vf::Fail("raw min-chunk(%u) gateway: expected the first %zu of %zu bytes, got %zu", k, expLen, sentBytes.size(), gotBytes.size());
      for (size_t i=0; i<gotChunks.size(); i++) if (gotChunks[i].size() != k) vf::Fail("raw min-chunk(%u) gateway delivered a %zu-byte chunk", k, gotChunks[i].size());
   }
   else
   {
      if (gotChunks != sentChunks) vf::Fail("SLIP gateway: sent %zu frames, received %zu, or a frame differs", sentChunks.size(), gotChunks.size());
      std::vector<std::string> ref; RefSlipDecode(wire, ref);
      if (ref != sentChunks) vf::Fail("SLIP wire bytes do not decode (RFC 1055 reference decoder) to the sent frames: %zu vs %zu", ref.size(), sentChunks.size());
   }
   c.nMsgs = n;
}

// ---- WebSocket client <-> server, duplex, slave MessageIOGateway on both -------------------------
static MessageRef GenWsMsg(vf::BS & bs)
{
   MessageRef m = GetMessageFromPool(bs.u8());
   const uint32 nf = bs.u8()%4;
   for (uint32 i=0; i<nf; i++)
   {
      char fn[8]; snprintf(fn, sizeof(fn), "f%u", i);
      switch(bs.u8()%4)
      {
         case 0: (void) m()->AddInt32(fn, bs.u8()); break;
         case 1: (void) m()->AddString(fn, String("xyzzy-0123456789").Substring(0, bs.u8()%16)); break;
         case 2: {static const uint32 L[] = {1, 60, 100, 124, 125, 126, 127, 128, 1000, 65535-60, 65535-40, 65536-30, 65536, 65537, 70000}; std::vector<uint8> v(L[bs.u8()%15]); for (size_t j=0; j<v.size(); j++) v[j] = (uint8)(j*31+i); (void) m()->AddData(fn, B_RAW_TYPE, &v[0], (uint32)v.size());} break;
         default: (void) m()->AddBool(fn, true); break;
      }
   }
   return m;
}

static void RunWebSocket(Case & c)
{
   Pipe c2s, s2c; ChopIO cio(&s2c, &c2s, &c.plan), sio(&c2s, &s2c, &c.plan);
   WebSocketMessageIOGateway client("/", "localhost", "", ""); WebSocketMessageIOGateway server;
   client.SetSlaveGateway(AbstractMessageIOGatewayRef(new MessageIOGateway)); server.SetSlaveGateway(AbstractMessageIOGatewayRef(new MessageIOGateway));
   client.SetDataIO(DummyDataIORef(cio)); server.SetDataIO(DummyDataIORef(sio));
   QueueGatewayMessageReceiver cq, sq; std::vector<std::string> sentC, sentS;
   const uint32 nsteps = 1+c.bs.u8()%12;
   for (uint32 s=0; s<nsteps; s++)
   {
      const uint8_t op = c.bs.u8();
      if (op%4 == 0) {MessageRef m = GenWsMsg(c.bs); sentC.push_back(Flat(*m())); c.h = vf::HashStr(sentC.back(), c.h); (void) client.AddOutgoingMessage(m);}
      else if (op%4 == 1) {MessageRef m = GenWsMsg(c.bs); sentS.push_back(Flat(*m())); c.h = vf::HashStr(sentS.back(), c.h^1); (void) server.AddOutgoingMessage(m);}
      const uint32 io = (op>>2)%4;
      for (uint32 k=0; k<io; k++) {(void) client.DoOutput(1+c.bs.range(0, 3000)); (void) server.DoInput(sq, 1+c.bs.range(0, 3000)); (void) server.DoOutput(1+c.bs.range(0, 3000)); (void) client.DoInput(cq, 1+c.bs.range(0, 3000));}
   }
   c.plan.generous = true;
   bool drained = false;
   for (int r=0; r<40000; r++)
   {
      const io_status_t a = client.DoOutput(), b = server.DoInput(sq), d = server.DoOutput(), e = client.DoInput(cq);
      if ((a.IsError())||(b.IsError())||(d.IsError())||(e.IsError())) break;
      if ((a.GetByteCount() == 0)&&(b.GetByteCount() == 0)&&(d.GetByteCount() == 0)&&(e.GetByteCount() == 0)&&(client.HasBytesToOutput() == false)&&(server.HasBytesToOutput() == false)&&(c2s.q.empty())&&(s2c.q.empty())) {drained = true; break;}
   }
   if (client.GetUnrecoverableErrorStatus().IsError() || server.GetUnrecoverableErrorStatus().IsError()) vf::Fail("WebSocket gateway error status client=[%s] server=[%s] after sending %zu/%zu Messages", client.GetUnrecoverableErrorStatus()(), server.GetUnrecoverableErrorStatus()(), sentC.size(), sentS.size());
   if (drained == false) vf::Fail("WebSocket link did not drain");
   if (client.IsHandshakeInProgress() || server.IsHandshakeInProgress()) vf::Fail("WebSocket handshake never completed");
   if (sq.GetMessages().GetNumItems() != sentC.size()) vf::Fail("WebSocket client->server: sent %zu, delivered %u", sentC.size(), sq.GetMessages().GetNumItems());
   if (cq.GetMessages().GetNumItems() != sentS.size()) vf::Fail("WebSocket server->client: sent %zu, delivered %u", sentS.size(), cq.GetMessages().GetNumItems());
   for (size_t i=0; i<sentC.size(); i++) if (Flat(*sq.GetMessages()[(uint32)i]()) != sentC[i]) vf::Fail("WebSocket client->server Message %zu differs", i);
   for (size_t i=0; i<sentS.size(); i++) if (Flat(*cq.GetMessages()[(uint32)i]()) != sentS[i]) vf::Fail("WebSocket server->client Message %zu differs", i);
   c.nMsgs = (uint32)(sentC.size()+sentS.size());
}

// ---- C gateways <-> C++ gateway ------------------------------------------------------------------
struct CIO {Pipe * pipe; Plan * plan;};
static int32 CSend(const uint8 * buf, uint32 n, void * arg) {CIO * io = (CIO *) arg; const uint32 k = io->plan->Chunk(n); for (uint32 i=0; i<k; i++) io->pipe->q.push_back(buf[i]); return (int32) k;}
static int32 CRecv(uint8 * buf, uint32 n, void * arg) {CIO * io = (CIO *) arg; const uint32 k = io->plan->Chunk(muscleMin(n, (uint32)io->pipe->q.size())); for (uint32 i=0; i<k; i++) {buf[i] = io->pipe->q.front(); io->pipe->q.pop_front();} return (int32) k;}

using cbuild::BuildUM;

static void GenCommonMsg(Case & c, Message & msg, MMsg & mod, bool forMicro)
{
   GenOpts o; o.commonRepertoire = true; o.allowNonFlattenable = false; o.maxTopOps = 8; o.maxDepth = forMicro ? 1 : 2; o.allowBursts = false;
   Generator g(c.bs, o); g.Gen(0, msg, mod);
   // the C codecs cannot hold fields with the empty name?  they can; but neither side can build a zero-item field, and there are none here
}

static void RunCGateway(Case & c, bool micro, bool cSends)
{
   Pipe pipe; CIO cio; cio.pipe = &pipe; cio.plan = &c.plan;
   MessageIOGateway cpp; ChopIO sio(NULL, &pipe, &c.plan), rio(&pipe, NULL, &c.plan);
   cpp.SetDataIO(DummyDataIORef(cSends ? rio : sio));
   std::vector<std::string> sent, got; Recv recv;
   MMessageGateway * mg = micro ? NULL : MGAllocMessageGateway();
   const bool microQueues = (micro)&&(cSends)&&(c.bs.flip());     // the micro sender keeps preparing Messages while earlier ones are still (partly) in its output buffer, which is then a few Messages large
   std::vector<uint8> inBuf(70000), outBuf(microQueues ? 200+c.bs.range(0, 2000) : 70000); UMessageGateway ug; if (micro) UGGatewayInitialize(&ug, &inBuf[0], (uint32)inBuf.size(), &outBuf[0], (uint32)outBuf.size()); bool microQueuedBehindPending = false;
   const uint8_t nb = c.bs.u8(); const uint32 n = microQueues ? 3+nb%10 : 1+nb%6;
   for (uint32 i=0; i<n; i++)
   {
      Message msg; MMsg mod; GenCommonMsg(c, msg, mod, micro);
      const std::string flat = Encode(mod);
      if (flat.size() > 60000) continue;
      if (cSends)
      {
         if (micro)
         {
            auto flush = [&]{c.plan.generous = true; for (int r=0; (r<100000)&&(UGHasBytesToOutput(&ug)); r++) {(void) UGDoOutput(&ug, ~0u, CSend, &cio); if (cpp.DoInput(recv).IsError()) vf::Fail("C++ receiver error");} c.plan.generous = false;};
            if ((microQueues == false)&&(UGHasBytesToOutput(&ug))) flush();     // (one Message in the output buffer at a time)
            const bool pending = (UGHasBytesToOutput(&ug) != UFalse);
            UMessage um = UGGetOutgoingMessage(&ug, mod.what); bool built = (UMIsMessageValid(&um) != UFalse)&&(BuildUM(&um, mod));
            if ((built == false)&&(pending))
            {
               // no room behind what is still waiting to go out: let it go out, then try again with the whole buffer
               if (UMIsMessageValid(&um)) UGOutgoingMessageCancelled(&ug, &um);
               flush(); um = UGGetOutgoingMessage(&ug, mod.what); if (UMIsMessageValid(&um) == UFalse) vf::Fail("UGGetOutgoingMessage returned an invalid UMessage from an empty gateway"); built = BuildUM(&um, mod);
            }
            else if (UMIsMessageValid(&um) == UFalse) vf::Fail("UGGetOutgoingMessage returned an invalid UMessage");
            else if ((built)&&(pending)) microQueuedBehindPending = true;
            if (built == false) {UGOutgoingMessageCancelled(&ug, &um); vf::Count("micro_build_refused"); continue;}
            UGOutgoingMessagePrepared(&ug, &um);
         }
         else
         {
            MMessage * mm = MMAllocMessage(0); if (MMUnflattenMessage(mm, flat.data(), (uint32)flat.size()) != CB_NO_ERROR) vf::Fail("MiniMessage rejects a valid encoding");
            if (MGAddOutgoingMessage(mg, mm) != CB_NO_ERROR) vf::Fail("MGAddOutgoingMessage failed"); MMFreeMessage(mm);
         }
      }
      else {MessageRef m = GetMessageFromPool(msg); if (cpp.AddOutgoingMessage(m).IsError()) vf::Fail("AddOutgoingMessage failed");}
      sent.push_back(flat); c.h = vf::HashStr(flat, c.h);
      const uint32 steps = c.bs.u8()%4;
      for (uint32 s=0; s<=steps; s++)
      {
         const bool last = (s == steps);
         if (last) continue;
         const uint32 mo = 1+c.bs.range(0, 3000), mi = 1+c.bs.range(0, 3000);
         if (cSends)
         {
            if (micro) (void) UGDoOutput(&ug, mo, CSend, &cio); else (void) MGDoOutput(mg, mo, CSend, &cio);
            if (cpp.DoInput(recv, mi).IsError()) vf::Fail("C++ receiver error: %s", cpp.GetUnrecoverableErrorStatus()());
         }
         else
         {
            if (cpp.DoOutput(mo).IsError()) vf::Fail("C++ sender error");
            if (micro) {UMessage um; memset(&um, 0, sizeof(um)); UMInitializeToInvalid(&um); const int32 r = UGDoInput(&ug, mi, CRecv, &cio, &um); if (r < 0) vf::Fail("UGDoInput error"); if (UMIsMessageValid(&um)) got.push_back(std::string((const char *)UMGetFlattenedBuffer(&um), UMGetFlattenedSize(&um)));}
            else {MMessage * mm = NULL; const int32 r = MGDoInput(mg, mi, CRecv, &cio, &mm); if (r < 0) vf::Fail("MGDoInput error"); if (mm) {const uint32 fs = MMGetFlattenedSize(mm); std::string b(fs, '\0'); MMFlattenMessage(mm, (uint8 *)&b[0]); got.push_back(b); MMFreeMessage(mm);}}
         }
      }
   }
   // drain
   c.plan.generous = true;
   for (int r=0; r<200000; r++)
   {
      int32 moved = 0;
      if (cSends)
      {
         moved += micro ? UGDoOutput(&ug, ~0u, CSend, &cio) : MGDoOutput(mg, ~0u, CSend, &cio);
         const io_status_t b = cpp.DoInput(recv); if (b.IsError()) vf::Fail("C++ receiver error while draining: %s", cpp.GetUnrecoverableErrorStatus()()); moved += b.GetByteCount();
         if ((moved == 0)&&(pipe.q.empty())&&((micro ? (bool)UGHasBytesToOutput(&ug) : (bool)MGHasBytesToOutput(mg)) == false)) break;
      }
      else
      {
         const io_status_t a = cpp.DoOutput(); if (a.IsError()) vf::Fail("C++ sender error while draining"); moved += a.GetByteCount();
         if (micro) {UMessage um; UMInitializeToInvalid(&um); const int32 q = UGDoInput(&ug, ~0u, CRecv, &cio, &um); if (q < 0) vf::Fail("UGDoInput error while draining"); moved += q; if (UMIsMessageValid(&um)) got.push_back(std::string((const char *)UMGetFlattenedBuffer(&um), UMGetFlattenedSize(&um)));}
         else {MMessage * mm = NULL; const int32 q = MGDoInput(mg, ~0u, CRecv, &cio, &mm); if (q < 0) vf::Fail("MGDoInput error while draining"); moved += q; if (mm) {const uint32 fs = MMGetFlattenedSize(mm); std::string b(fs, '\0'); MMFlattenMessage(mm, (uint8 *)&b[0]); got.push_back(b); MMFreeMessage(mm);}}
         if ((moved == 0)&&(pipe.q.empty())&&(cpp.HasBytesToOutput() == false)) break;
      }
   }
   if (cSends) for (size_t i=0; i<recv.got.size(); i++) got.push_back(Flat(*recv.got[i]()));
   if (mg) MGFreeMessageGateway(mg);
   const char * nm = micro ? (cSends ? "micro->C++" : "C++->micro") : (cSends ? "mini->C++" : "C++->mini");
   if (got.size() != sent.size()) vf::Fail("%s: sent %zu Messages, received %zu", nm, sent.size(), got.size());
   for (size_t i=0; i<sent.size(); i++) if (got[i] != sent[i]) vf::Fail("%s: Message %zu arrived altered: sent %s got %s", nm, i, vf::Hex(sent[i].data(), sent[i].size(), 60).c_str(), vf::Hex(got[i].data(), got[i].size(), 60).c_str());
   c.nMsgs = (uint32) sent.size(); c.desc = nm; if (microQueuedBehindPending) vf::Count("case_micro_sender_prepared_a_message_behind_pending_output");
}

extern "C" int vf_run_case(const uint8_t * data, size_t size)
{
   static CompleteSetupSystem * css = NULL; if (css == NULL) {css = new CompleteSetupSystem; SetConsoleLogLevel(MUSCLE_LOG_NONE);}
   if (size < 4) return 0;
   vf::BS bs(data, size);
   Case c(bs);
   c.kind = bs.u8()%30;
   char kb[32]; snprintf(kb, sizeof(kb), "kind %u", c.kind); c.desc = kb;
   const char * cls = "?";
   if (c.kind < 10) {cls = (c.kind == 0) ? "binary_plain" : "binary_zlib"; RunBinary(c, AbstractMessageIOGatewayRef(new MessageIOGateway(MUSCLE_MESSAGE_ENCODING_DEFAULT+c.kind)), AbstractMessageIOGatewayRef(new MessageIOGateway), false, false, false);}
   else if (c.kind <= 11) {cls = "binary_encoding_switches"; RunBinary(c, AbstractMessageIOGatewayRef(new MessageIOGateway(MUSCLE_MESSAGE_ENCODING_DEFAULT+(int32)(bs.u8()%10))), AbstractMessageIOGatewayRef(new MessageIOGateway), false, true, false);}
   else if (c.kind == 12) {cls = "binary_zlib_independent_streams"; RunBinary(c, AbstractMessageIOGatewayRef(new IndependentStreamsGateway(MUSCLE_MESSAGE_ENCODING_ZLIB_1+(int32)(bs.u8()%9))), AbstractMessageIOGatewayRef(new MessageIOGateway), false, false, false);}
   else if (c.kind == 13) {cls = "counted"; RunBinary(c, AbstractMessageIOGatewayRef(new CountedMessageIOGateway(MUSCLE_MESSAGE_ENCODING_DEFAULT+(int32)(bs.u8()%10))), AbstractMessageIOGatewayRef(new CountedMessageIOGateway), false, false, false);}
   else if (c.kind <= 16) {cls = "templating"; static const uint32 LRU[] = {0, 200, 4096, 1024*1024}; const uint32 lru = LRU[bs.u8()%4]; const int32 enc = MUSCLE_MESSAGE_ENCODING_DEFAULT+(int32)(bs.u8()%10); const bool tsw = bs.flip(); snprintf(kb, sizeof(kb), "templating lru=%u", lru); c.desc = kb; RunBinary(c, AbstractMessageIOGatewayRef(new TemplatingMessageIOGateway(lru, enc)), AbstractMessageIOGatewayRef(new TemplatingMessageIOGateway(lru)), true, tsw, false); if (tsw) vf::Count("templating_with_encoding_switches");}
   else if (c.kind <= 18) {cls = "text"; RunText(c);}
   else if (c.kind == 19) {cls = "raw"; RunRawOrSlip(c, 0);}
   else if (c.kind == 20) {cls = "raw_min_chunk"; RunRawOrSlip(c, 1);}
   else if (c.kind == 21) {cls = "slip"; RunRawOrSlip(c, 2);}
   else if (c.kind <= 24) {cls = "websocket"; RunWebSocket(c);}
   else if (c.kind == 25) {cls = "mini_gateway"; RunCGateway(c, false, bs.flip());}
   else if (c.kind == 26) {cls = "micro_gateway"; RunCGateway(c, true, bs.flip());}
   else if (c.kind == 27) {cls = "binary_300KiB"; RunBinary(c, AbstractMessageIOGatewayRef(new MessageIOGateway(bs.flip() ? MUSCLE_MESSAGE_ENCODING_DEFAULT : MUSCLE_MESSAGE_ENCODING_ZLIB_3)), AbstractMessageIOGatewayRef(new MessageIOGateway), false, false, true);}
   else {cls = "binary_plain"; RunBinary(c, AbstractMessageIOGatewayRef(new MessageIOGateway), AbstractMessageIOGatewayRef(new MessageIOGateway), false, false, false);}

   vf::Count(cls);
   vf::Count("messages", c.nMsgs); vf::Count("io_ops", c.plan.ops); vf::Count("io_ops_partial", c.plan.partialOps); vf::Count("io_ops_zero_bytes", c.plan.zeroOps);
   if ((c.nMsgs >= 2)&&(c.plan.partialOps > 0)) {vf::NonTrivial(vf::HashMix(c.h, c.kind)); if (vf::WantSample()) {char b[160]; snprintf(b, sizeof(b), "%s (%s): %u Messages, %llu I/O calls of which %llu partial and %llu zero-byte", cls, c.desc.c_str(), c.nMsgs, (unsigned long long)c.plan.ops, (unsigned long long)c.plan.partialOps, (unsigned long long)c.plan.zeroOps); vf::Sample(b);}}
   return 0;
}
