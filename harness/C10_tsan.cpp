// C10 supplement: the same reference/pool operations free-running on 8 real threads under
// ThreadSanitizer (no scheduler, no hooks installed).  This is what sees a loss of atomicity inside a
// primitive or a dropped mutex guard, which the controlled scheduler cannot (the primitives are
// trusted at its hook points).  A TSan report is the failure; silence proves nothing beyond the runs made.
#include "engine/harness.h"
#include "util/RefCount.h"
#include "util/ObjectPool.h"
#include "system/SetupSystem.h"
#include "system/Thread.h"
#include "syslog/SysLog.h"
#include <thread>
#include <vector>

using namespace muscle;
const char * vf_harness_name = "c10_tsan";

class Obj : public RefCountable {public: Obj() : gen(0) {} uint32 gen;};
DECLARE_REFTYPES(Obj);
typedef ObjectPool<Obj, 128> Pool;
class EchoThread : public Thread {public: EchoThread(bool s) : Thread(s) {} protected: virtual status_t MessageReceivedFromOwner(const MessageRef & m, uint32) {if (m() == NULL) return B_ERROR; return SendMessageToOwner(m);}};

extern "C" int vf_run_case(const uint8_t * data, size_t size)
{
   static CompleteSetupSystem * css = NULL; if (css == NULL) {css = new CompleteSetupSystem; SetConsoleLogLevel(MUSCLE_LOG_NONE);}
   if (size < 4) return 0;
   vf::BS bs(data, size);
   const uint32 seed = bs.u32(); const int iters = 1500+(int)(bs.u8()%4)*500; const uint32 maxPool = bs.u8()%5; const int nthreads = 2+bs.u8()%7;
   {
      Pool pool(maxPool); Mutex boxLock; ObjRef box[2];
      std::vector<std::thread> ts;
      for (int t=0; t<nthreads; t++) ts.push_back(std::thread([&, t]{
         uint32 x = seed+12345u*(uint32)(t+1); ObjRef mine[3];
         for (int k=0; k<iters; k++)
         {
            x = x*1664525u+1013904223u; const uint32 op = (x>>24)%8, a = (x>>8)%3, b = (x>>16)%3;
            switch(op)
            {
               case 0: mine[a] = mine[b]; break;
               case 1: mine[a].Reset(); break;
               case 2: mine[a].SetRef(pool.ObtainObject()); break;
               case 3: mine[a].SwapContents(mine[b]); break;
               case 4: {DECLARE_MUTEXGUARD(boxLock); box[b%2] = mine[a];} break;
               case 5: {DECLARE_MUTEXGUARD(boxLock); mine[a] = box[b%2];} break;
               case 6: mine[a].SetRef(new Obj); break;
               default: {ObjRef tmp = std::move(mine[a]); mine[a] = std::move(mine[b]); mine[b] = std::move(tmp);} break;
            }
         }
      }));
      for (size_t i=0; i<ts.size(); i++) ts[i].join();
      box[0].Reset(); box[1].Reset();
      pool.PerformSanityCheck();
   }
   uint32 echoed = 0;
   if (bs.u8()%4 == 0)
   {
      // Thread owner <-> internal thread round trips, both signalling modes, really concurrent
      for (int mode=0; mode<2; mode++)
      {
         EchoThread th(mode == 0); if (th.StartInternalThread().IsError()) vf::Fail("StartInternalThread failed");
         int got = 0; const int N = 400;
         for (int i=0; i<N; i++) {(void) th.SendMessageToInternalThread(GetMessageFromPool((uint32)i)); MessageRef r; while(th.GetNextReplyFromInternalThread(r, 0).IsOK()) {if ((int)r()->what != got) vf::Fail("echo out of order"); got++;}}
         MessageRef r; int spins = 0; while(got < N) {if (th.GetNextReplyFromInternalThread(r, GetRunTime64()+SecondsToMicros(5)).IsOK()) {if ((int)r()->what != got) vf::Fail("echo out of order"); got++;} else if (++spins > 20) vf::Fail("echo thread stopped answering (%d of %d)", got, N);}
         th.ShutdownInternalThread(true); echoed += (uint32) got;
      }
      vf::Count("thread_echo_runs");
   }
   vf::Count("free_running_iterations", (uint64_t)iters*(uint64_t)nthreads); vf::Count("echo_round_trips", echoed);
   vf::NonTrivial(vf::Hash64(data, size, 0x75a));
   if (vf::WantSample()) vf::Sample(std::to_string(nthreads)+" free-running threads x "+std::to_string(iters)+" reference/pool operations, maxPoolSize="+std::to_string(maxPool)+", under ThreadSanitizer");
   return 0;
}
