// C14: (a) QueryFilter::Matches against a reference evaluator written from QueryFilter.h's doc comments,
// (b) evaluation leaves the Message unchanged, (c) SaveToArchive -> CreateQueryFilter decides identically,
// (d) the AST printed in the documented expression grammar and parsed back decides identically,
// (e) hostile archives and arbitrary expression strings either fail cleanly or evaluate safely.
#include "engine/harness.h"
#include "message/Message.h"
#include "regex/QueryFilter.h"
#include "system/SetupSystem.h"
#include "syslog/SysLog.h"
#include "util/ByteBuffer.h"
#include <string>
#include <vector>
#include <map>
#include <math.h>
#include <strings.h>
#include <algorithm>
using namespace muscle;
const char * vf_harness_name = "c14_queryfilter";
typedef vf::BS BS;
#define FAIL(...) vf::Fail(__VA_ARGS__)
enum {T_I8=0, T_I16, T_I32, T_I64, T_F, T_D, T_B, T_S, T_M, T_R, NUM_T};
static const uint32 TC[] = {B_INT8_TYPE, B_INT16_TYPE, B_INT32_TYPE, B_INT64_TYPE, B_FLOAT_TYPE, B_DOUBLE_TYPE, B_BOOL_TYPE, B_STRING_TYPE, B_MESSAGE_TYPE, B_RAW_TYPE};
struct MMsg;
struct Val {int64 i; double d; std::string s; MMsg * sub; Val():i(0),d(0),sub(NULL){}};
struct MMsg {uint32 what; std::map<std::string, std::pair<int, std::vector<Val> > > f; MessageRef real;};
static std::vector<MMsg *> g_owned;
static const char * FN[] = {"a", "b", "s", "m", "r", "zz"};
static const int64 IV[] = {0, 1, -1, 2, 5, 127, -128, 255, 256, 32767, -32768, 65535, 2147483647LL, -2147483648LL, 4294967296LL, 0x7fffffffffffffffLL, (int64)0x8000000000000000ULL, 100, 21, 3};
static const double DV[] = {0.0, -0.0, 1.0, -1.0, 0.5, 21.0, 1e30, -1e30, INFINITY, -INFINITY, NAN, 3.25};
static const char * SV[] = {"", "a", "A", "ab", "AB", "abc", "bc", "b", "aBc", "abcabc", "zz", "abcd"};
static int64 Trunc(int t, int64 v) {switch(t) {case T_I8: return (int8)v; case T_I16: return (int16)v; case T_I32: return (int32)v; default: return v;}}
static Val GenVal(int t, BS & bs, int depth);
static MMsg * GenMsg(BS & bs, int depth)
{
   MMsg * m = new MMsg; g_owned.push_back(m); m->what = bs.u8()%4; m->real = GetMessageFromPool(m->what);
   const uint32 nf = bs.u8()%5;
   for (uint32 i=0;i<nf;i++)
   {
      const std::string fn = FN[bs.u8()%6]; if (m->f.count(fn)) continue;
      int t = bs.u8()%NUM_T; if ((t==T_M)&&(depth>=2)) t = T_I32;
      const uint32 n = 1+bs.u8()%3; std::vector<Val> vals;
      for (uint32 k=0;k<n;k++)
      {
         Val v = GenVal(t, bs, depth); vals.push_back(v); const String mfn(fn.c_str()); Message & r = *m->real();
         switch(t) {
            case T_I8: (void) r.AddInt8(mfn, (int8)v.i); break; case T_I16: (void) r.AddInt16(mfn, (int16)v.i); break; case T_I32: (void) r.AddInt32(mfn, (int32)v.i); break; case T_I64: (void) r.AddInt64(mfn, v.i); break;
            case T_F: (void) r.AddFloat(mfn, (float)v.d); break; case T_D: (void) r.AddDouble(mfn, v.d); break; case T_B: (void) r.AddBool(mfn, v.i!=0); break;
            case T_S: (void) r.AddString(mfn, v.s.c_str()); break; case T_M: (void) r.AddMessage(mfn, v.sub->real); break; case T_R: (void) r.AddData(mfn, B_RAW_TYPE, v.s.data(), (uint32)v.s.size()); break;
         }
      }
      m->f[fn] = std::make_pair(t, vals);
   }
   return m;
}
static Val GenVal(int t, BS & bs, int depth)
{
   Val v;
   switch(t) {
      case T_I8: case T_I16: case T_I32: case T_I64: v.i = Trunc(t, IV[bs.u8()%20]); break;
      case T_F: v.d = (double)(float)DV[bs.u8()%12]; break; case T_D: v.d = DV[bs.u8()%12]; break;
      case T_B: v.i = bs.u8()&1; break; case T_S: v.s = SV[bs.u8()%12]; break;
      case T_R: {const uint32 n = 1+bs.u8()%4; for (uint32 i=0;i<n;i++) v.s.push_back((char)(bs.u8()%4 + ((bs.u8()%8==0)?0xFE:0)));} break;
      case T_M: v.sub = GenMsg(bs, depth+1); break;
   }
   return v;
}
enum {K_WHAT=0, K_EXISTS, K_NUM, K_STR, K_RAW, K_MIN, K_MAX, K_AND, K_OR, K_NAND, K_NOR, K_XOR, K_MSG, NUM_K};
struct F {int kind; std::string fn; uint32 idx; int op; int t; int64 ival, mask, idef; double dval, ddef; int maskop; bool hasDef; std::string sval, sdef; uint32 n; std::vector<F> kids; uint32 tc; uint32 wmin, wmax; bool hasChild; MMsg * defmsg;
   F():kind(0),idx(0),op(0),t(0),ival(0),mask(0),idef(0),dval(0),ddef(0),maskop(0),hasDef(false),n(0),tc(0),wmin(0),wmax(0),hasChild(false),defmsg(NULL){}};
static F GenF(BS & bs, int depth)
{
   F f; f.kind = bs.u8()%NUM_K; if ((depth >= 3)&&(f.kind >= K_MIN)) f.kind = K_NUM;
   f.fn = FN[bs.u8()%6]; {const uint8_t x = bs.u8(); f.idx = (x%8<5)?0:((x%8<7)?1:((x>200)?0xFFFFFFFFu:3));}
   switch(f.kind) {
      case K_WHAT: f.wmin = bs.u8()%4; f.wmax = (bs.u8()%3)?f.wmin:(bs.u8()%5); break;
      case K_EXISTS: {const uint8_t x = bs.u8(); f.tc = (x%3==0)?B_ANY_TYPE:TC[x%NUM_T];} break;
      case K_NUM: f.t = bs.u8()%7; f.op = bs.u8()%7; if (f.t <= T_I64) {f.ival = Trunc(f.t, IV[bs.u8()%20]); if (bs.u8()%3==0) {f.maskop = 1+bs.u8()%6; f.mask = Trunc(f.t, IV[bs.u8()%20]);} if (bs.u8()%3==0) {f.hasDef = true; f.idef = Trunc(f.t, IV[bs.u8()%20]);}}
                  else if (f.t == T_B) {f.ival = bs.u8()&1; if (bs.u8()%3==0) {f.maskop = 1+bs.u8()%6; f.mask = bs.u8()&1;} if (bs.u8()%3==0) {f.hasDef = true; f.idef = bs.u8()&1;}}
                  else {f.dval = DV[bs.u8()%12]; if (f.t==T_F) f.dval = (double)(float)f.dval; if (bs.u8()%3==0) {f.hasDef = true; f.ddef = DV[bs.u8()%12]; if (f.t==T_F) f.ddef = (double)(float)f.ddef;}} break;
      case K_STR: f.op = bs.u8()%25; if (f.op == 24) f.op = 200; f.sval = SV[bs.u8()%12]; if (bs.u8()%3==0) {f.hasDef = true; f.sdef = SV[bs.u8()%12];} break;
      case K_RAW: f.op = bs.u8()%13; f.tc = (bs.u8()%2)?B_RAW_TYPE:B_ANY_TYPE; {const uint32 n = bs.u8()%4; for (uint32 i=0;i<n;i++) f.sval.push_back((char)(bs.u8()%4 + ((bs.u8()%8==0)?0xFE:0)));} if (bs.u8()%3==0) {f.hasDef = true; f.sdef = std::string(1+bs.u8()%2, (char)(bs.u8()%4));} break;
      case K_MIN: case K_MAX: {const uint8_t x = bs.u8(); f.n = (x%6==5)?MUSCLE_NO_LIMIT:(x%6);}  // fallthrough
      case K_AND: case K_OR: case K_NAND: case K_NOR: case K_XOR: {const uint32 nk = bs.u8()%5; for (uint32 i=0;i<nk;i++) f.kids.push_back(GenF(bs, depth+1));} break;
      case K_MSG: f.hasChild = (bs.u8()%4 != 0); if (f.hasChild) f.kids.push_back(GenF(bs, depth+1)); if (bs.u8()%3==0) f.defmsg = GenMsg(bs, 2); break;
   }
   return f;
}
template<class QF, class DT> static QueryFilterRef MakeNum(const F & f, DT val, DT mask, DT def) {QF * q = new QF(f.fn.c_str(), (uint8)f.op, val, f.idx); if (f.maskop) q->SetMask((uint8)f.maskop, mask); if (f.hasDef) q->SetAssumedDefault(def); return QueryFilterRef(q);}
static QueryFilterRef Build(const F & f)
{
   switch(f.kind) {
      case K_WHAT: return QueryFilterRef(new WhatCodeQueryFilter(f.wmin, f.wmax));
      case K_EXISTS: return QueryFilterRef(new ValueExistsQueryFilter(f.fn.c_str(), f.tc, f.idx));
      case K_NUM: switch(f.t) {
         case T_I8: return MakeNum<Int8QueryFilter,int8>(f, (int8)f.ival, (int8)f.mask, (int8)f.idef); case T_I16: return MakeNum<Int16QueryFilter,int16>(f, (int16)f.ival, (int16)f.mask, (int16)f.idef);
         case T_I32: return MakeNum<Int32QueryFilter,int32>(f, (int32)f.ival, (int32)f.mask, (int32)f.idef); case T_I64: return MakeNum<Int64QueryFilter,int64>(f, f.ival, f.mask, f.idef);
         case T_F: return MakeNum<FloatQueryFilter,float>(f, (float)f.dval, 0.0f, (float)f.ddef); case T_D: return MakeNum<DoubleQueryFilter,double>(f, f.dval, 0.0, f.ddef);
         default: return MakeNum<BoolQueryFilter,bool>(f, f.ival!=0, f.mask!=0, f.idef!=0); }
      case K_STR: return f.hasDef ? QueryFilterRef(new StringQueryFilter(f.fn.c_str(), (uint8)f.op, f.sval.c_str(), f.idx, f.sdef.c_str())) : QueryFilterRef(new StringQueryFilter(f.fn.c_str(), (uint8)f.op, f.sval.c_str(), f.idx));
      case K_RAW: {ConstByteBufferRef v = GetByteBufferFromPool((uint32)f.sval.size(), (const uint8 *)f.sval.data()); return f.hasDef ? QueryFilterRef(new RawDataQueryFilter(f.fn.c_str(), (uint8)f.op, v, f.tc, f.idx, GetByteBufferFromPool((uint32)f.sdef.size(), (const uint8 *)f.sdef.data()))) : QueryFilterRef(new RawDataQueryFilter(f.fn.c_str(), (uint8)f.op, v, f.tc, f.idx));}
      case K_MSG: return QueryFilterRef(new MessageQueryFilter(f.hasChild?ConstQueryFilterRef(Build(f.kids[0])):ConstQueryFilterRef(), f.defmsg?ConstMessageRef(f.defmsg->real):ConstMessageRef(), f.fn.c_str(), f.idx));
      default: {
         MultiQueryFilter * q = NULL;
         switch(f.kind) {case K_MIN: q = new MinimumThresholdQueryFilter(f.n); break; case K_MAX: q = new MaximumThresholdQueryFilter(f.n); break; case K_AND: q = new AndQueryFilter; break; case K_OR: q = new OrQueryFilter; break; case K_NAND: q = new NandQueryFilter; break; case K_NOR: q = new NorQueryFilter; break; default: q = new XorQueryFilter; break;}
         for (size_t i=0;i<f.kids.size();i++) (void) q->GetChildren().AddTail(Build(f.kids[i]));
         return QueryFilterRef(q);
      }
   }
}
static std::string Lower(const std::string & s) {std::string r = s; for (size_t i=0;i<r.size();i++) if ((r[i]>='A')&&(r[i]<='Z')) r[i] += 32; return r;}
static bool SW(const std::string & s, const std::string & p) {return (s.size()>=p.size())&&(s.compare(0, p.size(), p)==0);}
static bool EW(const std::string & s, const std::string & p) {return (s.size()>=p.size())&&(s.compare(s.size()-p.size(), p.size(), p)==0);}
static bool HAS(const std::string & s, const std::string & p) {return s.find(p) != std::string::npos;}
static int g_decidedByValue = 0;
// returns 0/1, or 2 = reference declines (documented behaviour unclear) -> case not compared
static int RefEval(const F & f, const MMsg & m)
{
   std::map<std::string, std::pair<int, std::vector<Val> > >::const_iterator it = m.f.find(f.fn);
   const std::pair<int, std::vector<Val> > * fld = (it != m.f.end()) ? &it->second : NULL;
   switch(f.kind) {
      case K_WHAT: return ((m.what >= f.wmin)&&(m.what <= f.wmax)) ? 1 : 0;
      case K_EXISTS: return ((fld)&&(f.idx < fld->second.size())&&((f.tc == B_ANY_TYPE)||(f.tc == TC[fld->first]))) ? 1 : 0;
      case K_NUM: {
         const bool found = ((fld)&&(fld->first == f.t)&&(f.idx < fld->second.size())); if ((found == false)&&(f.hasDef == false)) return 0; if (found) g_decidedByValue++;
         if (f.t >= T_F && f.t <= T_D) {const double v = found ? fld->second[f.idx].d : f.ddef; const double c = f.dval;
            switch(f.op) {case 0: return v==c; case 1: return v<c; case 2: return v>c; case 3: return v<=c; case 4: return v>=c; case 5: return v!=c; default: return 0;}}
         int64 v = found ? fld->second[f.idx].i : f.idef; const int64 c = f.ival;
         if (f.t == T_B) {const bool bv = v!=0, bm = f.mask!=0; bool r = bv; switch(f.maskop) {case 1: r = bv&&bm; break; case 2: r = bv||bm; break; case 3: r = bv!=bm; break; case 4: r = !(bv&&bm); break; case 5: r = !(bv||bm); break; case 6: r = !(bv!=bm); break;} v = r?1:0;}
         else {switch(f.maskop) {case 1: v = v&f.mask; break; case 2: v = v|f.mask; break; case 3: v = v^f.mask; break; case 4: v = ~(v&f.mask); break; case 5: v = ~(v|f.mask); break; case 6: v = ~(v^f.mask); break;} v = Trunc(f.t, v);}
         switch(f.op) {case 0: return v==c; case 1: return v<c; case 2: return v>c; case 3: return v<=c; case 4: return v>=c; case 5: return v!=c; default: return 0;}
      }
      case K_STR: {
         const bool found = ((fld)&&(fld->first == T_S)&&(f.idx < fld->second.size())); if ((found == false)&&(f.hasDef == false)) return 0; if (found) g_decidedByValue++;
         std::string s = found ? fld->second[f.idx].s : f.sdef, c = f.sval; int op = f.op; if (op >= 24) return 0; if (op >= 12) {s = Lower(s); c = Lower(c); op -= 12;} if (((op==8)&&(c.empty()))||((op==11)&&(s.empty()))) return 2;
         switch(op) {case 0: return s==c; case 1: return s<c; case 2: return s>c; case 3: return s<=c; case 4: return s>=c; case 5: return s!=c;
            case 6: return SW(s,c); case 7: return EW(s,c); case 8: return HAS(s,c); case 9: return SW(c,s); case 10: return EW(c,s); case 11: return HAS(c,s);}
         return 0;
      }
      case K_RAW: {
         bool found = ((fld)&&(f.idx < fld->second.size())&&((f.tc == B_ANY_TYPE)||(f.tc == TC[fld->first])));
         if ((found)&&(fld->first != T_R)) return 2;   // B_ANY_TYPE view of a non-raw field: the byte image is not documented; decline
         if ((found == false)&&(f.hasDef == false)) return 0; if (found) g_decidedByValue++;
         const std::string h = found ? fld->second[f.idx].s : f.sdef, c = f.sval;
         if (c.empty()) return 2;   // comparison against an empty value: decline
         const int cmp = (h < c) ? -1 : ((h > c) ? 1 : 0);   // std::string compare on char is signed on x86; redo with unsigned
         int ucmp = 0; {const size_t n = std::min(h.size(), c.size()); const int mc = memcmp(h.data(), c.data(), n); ucmp = mc ? ((mc<0)?-1:1) : ((h.size()<c.size())?-1:((h.size()>c.size())?1:0));} (void) cmp;
         switch(f.op) {case 0: return ucmp==0; case 1: return ucmp<0; case 2: return ucmp>0; case 3: return ucmp<=0; case 4: return ucmp>=0; case 5: return ucmp!=0; case 6: return SW(h,c); case 7: return EW(h,c); case 8: return HAS(h,c); case 9: return SW(c,h); case 10: return EW(c,h); case 11: return HAS(c,h); default: return 0;}
      }
      case K_MSG: {
         const bool found = ((fld)&&(fld->first == T_M)&&(f.idx < fld->second.size())); const MMsg * sub = found ? fld->second[f.idx].sub : f.defmsg;
         if (sub == NULL) return 0; if (f.hasChild == false) return 1; return RefEval(f.kids[0], *sub);
      }
      default: {
         uint32 cnt = 0; const uint32 nk = (uint32)f.kids.size(); for (uint32 i=0;i<nk;i++) {const int r = RefEval(f.kids[i], m); if (r == 2) return 2; cnt += r;}
         switch(f.kind) {
            case K_AND: return (cnt == nk); case K_OR: return (nk==0)||(cnt>0); case K_NAND: return (nk>0)&&(cnt<nk); case K_NOR: return (nk>0)&&(cnt==0); case K_XOR: return cnt%2;
            case K_MIN: if (nk == 0) return 1; return cnt > std::min(f.n, nk-1);
            case K_MAX: if (nk == 0) return 0; return cnt <= std::min(f.n, nk-1);
         }
      }
   }
   return 2;
}
// expression printer for the documented grammar (subset): returns "" if this AST has no documented spelling
static const char * CAST[] = {"(int8)", "(int16)", "(int32)", "(int64)", "(float)", "(double)", "(bool)"};
static const char * NOPS[] = {"==", "<", ">", "<=", ">=", "!="};
static const char * SOPS[] = {"==", "<", ">", "<=", ">=", "!=", "startswith", "endswith", "contains", "isstartof", "isendof", "issubstringof"};
static bool Plain(const std::string & s) {if (s.empty()) return false; for (size_t i=0;i<s.size();i++) if (!isalpha((unsigned char)s[i])) return false; return true;}
static std::string NumStr(int t, int64 i, double d) {char b[64]; if (t<=T_I64) snprintf(b, sizeof(b), "%lld", (long long)i); else if (t==T_B) snprintf(b, sizeof(b), "%s", i?"true":"false"); else snprintf(b, sizeof(b), "%.17g", d); return b;}
static uint32 g_uncastLiterals = 0;
static std::string Expr(const F & f)
{
   char idx[32] = ""; if (f.idx) snprintf(idx, sizeof(idx), ":%u", f.idx);
   switch(f.kind) {
      case K_EXISTS: {if (f.tc == B_ANY_TYPE) return "exists "+f.fn+idx; for (int t=0;t<7;t++) if (TC[t]==f.tc) return std::string("exists ")+CAST[t]+f.fn+idx; if (f.tc==B_STRING_TYPE) return "exists (string)"+f.fn+idx; return "";}
      case K_NUM: {if ((f.maskop)||(f.op>5)) return ""; if ((f.t==T_F)||(f.t==T_D)) {if ((std::isfinite(f.dval)==false)||((f.hasDef)&&(std::isfinite(f.ddef)==false))) return "";}
         {
            // the documented heuristics for a literal without a cast: true/false -> bool, digits -> int32, digits with a dot -> double, a trailing f -> float (also with a dot: "150.0f")
            const bool uncast = (((f.idx+f.op+(uint32)f.fn.size()+(uint32)(f.ival&3))%2) == 1); char lit[64] = "";
            if (uncast)
            {
               if (f.t == T_I32) snprintf(lit, sizeof(lit), "%lld", (long long)f.ival);
               else if (f.t == T_B) snprintf(lit, sizeof(lit), "%s", f.ival ? "true" : "false");
               else if (((f.t == T_F)||(f.t == T_D))&&(fabs(f.dval) < 1000.0)) snprintf(lit, sizeof(lit), "%.2f%s", f.dval, (f.t == T_F) ? "f" : "");
            }
            if (lit[0]) {g_uncastLiterals++; return f.fn+idx+(f.hasDef?("|"+NumStr(f.t, f.idef, f.ddef)):std::string(""))+" "+NOPS[f.op]+" "+lit;}
         }
         return f.fn+idx+(f.hasDef?("|"+NumStr(f.t, f.idef, f.ddef)):std::string(""))+" "+NOPS[f.op]+" "+CAST[f.t]+NumStr(f.t, f.ival, f.dval);}
      case K_STR: {if ((f.op>11)||(Plain(f.sval)==false)||((f.hasDef)&&(Plain(f.sdef)==false))) return ""; return f.fn+idx+(f.hasDef?("|"+f.sdef):std::string(""))+" "+SOPS[f.op]+" \""+f.sval+"\"";}
      case K_AND: case K_OR: case K_XOR: {if (f.kids.size() < 2) return ""; std::string r; for (size_t i=0;i<f.kids.size();i++) {const std::string k = Expr(f.kids[i]); if (k.empty()) return ""; if (i) r += (f.kind==K_AND)?" && ":((f.kind==K_OR)?" || ":" ^ "); r += (f.kids[i].kind==K_NOR)?k:("("+k+")");} return r;}
      case K_NOR: {if ((f.kids.size() != 1)||(f.kids[0].kind == K_NOR)) return ""; const std::string k = Expr(f.kids[0]); return k.empty()?"":("!("+k+")");}
      default: return "";
   }
}

// ---- Messages generated from the filter, so that the comparison (not the default rule) decides ----
static void CollectLeaves(const F & f, std::vector<const F *> & out) {if ((f.kind == K_NUM)||(f.kind == K_STR)||(f.kind == K_RAW)||(f.kind == K_EXISTS)) out.push_back(&f); if (f.kind != K_MSG) for (size_t i=0; i<f.kids.size(); i++) CollectLeaves(f.kids[i], out);}
static MMsg * GenMsgFor(const F & f, BS & bs)
{
   MMsg * m = GenMsg(bs, 0);
   std::vector<const F *> leaves; CollectLeaves(f, leaves);
   for (size_t li=0; li<leaves.size(); li++)
   {
      const F & l = *leaves[li];
      if ((bs.u8()&1) == 0) continue;
      if (l.idx > 3) continue;
      int t; if (l.kind == K_NUM) t = l.t; else if (l.kind == K_STR) t = T_S; else if (l.kind == K_RAW) t = T_R; else {t = T_I32; for (int q=0; q<NUM_T; q++) if (TC[q] == l.tc) t = q; if (t == T_M) t = T_I32;}
      if (m->f.count(l.fn)) {(void) m->real()->RemoveName(l.fn.c_str()); m->f.erase(l.fn);}
      std::vector<Val> vals; const String mfn(l.fn.c_str()); Message & r = *m->real();
      for (uint32 k=0; k<=l.idx; k++)
      {
         Val v; const uint8_t near = bs.u8()%6;
         switch(t)
         {
            case T_I8: case T_I16: case T_I32: case T_I64: v.i = (near < 3) ? Trunc(t, (int64)((uint64)l.ival+(uint64)(int64)((int)near-1))) : Trunc(t, IV[bs.u8()%20]); break;
            case T_F: v.d = (near == 0) ? l.dval : (double)(float)DV[bs.u8()%12]; v.d = (double)(float)v.d; break;
            case T_D: v.d = (near == 0) ? l.dval : DV[bs.u8()%12]; break;
            case T_B: v.i = bs.u8()&1; break;
            case T_S: {static const char * const AFF[] = {"", "a", "b", "A"}; if (near == 0) v.s = l.sval; else if (near == 1) v.s = l.sval+AFF[bs.u8()%4]; else if (near == 2) v.s = AFF[bs.u8()%4]+l.sval; else if ((near == 3)&&(l.sval.size())) v.s = l.sval.substr(0, l.sval.size()-1); else v.s = SV[bs.u8()%12];} break;
            default: {if (near == 0) v.s = l.sval; else if (near == 1) v.s = l.sval+std::string(1, (char)(bs.u8()%4)); else if ((near == 2)&&(l.sval.size())) v.s = l.sval.substr(1); else {const uint32 n = 1+bs.u8()%4; for (uint32 i=0; i<n; i++) v.s.push_back((char)(bs.u8()%4));} if (v.s.empty()) v.s = std::string(1, (char)1);} break;
         }
         vals.push_back(v);
         switch(t)
         {
            case T_I8: (void) r.AddInt8(mfn, (int8)v.i); break; case T_I16: (void) r.AddInt16(mfn, (int16)v.i); break; case T_I32: (void) r.AddInt32(mfn, (int32)v.i); break; case T_I64: (void) r.AddInt64(mfn, v.i); break;
            case T_F: (void) r.AddFloat(mfn, (float)v.d); break; case T_D: (void) r.AddDouble(mfn, v.d); break; case T_B: (void) r.AddBool(mfn, v.i != 0); break;
            case T_S: (void) r.AddString(mfn, v.s.c_str()); break; default: (void) r.AddData(mfn, B_RAW_TYPE, v.s.data(), (uint32)v.s.size()); break;
         }
      }
      m->f[l.fn] = std::make_pair(t, vals);
   }
   return m;
}

// ---- (e) hostile archives ---------------------------------------------------------------------
static void MutateArchive(Message & a, BS & bs, int depth)
{
   Queue<String> names; for (MessageFieldNameIterator it = a.GetFieldNameIterator(); it.HasData(); it++) (void) names.AddTail(it.GetFieldName());
   const uint32 nm = 1+bs.u8()%3;
   for (uint32 i=0; (i<nm)&&(names.HasItems()); i++)
   {
      const String fn = names[bs.u8()%names.GetNumItems()]; uint32 tc = 0; (void) a.GetInfo(fn, &tc);
      switch(bs.u8()%9)
      {
         case 0: (void) a.RemoveName(fn); break;
         case 1: (void) a.RemoveName(fn); (void) a.AddString(fn, "not what you expected"); break;
         case 2: (void) a.RemoveName(fn); (void) a.AddInt32(fn, (int32) bs.u32()); break;
         case 3: (void) a.RemoveName(fn); {static const int64 big[] = {0, -1, 255, 256, 0x7fffffff, 0xffffffffLL, 1000000, -128}; (void) a.AddInt8(fn, (int8)big[bs.u8()%8]);} break;
         case 4: (void) a.RemoveName(fn); (void) a.AddData(fn, B_RAW_TYPE, "\x01", 1); break;
         case 5: if ((tc == B_MESSAGE_TYPE)&&(depth < 4)) {MessageRef sub; if (a.FindMessage(fn, sub).IsOK()) {MessageRef c = GetMessageFromPool(*sub()); MutateArchive(*c(), bs, depth+1); (void) a.ReplaceMessage(false, fn, c);}} break;
         case 6: a.what = bs.u32(); break;
         case 7: (void) a.RemoveName(fn); (void) a.AddFlat(fn, GetByteBufferFromPool(0)); break;
         default: {/* self-similar nesting: the archive becomes its own child */ MessageRef c = GetMessageFromPool(a); const uint32 reps = 1+bs.u8()%3; for (uint32 r=0; r<reps; r++) (void) a.AddMessage("kid", c);} break;
      }
   }
}

static FILE * g_devnull = NULL;
static void ExerciseHostile(const ConstQueryFilterRef & q, BS & bs)
{
   for (int k=0; k<3; k++) {MMsg * m = GenMsg(bs, 0); ConstMessageRef cm = m->real; (void) q()->Matches(cm, NULL);}
   Message arch; (void) q()->SaveToArchive(arch); (void) q()->TypeCode();
}

// F19 (known finding): raw POSIX regexes reach regcomp unvetted; stacked repetition operators are exponential.  Generated regex strings never stack them.
static bool HasStackedRepetition(const std::string & s) {for (size_t i=0; i+1<s.size(); i++) {const char a = s[i], b = s[i+1]; const bool ra = (a == '+')||(a == '*')||(a == '?')||(a == '}'), rb = (b == '+')||(b == '*')||(b == '?')||(b == '{'); if (ra && rb) return true;} return false;}

extern "C" int vf_run_case(const uint8_t * data, size_t size)
{
   static CompleteSetupSystem * css = NULL; if (css == NULL) {css = new CompleteSetupSystem; SetConsoleLogLevel(MUSCLE_LOG_NONE); g_devnull = fopen("/dev/null", "w");}
   BS bs(data, size);
   const uint8_t mode = bs.u8()%8;
   struct Cleanup {~Cleanup() {for (size_t i=0; i<g_owned.size(); i++) delete g_owned[i]; g_owned.clear();}} cleanup;

   if (mode == 6)
   {
      // (e) hostile archive
      const F f = GenF(bs, 0); QueryFilterRef q = Build(f);
      MessageRef arch = GetMessageFromPool(); if (q()->SaveToArchive(*arch()).IsError()) FAIL("SaveToArchive failed");
      // regex-operator string filters in the archive: keep F19's trigger region out unless the exclusion is lifted
      MutateArchive(*arch(), bs, 0);
      if (bs.u8()%4 == 0)
      {
         // byte-level damage as well (bool bytes 2..255, lengths)
         ByteBufferRef bb = arch()->FlattenToByteBuffer(); if (bb()) {const uint32 n = 1+bs.u8()%3; for (uint32 i=0; (i<n)&&(bb()->GetNumBytes() > 12); i++) bb()->GetBuffer()[12+(bs.u16()%(bb()->GetNumBytes()-12))] = bs.u8(); MessageRef a2 = GetMessageFromPool(); if (a2()->UnflattenFromByteBuffer(*bb()).IsOK()) arch = a2;}
      }
      ConstQueryFilterRef q2 = GetGlobalQueryFilterFactory()()->CreateQueryFilter(*arch());
      if (q2()) {vf::Count("hostile_archive_accepted"); ExerciseHostile(q2, bs);} else vf::Count("hostile_archive_rejected");
      vf::Count("mode_hostile_archive");
      vf::NonTrivial(vf::Hash64(data, size, 0xe1));
      if (vf::WantSample()) vf::Sample(std::string("hostile archive: ")+arch()->ToString(3)());
      return 0;
   }
   if (mode == 7)
   {
      // arbitrary strings into the expression parser: must not crash
      static const char * const TOK[] = {"a", "b", "s", "(", ")", "!", "&&", "||", "^", "==", "!=", "<", ">=", "exists", "(int32)", "(string)", "(bool)", "(float)", "1", "-9223372036854775808", "\"ab\"", "\"", ":", ":1", "|", "|5", "what", " ", "startswith", "contains", "0x10", "3.5", "true", "\\", "(int64)", "matches", "~="};
      std::string e; const uint32 nt = bs.u8()%24; for (uint32 i=0; i<nt; i++) {const uint8_t k = bs.u8(); if (k < 196) {e += TOK[k%(sizeof(TOK)/sizeof(TOK[0]))]; if (k&1) e += " ";} else if (k < 230) {static const char * const TOK2[] = {"(point)", "(rect)", "1,2", "1,2,3,4", "1,", "1,2,3,", ",", "p", "r", "(double)", "(int8)", "(int16)", "5", "|1,2", "(point) 5", "(rect) 1,2", "1.5,2.5"}; e += TOK2[(k-196)%17]; if (k&1) e += " ";} else e.push_back((char)bs.u8());}     /* point and rect operands and casts, with components missing */
      for (size_t i=0; i<e.size(); i++) if (e[i] == '\0') e[i] = ' ';
      ConstQueryFilterRef q = CreateQueryFilterFromExpression(e.c_str());
      if (q()) {vf::Count("arbitrary_expression_accepted"); ExerciseHostile(q, bs);} else vf::Count("arbitrary_expression_rejected");
      vf::Count("mode_arbitrary_expression");
      vf::NonTrivial(vf::HashStr(e, 0xe2));
      if (vf::WantSample()) vf::Sample("expression string ["+vf::Esc(e)+"] -> "+(q() ? "filter" : "rejected"));
      return 0;
   }

   const F f = GenF(bs, 0);
   QueryFilterRef q = Build(f);
   Message arch; if (q()->SaveToArchive(arch).IsError()) FAIL("SaveToArchive failed");
   ByteBufferRef ab = arch.FlattenToByteBuffer(); Message arch2; if (arch2.UnflattenFromByteBuffer(*ab()).IsError()) FAIL("archive does not parse");
   QueryFilterRef q2 = GetGlobalQueryFilterFactory()()->CreateQueryFilter(arch2); if (q2() == NULL) FAIL("archive of a live filter rejected: %s", arch.ToString(3)());
   const std::string es = Expr(f); ConstQueryFilterRef q3;
   if (es.size()) {q3 = CreateQueryFilterFromExpression(es.c_str()); if (q3() == NULL) FAIL("documented expression [%s] rejected", es.c_str()); vf::Count("expressions_parsed"); if (g_uncastLiterals) {vf::Count("expressions_with_uncast_literals"); g_uncastLiterals = 0;}}
   uint32 byValue = 0, declined = 0, compared = 0;
   for (int k=0; k<4; k++)
   {
      MMsg * m = (k < 3) ? GenMsgFor(f, bs) : GenMsg(bs, 0); ConstMessageRef cm = m->real; ByteBufferRef before = m->real()->FlattenToByteBuffer();
      g_decidedByValue = 0; const int want = RefEval(f, *m); if (g_decidedByValue) byValue++;
      const bool got = q()->Matches(cm, NULL);
      ByteBufferRef after = m->real()->FlattenToByteBuffer(); if (!(*before() == *after())) FAIL("Matches changed the Message");
      const bool got2 = q2()->Matches(cm, NULL); if (got2 != got) FAIL("restored filter decides %i, original %i: filter %s message %s", got2, got, arch.ToString(3)(), m->real()->ToString(2)());
      if (want == 2) {declined++; continue;}
      compared++;
      if ((int)got != want) FAIL("Matches=%i, documented=%i: filter %s message %s", (int)got, want, arch.ToString(3)(), m->real()->ToString(2)());
      if (q3()) {const bool got3 = q3()->Matches(cm, NULL); if ((int)got3 != want) FAIL("expression [%s] decides %i, documented=%i on message %s", es.c_str(), (int)got3, want, m->real()->ToString(2)());}
   }
   vf::Count("mode_semantics"); vf::Count("evaluations", 4); vf::Count("evaluations_decided_by_a_present_value", byValue); vf::Count("evaluations_reference_declined", declined); vf::Count("evaluations_compared", compared);
   if (byValue > 0) {vf::NonTrivial(vf::Hash64(data, size, 0xe0)); if (vf::WantSample()) vf::Sample((es.size() ? ("expr ["+es+"] ") : std::string("filter "))+std::string(arch.ToString(3)()).substr(0, 600));}
   return 0;
}
