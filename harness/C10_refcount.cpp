// C10: Ref<> / RefCountable / ObjectPool under the harness-owned scheduler (yield points before and
// after every atomic increment/decrement, and around the pool mutex).  1-3 logical threads run
// generated scripts over private Ref slots and a mutex-guarded mailbox; objects come from a small
// ObjectPool (slabs of ~2 objects, maxPoolSize 0-4: slabs are created, recycled and deleted during a
// run) or from the heap.  Oracle: a referenced object keeps its identity stamp (never released
// early), an obtained object is in default state and nobody else's, every object is released exactly
// once (state machine inside the object), constructor and destructor counts agree after the pool is
// gone, PerformSanityCheck, ASan.
#include "sched/sched.h"
#include "util/RefCount.h"
#include "util/ObjectPool.h"
#include "system/SetupSystem.h"
#include "syslog/SysLog.h"

using namespace muscle;
const char * vf_harness_name = "c10_refcount";

static int g_ctor = 0, g_dtor = 0; static uint32 g_doubleReleases = 0;
class Obj : public RefCountable
{
public:
   Obj() : gen(0), payload(0), inUse(false), magic(0x0B1EC7ED) {g_ctor++;}
   Obj(const Obj & r) : RefCountable(r), gen(r.gen), payload(r.payload), inUse(false), magic(0x0B1EC7ED) {g_ctor++;}
   ~Obj() {if (magic != 0x0B1EC7ED) vf::Fail("an object is being destroyed twice"); magic = 0xDEAD; g_dtor++;}
   Obj & operator=(const Obj & rhs)
   {
      if (magic != 0x0B1EC7ED) vf::Fail("assignment to a destroyed object");
      if (this != &rhs)
      {
         // the pool resets an object to the default object exactly when it is released
         if ((rhs.gen == 0)&&(rhs.inUse == false)) {if ((inUse == false)&&(gen != 0)) g_doubleReleases++; inUse = false;}
         gen = rhs.gen; payload = rhs.payload;
      }
      return *this;
   }
   uint32 gen; uint32 payload; bool inUse; uint32 magic;
};
DECLARE_REFTYPES(Obj);
typedef ObjectPool<Obj, 128> Pool;

struct Op {uint8_t op, a, b;};

extern "C" int vf_run_case(const uint8_t * data, size_t size)
{
   static CompleteSetupSystem * css = NULL;
   if (css == NULL) {css = new CompleteSetupSystem; SetConsoleLogLevel(MUSCLE_LOG_NONE); Pool warm(0); Obj * o = warm.ObtainObject(); warm.ReleaseObject(o);}   // constructs the pool type's static default object once, outside the counted region
   if (size < 6) return 0;
   vf::BS bs(data, size);
   const int NT = 1+bs.u8()%3; const uint32 maxPool = bs.u8()%5;
   std::vector<std::vector<Op> > scripts(NT);
   for (int t=0; t<NT; t++) {const uint32 n = 2+bs.u8()%7; for (uint32 i=0; i<n; i++) {Op o; o.op = bs.u8()%24; if (o.op >= 15) {static const uint8_t again[9] = {12, 14, 11, 15, 15, 16, 16, 17, 17}; o.op = again[o.op-15];} o.a = bs.u8()%3; o.b = bs.u8()%3; scripts[t].push_back(o);}}
   char desc[120]; snprintf(desc, sizeof(desc), "%d thread(s), ObjectPool<Obj,128> maxPoolSize=%u", NT, maxPool);
   if (vf::Verbose()) fprintf(stderr, "config: %s\n", desc);

   g_ctor = g_dtor = 0; g_doubleReleases = 0;
   uint32 genCounter = 1; uint32 crossThreadFinalRelease = 0, obtained = 0, heapObjs = 0, nonCountingPromoted = 0, drains = 0, neutralized = 0, custody = 0; uint64_t switches = 0, preempt = 0; std::vector<uint8_t> trace;
   {
      vsched::ByteSource src(bs, 0x80); vsched::Scheduler sc(src); sc.SetContext(desc);
      Pool pool(maxPool);
      Mutex boxLock; ObjRef box[2]; int boxOwnerThread[2] = {-1, -1};
      std::vector<int> madeBy(4096, -1);     // gen -> thread that obtained it

      // objects that are shared from the start: every thread holds a reference, so whoever drops last releases an object it did not obtain
      ObjRef init[3][2]; const bool startShared = ((maxPool+NT)%4 != 0);
      if (startShared)
      {
         for (int j=0; j<2; j++)
         {
            Obj * p = (j == 0) ? pool.ObtainObject() : new Obj; p->inUse = true; p->gen = genCounter++; p->payload = 0x2000; ObjRef r(p);
            for (int t=0; t<NT; t++) init[t][j] = r;
            if (j == 0) box[1] = r;
         }
      }
      for (int t=0; t<NT; t++) sc.Spawn([&, t]{
         ObjRef mine[3]; uint32 expect[3] = {0, 0, 0}; bool counting[3] = {true, true, true};     // counting[i] == false: mine[i] is a non-counting reference (SetRef(p, false)), kept only while a counting reference of this thread holds the same object
         for (int j=0; j<2; j++) {mine[j] = init[t][j]; init[t][j].Reset(); expect[j] = mine[j]() ? mine[j]()->gen : 0;}
         if ((mine[0]())&&(scripts[t][0].b&1)) {mine[2].SetRef(mine[0](), false); expect[2] = expect[0]; counting[2] = false;}     // some threads start out with a non-counting reference next to a counting one
         const std::vector<Op> & ops = scripts[t];
         // turning this thread's last counting reference to an object into a non-counting reference of the same object drops the count without releasing the object
         // (documented: a non-counting Ref never deletes) -- a leak of the script's own making, so such steps are skipped
         auto wouldOrphan = [&](int dst, const Obj * srcPtr, bool srcCounting) -> bool {
            if ((srcPtr == NULL)||(srcCounting)||(mine[dst]() != srcPtr)||(counting[dst] == false)) return false;
            for (int j=0; j<3; j++) if ((j != dst)&&(counting[j])&&(mine[j]() == srcPtr)) return false;
            return true;};
         for (size_t k=0; k<ops.size(); k++)
         {
            const Op & o = ops[k]; const uint8_t a = o.a, b = o.b;
            switch(o.op)
            {
               case 0: if (wouldOrphan(a, mine[b](), counting[b])) break; mine[a] = mine[b]; expect[a] = expect[b]; counting[a] = counting[b]; break;                                        // copy-assign
               case 1: mine[a].Reset(); expect[a] = 0; break;
               case 2: case 3:
               {
                  Obj * p = (o.op == 2) ? pool.ObtainObject() : new Obj;
                  if (p == NULL) vf::Fail("ObtainObject failed");
                  if ((p->gen != 0)||(p->payload != 0)) vf::Fail("an obtained object is not in the default state (gen=%u payload=%u): it is still, or again, somebody else's (%s)", p->gen, p->payload, desc);
                  if (p->inUse) vf::Fail("the pool handed out an object that is in use (%s)", desc);
                  if (p->GetRefCount() != 0) vf::Fail("an obtained object has a reference count of %u", p->GetRefCount());
                  p->inUse = true; p->gen = genCounter++; p->payload = 0x1000+(uint32)t; if (p->gen < madeBy.size()) madeBy[p->gen] = t;
                  expect[a] = p->gen; mine[a].SetRef(p); counting[a] = true; obtained++; if (o.op == 3) heapObjs++;
               }
               break;
               case 4: mine[a].SwapContents(mine[b]); {const uint32 tmp = expect[a]; expect[a] = expect[b]; expect[b] = tmp; const bool tc = counting[a]; counting[a] = counting[b]; counting[b] = tc;} break;
               case 5: if ((counting[a])||(mine[a]() == NULL)) {DECLARE_MUTEXGUARD(boxLock); box[b%2] = mine[a]; boxOwnerThread[b%2] = t;} break;   // (a non-counting reference is never handed to another thread)                                   // publish
               case 6: {DECLARE_MUTEXGUARD(boxLock); mine[a] = box[b%2]; expect[a] = mine[a]() ? mine[a]()->gen : 0; counting[a] = true;} break;                  // take a copy
               case 7: {ObjRef tmp = std::move(mine[a]); mine[a] = std::move(mine[b]); mine[b] = std::move(tmp); const uint32 e = expect[a]; expect[a] = expect[b]; expect[b] = e; const bool tc = counting[a]; counting[a] = counting[b]; counting[b] = tc;} break;
               case 8: {ConstObjRef c = mine[a]; ObjRef back = CastAwayConstFromRef(c); if (back() != mine[a]()) vf::Fail("const-cast round trip changed the pointer"); if (wouldOrphan(b, back(), counting[a])) break; mine[b] = back; expect[b] = expect[a]; counting[b] = counting[a];} break;
               case 9: {ObjRef copy(mine[a]); ObjRef copy2 = copy; (void) copy2; sc.YieldNow();} break;                                     // temporaries come and go
               case 10: {DECLARE_MUTEXGUARD(boxLock); box[b%2].Reset();} break;
               case 11: if (wouldOrphan(a, mine[b](), false)) break; mine[a].SetRef(mine[b](), false); expect[a] = expect[b]; counting[a] = false; break;                          // a non-counting reference to the same object
               case 12:                                                                                                              // a counting reference to the same object is assigned to the non-counting one
               {
                  int j = -1; for (int i=0; i<3; i++) if ((i != a)&&(mine[i]())&&(counting[i])&&(mine[i]() == mine[a]())) j = i;
                  if ((mine[a]())&&(counting[a] == false)&&(j >= 0)) {mine[a] = mine[j]; counting[a] = true; nonCountingPromoted++;}
               }
               break;
               case 13:                                                                                                              // stop counting in place (another counting reference of this thread keeps the object)
               {
                  int j = -1; for (int i=0; i<3; i++) if ((i != a)&&(mine[i]())&&(counting[i])&&(mine[i]() == mine[a]())) j = i;
                  if ((mine[a]())&&(counting[a])&&(j >= 0)) {mine[a].SetRef(mine[a](), false); counting[a] = false;}
               }
               break;
               case 15: {uint32 n = 0; pool.Drain(&n); drains++;} break;                                                             // flush the pool's spare slabs in mid-history (documented thread-safe); slabs with objects in use must stay
               case 16:                                                                                                              // Neutralize(): the reference lets go of its count without ever releasing the object -- so only while another counting reference of this thread keeps it (no leak of the script's own making)
               {
                  int j = -1; for (int i=0; i<3; i++) if ((i != a)&&(mine[i]())&&(counting[i])&&(mine[i]() == mine[a]())) j = i;
                  if ((mine[a]())&&(counting[a])&&(j >= 0)) {mine[a].Neutralize(); expect[a] = 0; counting[a] = true; neutralized++; if (mine[a]() != NULL) vf::Fail("a neutralized Ref still points at an object");}
               }
               break;
               case 17:                                                                                                              // the only reference there is stops counting: the object is now in the caller's own custody (documented: a non-counting Ref never releases), and is taken back under counting a moment later
               {
                  Obj * p = mine[a]();
                  if ((p)&&(counting[a])&&(p->GetRefCount() == 1))
                  {
                     const uint32 g = p->gen, pl = p->payload;
                     mine[a].SetRef(p, false); custody++;
                     if ((p->magic != 0x0B1EC7ED)||(p->gen != g)||(p->payload != pl)||(p->inUse == false)) vf::Fail("an object whose last reference stopped counting (so that its owner keeps it by hand) was released all the same: gen %u -> %u, in use %d (%s)", g, p->gen, (int)p->inUse, desc);
                     Obj * q = pool.ObtainObject(); if (q == p) vf::Fail("the pool handed out an object that its owner still holds by hand (%s)", desc); if (q) pool.ReleaseObject(q);
                     if ((p->gen != g)||(p->inUse == false)) vf::Fail("an object held by hand changed under its owner (%s)", desc);
                     mine[a].SetRef(p, true);
                  }
               }
               break;
               case 14: if ((mine[a]())&&(counting[a] == false)) {mine[a].SetRef(mine[a](), true); counting[a] = true; nonCountingPromoted++;} break;    // start counting in place
            }
            // a non-counting reference may only be kept while a counting one of this thread holds the object
            for (int i=0; i<3; i++) if ((mine[i]())&&(counting[i] == false)) {bool kept = false; for (int j=0; j<3; j++) if ((j != i)&&(counting[j])&&(mine[j]() == mine[i]())) kept = true; if (kept == false) {mine[i].Reset(); expect[i] = 0; counting[i] = true;}}
            for (int i=0; i<3; i++) if ((mine[i]())&&(mine[i].IsRefCounting() != counting[i])) vf::Fail("a Ref reports IsRefCounting()=%d where the script made it %s (%s)", (int)mine[i].IsRefCounting(), counting[i] ? "counting" : "non-counting", desc);
            for (int i=0; i<3; i++)
            {
               const Obj * p = mine[i]();
               if ((p != NULL) != (expect[i] != 0)) vf::Fail("a Ref is %s where the script expects %s (%s)", p ? "set" : "NULL", expect[i] ? "an object" : "NULL", desc);
               if (p)
               {
                  if (p->magic != 0x0B1EC7ED) vf::Fail("a referenced object has been destroyed (%s)", desc);
                  if (p->gen != expect[i]) vf::Fail("a referenced object changed identity (stamp %u, expected %u): it was released while a reference still existed (%s)", p->gen, expect[i], desc);
                  if (p->inUse == false) vf::Fail("a referenced object is marked free (%s)", desc);
                  if (p->GetRefCount() == 0) vf::Fail("a referenced object has reference count 0 (%s)", desc);
                  // every counting reference holds one count: this thread's own counting references are a lower bound at any moment, and the exact count in a single-threaded history
                  uint32 myCounts = 0; for (int j=0; j<3; j++) if ((mine[j]() == p)&&(counting[j])) myCounts++;
                  if (p->GetRefCount() < myCounts) vf::Fail("an object has reference count %u but this thread alone holds %u counting references to it (%s)", p->GetRefCount(), myCounts, desc);
                  if (NT == 1) {uint32 all = myCounts; for (int j=0; j<2; j++) if (box[j]() == p) all++; if (p->GetRefCount() != all) vf::Fail("single-threaded history: an object has reference count %u, %u counting references to it exist (%s)", p->GetRefCount(), all, desc);}
               }
            }
         }
         // dropping the last references: note who does the final release
         for (int i=0; i<3; i++) if ((mine[i]())&&(mine[i]()->GetRefCount() == 1)&&(mine[i]()->gen < madeBy.size())&&(madeBy[mine[i]()->gen] != t)) crossThreadFinalRelease++;
      });
      sc.Run();
      switches = sc.Switches(); preempt = sc.Preemptions(); trace = src.trace;
      box[0].Reset(); box[1].Reset();
      (void) boxOwnerThread;
      pool.PerformSanityCheck();
      if (g_doubleReleases) vf::Fail("%u object(s) were released to the pool twice (%s)", g_doubleReleases, desc);
      // the pool's own bookkeeping: everything has been released, so the pool is idle.  Obtaining and releasing one object over and over may at first trim slabs the history left
      // in excess of the budget (one per cycle at most), but then it settles: a cycle on an idle pool that is within its budget constructs and destroys nothing -- the released
      // object is kept for the next obtain, which is what the pool is for
      {
         int settledAfter = -1;
         for (int cyc=0; cyc<40; cyc++) {const int c0 = g_ctor, d0 = g_dtor; Obj * p = pool.ObtainObject(); if (p == NULL) vf::Fail("ObtainObject failed on an idle pool"); pool.ReleaseObject(p); if ((g_ctor == c0)&&(g_dtor == d0)) {settledAfter = cyc; break;}}
         if (settledAfter < 0) vf::Fail("an idle pool never settles: 40 obtain/release cycles of a single object each constructed or destroyed objects (%d constructed, %d destroyed so far; %s)", g_ctor, g_dtor, desc);
         for (int cyc=0; cyc<4; cyc++) {const int c0 = g_ctor, d0 = g_dtor; Obj * p = pool.ObtainObject(); if (p == NULL) vf::Fail("ObtainObject failed on an idle pool"); pool.ReleaseObject(p); if ((g_ctor != c0)||(g_dtor != d0)) vf::Fail("an idle pool that had settled constructed %d and destroyed %d objects in one obtain/release cycle of a single object: released objects are not kept (%s)", g_ctor-c0, g_dtor-d0, desc);}
         pool.PerformSanityCheck();
      }
   }  // pool destructor MCRASHes if anything is still in use
   if (g_ctor != g_dtor) vf::Fail("%d objects constructed, %d destroyed after the pool is gone (%s)", g_ctor, g_dtor, desc);

   vf::Count("context_switches", switches); vf::Count("preemptions", preempt); vf::Count("objects_obtained", obtained); vf::Count("heap_objects", heapObjs);
   vf::Count((NT == 1) ? "case_single_threaded_history" : "case_multi_threaded");
   if (crossThreadFinalRelease) vf::Count("case_final_release_by_another_thread"); if (nonCountingPromoted) vf::Count("case_non_counting_reference_switched_to_counting"); if (drains) vf::Count("case_pool_drained_in_mid_history"); if (custody) vf::Count("case_last_reference_stopped_counting_and_resumed"); if (neutralized) vf::Count("case_reference_neutralized");
   const bool nontrivial = (NT == 1) ? (obtained >= 2) : ((preempt >= 1)&&(crossThreadFinalRelease >= 1));
   if (nontrivial) {uint64_t h = vf::HashStr(desc); for (size_t i=0; i<trace.size(); i++) h = vf::HashMix(h, trace[i]); for (int t=0; t<NT; t++) h = vf::Hash64(&scripts[t][0], scripts[t].size()*sizeof(Op), h); vf::NonTrivial(h); if (vf::WantSample()) {static const char * const N[] = {"copy", "reset", "obtain(pool)", "obtain(heap)", "swap", "publish", "take", "move-rotate", "const-cast", "temporaries", "clear-mailbox", "non-counting-ref", "assign-counting-to-non-counting", "stop-counting", "start-counting", "drain-pool", "neutralize", "custody"}; std::string s = std::string(desc)+":"; for (int t=0; t<NT; t++) {s += " T"+std::to_string(t)+"["; for (size_t k=0; k<scripts[t].size(); k++) {s += N[scripts[t][k].op]; s += " ";} s += "]";} vf::Sample(s+" | "+std::to_string(switches)+" switches, "+std::to_string(preempt)+" preemptions");}}
   return 0;
}
