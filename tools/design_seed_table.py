#!/usr/bin/env python3
"""tools/design_seed_table.py : regenerate the seed table of DESIGN.md (between the SEEDTABLE markers) from seeded/*/meta.json."""
import json, os, re
V = os.path.dirname(os.path.dirname(os.path.abspath(__file__)))
SD = os.path.join(V, 'seeded')
rows = []
stats = {'n': 0, 'detected': 0, 'missed': []}
for name in sorted(os.listdir(SD)):
    mp = os.path.join(SD, name, 'meta.json')
    if not os.path.exists(mp):
        continue
    m = json.load(open(mp))
    summ = ' '.join((m.get('summary') or '').split()).replace('|', '\\|')
    fs = re.split(r'(?<=[.;])\s', summ)[0]
    if len(fs) > 190:
        fs = fs[:190].rsplit(' ', 1)[0] + ' …'
    det = m.get('detection', {})
    verdicts = []
    for p, r in sorted(det.items()):
        v = r.get('verdict', '?')
        rep = ''
        for x in r.get('reported', [])[1:]:
            mm = re.search(r'(VERIF-FAIL\[[^\]]*\]: [^:(]{0,70}|AddressSanitizer: [a-z-]+|runtime error: [^@]{0,60}|DEADLOCK|VERIF-TIMEOUT)', x)
            if mm:
                rep = mm.group(1).replace('|', '/').strip()
        verdicts.append('%s %s in %ss%s' % (p, v.lower(), r.get('seconds'), (' (' + rep + ')') if rep and v == 'DETECTED' else ''))
    stats['n'] += 1
    if any(r.get('verdict') == 'DETECTED' for r in det.values()):
        stats['detected'] += 1
    else:
        stats['missed'].append(name)
    rows.append('| %s | `%s` | %s | %s |' % (name, ', '.join(os.path.basename(f) for f in m.get('files', []))[:44], fs, '; '.join(verdicts) or 'not run'))
table = '| seed | file | the change (first sentence of the author\'s summary; full text, what it needs to manifest and the demonstration are in `seeded/<seed>/`) | quick tier |\n|---|---|---|---|\n' + '\n'.join(rows)
table += '\n\n%d seeded changes, %d detected by the quick tier of the property they target; not detected: %s.\n' % (stats['n'], stats['detected'], ', '.join(stats['missed']) or 'none')
p = os.path.join(V, 'DESIGN.md')
s = open(p).read()
a = s.index('<!-- SEEDTABLE:BEGIN -->') + len('<!-- SEEDTABLE:BEGIN -->')
b = s.index('<!-- SEEDTABLE:END -->')
open(p, 'w').write(s[:a] + '\n' + table + s[b:])
print(stats)
