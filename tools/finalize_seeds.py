#!/usr/bin/env python3
"""tools/finalize_seeds.py : fold my own confirmation (verified.json, written by tools/verify_seed.py) and the detection
results (detection.json, written by tools/seedtest.py) into seeded/<id>/meta.json, and print the table for DESIGN.md."""
import json, os, sys

V = os.path.dirname(os.path.dirname(os.path.abspath(__file__)))
SD = os.path.join(V, 'seeded')


def first_sentence(t, n=230):
    t = ' '.join((t or '').split())
    return t if len(t) <= n else t[:n].rsplit(' ', 1)[0] + ' ...'


rows = []
for name in sorted(os.listdir(SD)):
    d = os.path.join(SD, name)
    if not os.path.isdir(d):
        continue
    meta = json.load(open(os.path.join(d, 'meta.json')))
    ver = json.load(open(os.path.join(d, 'verified.json'))) if os.path.exists(os.path.join(d, 'verified.json')) else meta.get('confirmed_in_scratch_worktree', {})
    det = json.load(open(os.path.join(d, 'detection.json'))) if os.path.exists(os.path.join(d, 'detection.json')) else meta.get('detection', {})
    rnd = 1 if name.endswith('-1') else {'a': 2, 'b': 2, 'c': 3, 'd': 3, 'e': 4, 'f': 4, 'g': 5, 'h': 5}.get(name[-1], 3)
    meta['property'] = meta.get('property', name.split('-')[0])
    meta['breaks_property'] = meta['property']
    meta['origin'] = 'round %d: a fresh sub-agent that was given only the text of the property and its own scratch git worktree of /repo under /tmp (nothing from /verif)' % rnd
    meta['confirmed_in_scratch_worktree'] = ver
    meta['detection'] = det
    ran = []
    if ver.get('demo'):
        ran.append(ver['demo'].get('ran', '') + ' -> clean tree exit %s, patched tree exit %s' % (ver['demo'].get('clean_exit'), ver['demo'].get('patched_exit')))
    if ver.get('tests'):
        ran.append(ver['tests'].get('ran', '') + ' -> ' + ver['tests'].get('summary', '') + ((' (failed: %s)' % ', '.join(ver['tests']['failed'])) if ver['tests'].get('failed') else ''))
    for p, r in sorted(det.items()):
        ran.append(r.get('ran', '') + ' -> ' + r.get('verdict', '') + ' in %ss' % r.get('seconds'))
    meta['what_i_ran'] = ran
    json.dump(meta, open(os.path.join(d, 'meta.json'), 'w'), indent=1)
    okd = ver.get('demo', {}).get('confirmed')
    okt = ver.get('tests', {}).get('confirmed')
    verdicts = ', '.join('%s: %s' % (p, r.get('verdict')) for p, r in sorted(det.items())) or 'not run'
    rep = ''
    for p, r in sorted(det.items()):
        if r.get('reported'):
            rep = r['reported'][-1]
    rows.append((name, meta.get('files', []), first_sentence(meta.get('summary')), first_sentence(meta.get('needs_to_manifest'), 200), okd, okt, verdicts, rep))

if '--table' in sys.argv:
    for r in rows:
        print('| %s | %s | demo %s, tests %s | %s |' % (r[0], ', '.join(os.path.basename(f) for f in r[1]), 'ok' if r[4] else 'NO', 'ok' if r[5] else 'NO', r[6]))
else:
    bad = [r[0] for r in rows if not (r[4] and r[5])]
    print('%d seeded changes; not fully confirmed: %s' % (len(rows), bad or 'none'))
    print('missed: %s' % ([r[0] for r in rows if 'MISSED' in r[6]] or 'none'))
