#!/usr/bin/env python3
"""tools/audit_regress.py [Fxx ...] : do the regression inputs of the fixed findings still bite?

For every 'fixed' entry of known_findings.json: the fix commit is reverse-applied in a scratch worktree of /repo's HEAD
(never in /repo), the property's check is run from it with the generation tier scaled down to nothing, and the replay tier must
report the finding's regression input as a violation.  Evidence files are restored afterwards.  Result: tools/audit_regress.json.
"""
import json, os, subprocess, sys, time

V = os.path.dirname(os.path.dirname(os.path.abspath(__file__)))
WT = '/tmp/vf_seedrepo'


def sh(cmd, **kw):
    return subprocess.run(cmd, shell=True, stdout=subprocess.PIPE, stderr=subprocess.STDOUT, universal_newlines=True, errors='replace', **kw)


def main():
    kf = json.load(open(os.path.join(V, 'known_findings.json')))['findings']
    want = set(sys.argv[1:])
    head = sh('git -C /repo rev-parse HEAD').stdout.strip()
    if not os.path.isdir(WT):
        r = sh('git -C /repo worktree add --detach %s HEAD' % WT)
        if r.returncode:
            print(r.stdout); return 2
    out = {}
    resf = os.path.join(V, 'tools', 'audit_regress.json')
    if os.path.exists(resf):
        out = json.load(open(resf))
    allok = True
    for f in kf:
        if f['status'] != 'fixed' or (want and f['id'] not in want):
            continue
        reg = f.get('regress')
        if not reg:
            continue
        prop = f['property']
        sh('git -C %s checkout -q -- . && git -C %s checkout -q --detach %s' % (WT, WT, head))
        r = sh('git -C /repo diff %s %s^ | git -C %s apply' % (f['commit'], f['commit'], WT))
        if r.returncode:
            print('%s: cannot reverse-apply %s: %s' % (f['id'], f['commit'], r.stdout[:300])); allok = False
            continue
        ev = os.path.join(V, 'evidence', prop + '.json')
        saved = open(ev).read() if os.path.exists(ev) else None
        rd0 = os.path.join(V, 'replays', prop)
        before = set(os.listdir(rd0)) if os.path.isdir(rd0) else set()
        t0 = time.time()
        r = sh('cd %s && VERIF_REPO=%s VERIF_SCALE=0.00001 ./check %s' % (V, WT, prop))
        if saved is not None:
            open(ev, 'w').write(saved)
        rd = os.path.join(V, 'replays', prop)
        for fn in (os.listdir(rd) if os.path.isdir(rd) else []):     # only what this run wrote
            if fn not in before:
                try:
                    os.unlink(os.path.join(rd, fn))
                except OSError:
                    pass
        base = os.path.basename(reg)
        bites = any((base in l) and ((' fails' in l) or l.startswith('VIOLATION')) for l in r.stdout.splitlines())     # the replay tier prints 'regress input <file> fails: <report>' (or names the file in the VIOLATION line)
        line = [l for l in r.stdout.splitlines() if base in l][:1]
        out[f['id']] = {'property': prop, 'commit': f['commit'], 'regress': reg, 'bites_without_the_fix': bites, 'repo_head': head[:7], 'reported': (line[0][:300] if line else '')}
        print('%s (%s, %s reverted): regression input %s in %.0fs' % (f['id'], prop, f['commit'], 'FAILS as it should' if bites else 'DOES NOT FAIL', time.time() - t0), flush=True)
        if not bites:
            allok = False
            print(r.stdout[-1200:])
        json.dump(out, open(resf, 'w'), indent=1)
    sh('git -C %s checkout -q -- .' % WT)
    return 0 if allok else 1


if __name__ == '__main__':
    sys.exit(main())
