#!/usr/bin/env python3
"""tools/seedtest.py <seed-name> [<property-id> ...] : apply seeded/<seed>/patch.diff to /repo, run the quick check(s), undo the patch.
Prints DETECTED / MISSED per check.  /repo must have no uncommitted changes to tracked files."""
import os, sys, subprocess, json, time
V = os.path.dirname(os.path.dirname(os.path.abspath(__file__)))


def sh(cmd, **kw):
    return subprocess.run(cmd, shell=True, stdout=subprocess.PIPE, stderr=subprocess.STDOUT, text=True, **kw)


def main():
    seed = sys.argv[1]
    d = os.path.join(V, 'seeded', seed)
    props = sys.argv[2:] or [seed.split('-')[0]]
    tier = os.environ.get('SEED_TIER', 'quick')
    if sh('git -C /repo status --porcelain --untracked-files=no').stdout.strip():
        print('refusing: /repo has uncommitted changes')
        return 2
    r = sh('git -C /repo apply %s/patch.diff' % d)
    if r.returncode != 0:
        r = sh('git -C /repo apply -3 %s/patch.diff' % d)
        if r.returncode != 0:
            print('patch does not apply:', r.stdout)
            sh('git -C /repo checkout -- .')
            return 2
    out = {}
    try:
        for p in props:
            t0 = time.time()
            r = sh('cd %s && ./check %s --tier %s' % (V, p, tier))
            viol = [l for l in r.stdout.splitlines() if l.startswith('VIOLATION')]
            detail = [l for l in r.stdout.splitlines() if l.startswith('  ') and ('FAIL' in l or 'ERROR' in l or 'runtime error' in l)][:2]
            verdict = 'DETECTED' if (r.returncode == 1 and viol) else ('MISSED' if r.returncode == 0 else 'ERROR rc=%d' % r.returncode)
            print('%s vs %s: %s in %.0fs' % (seed, p, verdict, time.time() - t0))
            for l in viol[:1] + detail[:1]:
                print('   ', l[:300])
            if verdict.startswith('ERROR'):
                print(r.stdout[-1500:])
            out[p] = verdict
    finally:
        sh('git -C /repo checkout -- .')
        sh('git -C /repo reset -q')
        # remove replays written for the mutant so they are not mistaken for findings on the real tree
        sh('rm -rf %s/replays/%s' % (V, ' %s/replays/'.join(props) % tuple([V] * (len(props) - 1)) if len(props) > 1 else props[0]))
    return 0


if __name__ == '__main__':
    sys.exit(main())
