#!/usr/bin/env python3
"""tools/seedtest.py <seed-name> [<property-id> ...] : apply seeded/<seed>/patch.diff to /repo, run the quick check(s), undo the patch.
Prints DETECTED / MISSED per check.  `tools/seedtest.py --clean` removes the scratch worktree."""
import os, sys, subprocess, json, time
V = os.path.dirname(os.path.dirname(os.path.abspath(__file__)))


def sh(cmd, **kw):
    return subprocess.run(cmd, shell=True, stdout=subprocess.PIPE, stderr=subprocess.STDOUT, text=True, **kw)


def main():
    if sys.argv[1] == '--clean':
        import glob
        for wt in glob.glob('/tmp/vf_seedrepo*'):
            sh('git -C /repo worktree remove --force %s' % wt); sh('rm -rf %s' % wt)
        sh('rm -rf %s/build_alt %s/build_alt_*' % (V, V)); sh('git -C /repo worktree prune'); return 0
    seed = sys.argv[1]
    d = os.path.join(V, 'seeded', seed)
    props = sys.argv[2:] or [seed.split('-')[0]]
    tier = os.environ.get('SEED_TIER', 'quick')
    # the seeded change is applied to a scratch worktree of /repo's HEAD (never to /repo itself); the checks build from it through VERIF_REPO
    WT = os.environ.get('SEED_WT', '/tmp/vf_seedrepo')     # parallel lanes (one per group of properties) use /tmp/vf_seedrepo_<k>
    head = sh('git -C /repo rev-parse HEAD').stdout.strip()
    if not os.path.isdir(WT):
        r = sh('git -C /repo worktree add --detach %s HEAD' % WT)
        if r.returncode:
            print(r.stdout); return 2
    sh('git -C %s checkout -q -- . && git -C %s checkout -q --detach %s' % (WT, WT, head))
    r = sh('git -C %s apply %s/patch.diff' % (WT, d))
    if r.returncode != 0:     # a later fix: commit may have changed a context line of the patch: three-way apply, then leave the index as it was
        r = sh('git -C %s apply -3 %s/patch.diff && git -C %s reset -q' % (WT, d, WT))
    if r.returncode != 0:
        print('patch does not apply:', r.stdout)
        return 2
    out = {}
    saved = {}
    before = {}
    for p in props:
        rd = os.path.join(V, 'replays', p)
        before[p] = set(os.listdir(rd)) if os.path.isdir(rd) else set()
    for p in props:     # the evidence of a run against a seeded change must not replace the evidence of the real tree
        ev = os.path.join(V, 'evidence', p + '.json')
        saved[p] = open(ev).read() if os.path.exists(ev) else None
    try:
        for p in props:
            t0 = time.time()
            r = sh('cd %s && VERIF_REPO=%s ./check %s --tier %s' % (V, WT, p, tier))
            viol = [l for l in r.stdout.splitlines() if l.startswith('VIOLATION')]
            detail = [l for l in r.stdout.splitlines() if l.startswith('  ') and ('FAIL' in l or 'ERROR' in l or 'runtime error' in l)][:2]
            verdict = 'DETECTED' if (r.returncode == 1 and viol) else ('MISSED' if r.returncode == 0 else 'ERROR rc=%d' % r.returncode)
            print('%s vs %s: %s in %.0fs' % (seed, p, verdict, time.time() - t0))
            for l in viol[:1] + detail[:1]:
                print('   ', l[:300])
            if verdict.startswith('ERROR'):
                print(r.stdout[-1500:])
            out[p] = {'verdict': verdict, 'tier': tier, 'seconds': round(time.time() - t0), 'ran': 'scratch worktree of /repo HEAD + git apply seeded/%s/patch.diff; VERIF_REPO=<worktree> ./check %s --tier %s; worktree reset' % (seed, p, tier),
                      'repo_head': sh('git -C /repo rev-parse --short HEAD').stdout.strip(), 'reported': (viol[:1] + [x.strip()[:400] for x in detail[:1]])}
    finally:
        sh('git -C %s checkout -q -- .' % WT)
        # remove replays written for the mutant so they are not mistaken for findings on the real tree
        for p in props:     # remove only the replay files this run wrote (another run may be using the directory)
            rd = os.path.join(V, 'replays', p)
            for fn in (os.listdir(rd) if os.path.isdir(rd) else []):
                if fn not in before.get(p, set()):
                    try:
                        os.unlink(os.path.join(rd, fn))
                    except OSError:
                        pass
            ev = os.path.join(V, 'evidence', p + '.json')
            if saved.get(p) is not None:
                open(ev, 'w').write(saved[p])
    dj = os.path.join(d, 'detection.json')
    cur = json.load(open(dj)) if os.path.exists(dj) else {}
    cur.update(out)
    json.dump(cur, open(dj, 'w'), indent=1)
    return 0


if __name__ == '__main__':
    sys.exit(main())
