#!/bin/bash
# tools/seed_sweep.sh [lanes] [ref-file] : run tools/seedtest.py over every seeded change, in parallel lanes that never share a
# property (a lane = its own scratch worktree and build cache).  With a ref-file, seeds whose detection.json is newer than
# that file are skipped (to resume an interrupted sweep).  Logs to /root/seedsweep_<lane>.log.
cd "$(dirname "$0")/.."
L=${1:-3}
REF=${2:-}
for k in $(seq 0 $((L-1))); do
  ( for d in seeded/*/; do s=$(basename $d); p=${s%%-*}; n=$((10#${p#C})); if [ $((n % L)) -eq $k ]; then
      if [ -n "$REF" ] && [ -f "$d/detection.json" ] && [ "$d/detection.json" -nt "$REF" ]; then continue; fi
      SEED_WT=/tmp/vf_seedrepo_$k python3 tools/seedtest.py $s 2>&1 | head -3; fi; done >> /root/seedsweep_$k.log 2>&1 ) &
done
wait
