#!/usr/bin/env python3
"""Independent confirmation of a seeded change, in a scratch worktree of /repo (never in /repo itself).

  tools/verify_seed.py demo  <seed>...     demonstration passes on the clean tree and fails with the patch
  tools/verify_seed.py tests <seed>...     the patched tree builds with the repository's own cmake build and passes
                                           the repository's tests (all but the ones in SLOW unless listed in meta.tests_run)
  tools/verify_seed.py clean               removes the scratch worktree and its build output

Results are merged into seeded/<seed>/verified.json.
"""
import json, os, subprocess, sys, time

VERIF = os.path.dirname(os.path.dirname(os.path.abspath(__file__)))
WT = '/tmp/vf_seedwt'
# tests that only sleep / take minutes and exercise nothing a seeded change touches unless named in meta.tests_run
SLOW = ['testserial']   # needs a serial device; fails (timeout after 900 s) on the pinned tree as well

def sh(cmd, **kw):
    return subprocess.run(cmd, shell=True, stdout=subprocess.PIPE, stderr=subprocess.STDOUT, universal_newlines=True, errors='replace', **kw)

def worktree():
    head = sh('git -C /repo rev-parse --short HEAD').stdout.strip()
    if not os.path.isdir(WT):
        r = sh('git -C /repo worktree add --detach %s HEAD' % WT)
        if r.returncode: sys.exit(r.stdout)
    else:
        sh('git -C %s checkout -q -- . && git -C %s checkout -q --detach %s' % (WT, WT, head))
    return head

def merge(seed, d):
    p = os.path.join(VERIF, 'seeded', seed, 'verified.json')
    cur = json.load(open(p)) if os.path.exists(p) else {}
    cur.update(d)
    json.dump(cur, open(p, 'w'), indent=1)

def demo(seed):
    sd = os.path.join(VERIF, 'seeded', seed)
    head = worktree()
    t0 = time.time()
    clean = sh('bash %s/run_demo.sh %s' % (sd, WT))
    ap = sh('git -C %s apply %s/patch.diff' % (WT, sd))
    if ap.returncode: print(seed, 'PATCH DOES NOT APPLY', ap.stdout); return False
    patched = sh('bash %s/run_demo.sh %s' % (sd, WT))
    sh('git -C %s checkout -q -- .' % WT)
    ok = (clean.returncode == 0) and (patched.returncode not in (0, 99))
    merge(seed, {'demo': {'repo_head': head, 'ran': 'bash seeded/%s/run_demo.sh <scratch worktree>  (clean tree, then with patch.diff applied)' % seed,
                          'clean_exit': clean.returncode, 'patched_exit': patched.returncode,
                          'clean_tail': clean.stdout[-600:], 'patched_tail': patched.stdout[-1200:], 'confirmed': ok}})
    print('%s demo: clean exit %d, patched exit %d -> %s (%.0fs)' % (seed, clean.returncode, patched.returncode, 'CONFIRMED' if ok else 'NOT CONFIRMED', time.time()-t0), flush=True)
    return ok

def tests(seed):
    sd = os.path.join(VERIF, 'seeded', seed)
    head = worktree()
    t0 = time.time()
    if not os.path.exists(WT+'/_build/build.ninja'):
        r = sh('cmake -G Ninja -DCMAKE_BUILD_TYPE=RelWithDebInfo -DWITH_TESTS=ON -DWITH_EXAMPLES=OFF -DWITH_QT=OFF -DCMAKE_CXX_FLAGS=-Wno-error -S %s -B %s/_build' % (WT, WT))
        if r.returncode: sys.exit(r.stdout[-3000:])
    ap = sh('git -C %s apply %s/patch.diff' % (WT, sd))
    if ap.returncode: print(seed, 'PATCH DOES NOT APPLY', ap.stdout); return False
    b = sh('cmake --build %s/_build -j16' % WT)
    res = {'repo_head': head, 'build_exit': b.returncode}
    if b.returncode == 0:
        meta = json.load(open(sd+'/meta.json'))
        named = set(meta.get('tests_run', []))
        excl = [t for t in SLOW if t not in named]
        cmd = 'ctest --test-dir %s/_build -j16 --timeout 900' % WT
        if excl: cmd += ' -E "^(%s)$"' % '|'.join(excl)
        t = sh(cmd)
        lines = t.stdout.splitlines()
        failed = [l.split(' - ')[1].split(' ')[0] for l in lines if ' - ' in l and l.strip()[:1].isdigit() and '(' in l]    # the 'The following tests FAILED:' section: '<n> - <name> (<reason>)'
        summ = [l for l in lines if 'tests passed' in l or 'tests failed' in l]
        res.update({'ran': 'cmake --build + ' + cmd.replace(WT, '<scratch worktree>'), 'summary': summ[-1] if summ else '', 'failed': sorted(set(failed)), 'excluded_slow': excl})
        res['confirmed'] = bool(summ) and (sorted(set(failed)) in ([], ['testserial']))
    else:
        res['build_tail'] = b.stdout[-2000:]; res['confirmed'] = False
    sh('git -C %s checkout -q -- .' % WT)
    merge(seed, {'tests': res})
    print('%s tests: build %d, %s failed=%s -> %s (%.0fs)' % (seed, b.returncode, res.get('summary', ''), res.get('failed'), 'CONFIRMED' if res['confirmed'] else 'NOT CONFIRMED', time.time()-t0), flush=True)
    return res['confirmed']

if __name__ == '__main__':
    mode = sys.argv[1]
    if mode == 'clean':
        sh('git -C /repo worktree remove --force %s' % WT); sh('rm -rf %s' % WT); sh('git -C /repo worktree prune'); print('removed', WT); sys.exit(0)
    seeds = sys.argv[2:] or sorted(d for d in os.listdir(os.path.join(VERIF, 'seeded')) if os.path.isdir(os.path.join(VERIF, 'seeded', d)))
    allok = True
    for s in seeds: allok &= bool((demo if mode == 'demo' else tests)(s))
    sys.exit(0 if allok else 1)
