#!/usr/bin/env python3
"""tools/minimise.py <property> <target> <in.cur|in.bin> <out.bin> [allow-known-id] : ddmin a failing input (keeps the failure class)."""
import os, sys
V = os.path.dirname(os.path.dirname(os.path.abspath(__file__)))
sys.path.insert(0, os.path.join(V, 'engine')); sys.path.insert(0, V)
import driver, checks
prop, tname, inp, outp = sys.argv[1:5]
allow = sys.argv[5] if len(sys.argv) > 5 else None
spec = [s for s in checks.CHECKS[prop]['targets'] if s['name'] == tname][0]
t = driver.Target(prop, spec); t.build(('pr',))
raw = open(inp, 'rb').read()
data = raw[8:8 + int.from_bytes(raw[:8], 'little')] if inp.endswith('.cur') or '.cur' in inp or os.path.basename(inp).startswith('cur') else raw
env = {'VERIF_ALLOW_KNOWN': allow} if allow else None
tmp = outp + '.tmp'; open(tmp, 'wb').write(data)
rc, out = driver.run_replay(t.pr, tmp, env, t.budget)
if rc == 0:
    print('input does not fail'); sys.exit(1)
cls = driver.fail_class(driver.fail_summary(out))
print('failure:', driver.fail_summary(out)[:200])
os.makedirs(t.wdir, exist_ok=True)
m = driver.ddmin(t, data, budget_s=60, extra_env=env, want_class=cls)
open(outp, 'wb').write(m); os.unlink(tmp)
rc, out = driver.run_replay(t.pr, outp, env, t.budget)
print('minimised %d -> %d bytes; still fails: %s' % (len(data), len(m), driver.fail_summary(out)[:300]))
