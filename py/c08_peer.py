#!/usr/bin/env python3
"""Python leg of C08.  usage: c08_peer.py <batch file> <out json> [--frames N] [--faildir DIR]
Batch records: <u32 len><C++ flattened bytes><u32 len><model dump>.  For every record, with the
unmodified /repo/lang/python3/message.py:
  parse (SetFromFlattenedBuffer) -> content dump equals the model dump -> FlattenedSize()==len ->
  GetFlattenedBuffer()==bytes -> a Message rebuilt through the Put* API flattens to the same bytes.
--frames N: additionally sends the first N Messages through a MessageTransceiverThread over loopback TCP
and compares the raw bytes on the socket with <len LE><'Enc0' LE><bytes>."""
import sys, os, struct, json, array, socket, time, hashlib
REPO = os.environ.get('VERIF_REPO', '/repo')
sys.path.insert(0, os.path.join(REPO, 'lang', 'python3'))
import message

B = {k: getattr(message, k) for k in dir(message) if k.startswith('B_') and k.endswith('_TYPE')}
FIXED = {B['B_BOOL_TYPE']: 1, B['B_INT8_TYPE']: 1, B['B_INT16_TYPE']: 2, B['B_INT32_TYPE']: 4, B['B_INT64_TYPE']: 8,
         B['B_FLOAT_TYPE']: 4, B['B_DOUBLE_TYPE']: 8}
PACK = {B['B_INT8_TYPE']: '<b', B['B_INT16_TYPE']: '<h', B['B_INT32_TYPE']: '<i', B['B_INT64_TYPE']: '<q'}


def hx(b):
    return b.hex() if len(b) else '-'


def item_bytes(tc, contents, k):
    """wire bytes of item k, re-encoded here (not by message.py) from what the parsed Message holds"""
    v = contents[k]
    if tc == B['B_BOOL_TYPE']:
        return b'\x01' if v else b'\x00'
    if tc in PACK:
        return struct.pack(PACK[tc], v)
    if tc in (B['B_FLOAT_TYPE'], B['B_DOUBLE_TYPE']):
        # array('f'/'d') keeps the bit pattern; slice the raw bytes so NaN payloads are compared exactly
        raw = contents.tobytes() if isinstance(contents, array.array) else None
        sz = FIXED[tc]
        if raw is not None:
            return raw[k * sz:(k + 1) * sz]
        return struct.pack('<f' if sz == 4 else '<d', v)
    if tc == B['B_POINT_TYPE']:
        return struct.pack('<2f', *v)
    if tc == B['B_RECT_TYPE']:
        return struct.pack('<4f', *v)
    if tc == B['B_STRING_TYPE']:
        return v.encode() + b'\x00'
    return bytes(v)


def dump(m, out):
    out.append('W %d' % m.what)
    for fn in m.GetFieldNames():
        tc = m.GetFieldType(fn)
        c = m.GetFieldContents(fn)
        out.append('F %s %d %d' % (hx(fn.encode()), tc, len(c)))
        for k in range(len(c)):
            if tc == B['B_MESSAGE_TYPE']:
                out.append('M')
                dump(c[k], out)
                out.append('E')
            else:
                out.append('I ' + hx(item_bytes(tc, c, k)))


def rebuild(m):
    """a new Message holding the same content, put together through the public Put* API"""
    r = message.Message(m.what)
    for fn in m.GetFieldNames():
        tc = m.GetFieldType(fn)
        c = m.GetFieldContents(fn)
        if tc == B['B_MESSAGE_TYPE']:
            r.PutMessage(fn, [rebuild(x) for x in c])
        elif tc == B['B_STRING_TYPE']:
            r.PutString(fn, list(c))
        elif tc == B['B_BOOL_TYPE']:
            r.PutBool(fn, [bool(x) for x in c])
        elif tc == B['B_INT8_TYPE']:
            r.PutInt8(fn, list(c))
        elif tc == B['B_INT16_TYPE']:
            r.PutInt16(fn, list(c))
        elif tc == B['B_INT32_TYPE']:
            r.PutInt32(fn, list(c))
        elif tc == B['B_INT64_TYPE']:
            r.PutInt64(fn, list(c))
        elif tc == B['B_FLOAT_TYPE']:
            a = array.array('f'); a.frombytes(c.tobytes()); r.PutFieldContents(fn, tc, a)     # keeps NaN payloads bit-exact
        elif tc == B['B_DOUBLE_TYPE']:
            a = array.array('d'); a.frombytes(c.tobytes()); r.PutFieldContents(fn, tc, a)
        elif tc == B['B_POINT_TYPE']:
            r.PutPoint(fn, list(c))
        elif tc == B['B_RECT_TYPE']:
            r.PutRect(fn, list(c))
        else:
            r.PutFieldContents(fn, tc, [bytes(x) for x in c])
    return r


def check_one(b, model_dump):
    try:
        m = message.Message()
        m.SetFromFlattenedBuffer(b)
    except Exception as e:
        return 'python parser raised %s: %s' % (type(e).__name__, e)
    out = []
    dump(m, out)
    got = '\n'.join(out) + '\n'
    if got != model_dump:
        gl, ml = got.splitlines(), model_dump.splitlines()
        for i in range(max(len(gl), len(ml))):
            if i >= len(gl) or i >= len(ml) or gl[i] != ml[i]:
                return 'parsed content differs from the model at dump line %d: python [%s] model [%s]' % (i, gl[i] if i < len(gl) else '<end>', ml[i] if i < len(ml) else '<end>')
    try:
        if m.FlattenedSize() != len(b):
            return 'FlattenedSize() is %d, the buffer has %d bytes' % (m.FlattenedSize(), len(b))
        o = m.GetFlattenedBuffer()
        if bytes(o) != b:
            return 're-serialised bytes differ from the C++ bytes'
        r = rebuild(m)
        if r.FlattenedSize() != len(b):
            return 'a Message rebuilt through the Put* API reports FlattenedSize %d, expected %d' % (r.FlattenedSize(), len(b))
        if bytes(r.GetFlattenedBuffer()) != b:
            return 'a Message rebuilt through the Put* API flattens to different bytes'
    except Exception as e:
        return 'python flatten raised %s: %s' % (type(e).__name__, e)
    return None


def frames_check(msgs):
    """loopback TCP: what a MessageTransceiverThread puts on the wire for each Message"""
    import message_transceiver_thread as mtt
    srv = socket.socket(socket.AF_INET, socket.SOCK_STREAM)
    srv.setsockopt(socket.SOL_SOCKET, socket.SO_REUSEADDR, 1)
    srv.bind(('127.0.0.1', 0))
    srv.listen(1)
    port = srv.getsockname()[1]
    t = mtt.MessageTransceiverThread('127.0.0.1', port)
    t.start()
    srv.settimeout(20)
    conn, _ = srv.accept()
    conn.settimeout(20)
    expect = b''
    for b in msgs:
        m = message.Message()
        m.SetFromFlattenedBuffer(b)
        t.SendOutgoingMessage(m)
        expect += struct.pack('<2L', len(b), 1164862256) + b
    got = b''
    deadline = time.time() + 30
    while len(got) < len(expect) and time.time() < deadline:
        try:
            d = conn.recv(65536)
        except socket.timeout:
            break
        if not d:
            break
        got += d
    try:
        t.Destroy()
    except Exception:
        pass
    conn.close()
    srv.close()
    if got != expect:
        n = 0
        while n < len(got) and n < len(expect) and got[n] == expect[n]:
            n += 1
        return 'MessageTransceiverThread wire bytes differ from <len LE><Enc0 LE><bytes> at offset %d (got %d bytes, expected %d)' % (n, len(got), len(expect))
    return None


def main():
    batch, outj = sys.argv[1], sys.argv[2]
    nframes = 0
    faildir = None
    a = sys.argv[3:]
    while a:
        if a[0] == '--frames':
            nframes = int(a[1]); a = a[2:]
        elif a[0] == '--faildir':
            faildir = a[1]; a = a[2:]
        else:
            a = a[1:]
    data = open(batch, 'rb').read()
    pos = 0
    n = 0
    fails = []
    firstmsgs = []
    nonascii_names = 0
    while pos + 4 <= len(data):
        (l1,) = struct.unpack('<L', data[pos:pos + 4]); b = data[pos + 4:pos + 4 + l1]; pos += 4 + l1
        if pos + 4 > len(data):
            break
        (l2,) = struct.unpack('<L', data[pos:pos + 4]); d = data[pos + 4:pos + 4 + l2].decode('ascii'); pos += 4 + l2
        if len(b) != l1 or len(d) != l2:
            break   # a truncated last record (worker stopped mid-write)
        n += 1
        if 'c3a9' in d or 'e282ac' in d:
            nonascii_names += 1
        if len(firstmsgs) < nframes:
            firstmsgs.append(b)
        why = check_one(b, d)
        if why:
            rec = {'why': why, 'bytes_hex': b.hex()[:2000]}
            if faildir:
                os.makedirs(faildir, exist_ok=True)
                p = os.path.join(faildir, 'c08_python__%s.pybatch' % hashlib.sha1(b).hexdigest()[:10])
                with open(p, 'wb') as f:
                    f.write(struct.pack('<L', l1) + b + struct.pack('<L', l2) + d.encode())
                rec['replay'] = p
            fails.append(rec)
            if len(fails) >= 3:
                break
    frame_fail = None
    if nframes and firstmsgs and not fails:
        try:
            frame_fail = frames_check(firstmsgs)
        except Exception as e:
            frame_fail = 'inconclusive: loopback transceiver test could not run: %s: %s' % (type(e).__name__, e)
    json.dump({'records': n, 'failures': fails, 'frames_checked': len(firstmsgs) if nframes else 0, 'frame_failure': frame_fail, 'records_with_non_ascii_names_or_strings': nonascii_names}, open(outj, 'w'))
    return 1 if (fails or (frame_fail and not frame_fail.startswith('inconclusive'))) else 0


if __name__ == '__main__':
    sys.exit(main())
