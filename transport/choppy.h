// In-memory byte pipes whose every Read()/Write() moves a generator-chosen number of bytes
// (0 = would-block, 1, a few, many, all).  The segmentation plan is decoded from the case bytes.
#ifndef VF_CHOPPY_H
#define VF_CHOPPY_H

#include "engine/harness.h"
#include "dataio/DataIO.h"
#include <deque>

namespace choppy {

using namespace muscle;

struct Pipe {std::deque<uint8> q; uint64_t total; Pipe() : total(0) {}};

struct Plan
{
   vf::BS * bs; bool generous; uint32 forced;      // forced > 0: every operation moves at most (forced) bytes
   uint64_t partialOps, zeroOps, ops;
   Plan(vf::BS * b) : bs(b), generous(false), forced(0), partialOps(0), zeroOps(0), ops(0) {}
   uint32 Chunk(uint32 maxv)
   {
      ops++;
      if (forced) return (maxv < forced) ? maxv : forced;
      if (generous) return maxv;
      const uint8_t c = bs->u8();
      uint32 k;
      if (c < 24) k = 0;
      else if (c < 90) k = 1;
      else if (c < 150) k = (uint32)(c%7)+2;
      else if (c < 200) k = (uint32)c*11u;
      else if (c < 215) k = 2048-(c%3);            // around the gateways' scratch buffer size
      else k = maxv;
      if (k > maxv) k = maxv;
      if (k == 0) zeroOps++;
      if ((k < maxv)&&(maxv > 0)) partialOps++;
      return k;
   }
};

class ChopIO : public DataIO
{
public:
   ChopIO(Pipe * in, Pipe * out, Plan * plan) : _in(in), _out(out), _plan(plan) {}
   virtual io_status_t Read(void * b, uint32 size)
   {
      if (_in == NULL) return io_status_t((int32)0);
      const uint32 k = _plan->Chunk(muscleMin(size, (uint32)_in->q.size()));
      for (uint32 i=0; i<k; i++) {((uint8 *)b)[i] = _in->q.front(); _in->q.pop_front();}
      return io_status_t((int32)k);
   }
   virtual io_status_t Write(const void * b, uint32 size)
   {
      if (_out == NULL) return io_status_t((int32)size);
      const uint32 k = _plan->Chunk(size);
      for (uint32 i=0; i<k; i++) _out->q.push_back(((const uint8 *)b)[i]);
      _out->total += k;
      return io_status_t((int32)k);
   }
   virtual void FlushOutput() {}
   virtual void Shutdown() {}
   virtual const ConstSocketRef & GetReadSelectSocket() const {return GetNullSocket();}
   virtual const ConstSocketRef & GetWriteSelectSocket() const {return GetNullSocket();}
private:
   Pipe * _in; Pipe * _out; Plan * _plan;
};

}  // namespace choppy

#endif
