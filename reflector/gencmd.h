// Generator of arbitrary *structurally valid* client Messages for the reflector server: any
// command code, reserved field names with right and wrong types, paths over the full metacharacter
// alphabet (incl. empty clauses, '..', trailing backslash), archived filters incl. malformed ones,
// nested BATCHes.  Used by C07 (hostile client) and by C06 (adversary; victim names spliced in).
#ifndef VF_GENCMD_H
#define VF_GENCMD_H

#include "reflector/rharness.h"

namespace gencmd {

using namespace muscle;

struct Opts
{
   std::string victimHost, victimId;    // spliced into the clause table as "VH" / "VI"
   bool allowRawRegex;                  // known finding F19: raw regexes reach regcomp unvetted; stacked repetition is exponential (lifts the exclusion: the last clause form becomes the bomb)
   uint32 * pathsAddressingVictim;      // counted when a generated path names the victim's host or id literally or by wildcard at both levels
   std::string ownRoot;                 // C06: the sender's own root path; now and then a fully-qualified path begins with these very characters and then goes on ("/h1/17" + "0/x"): a neighbour's address that a careless prefix test takes for one's own
   uint32 * pathsBesideOwnRoot;
   bool aimAtVictim;                    // C06: a third of the paths are built as /<victim host|*>/<victim id|*>/<clauses from the victim's vocabulary> (costs one extra byte per path, so C07 leaves it off)
   Opts() : allowRawRegex(false), pathsAddressingVictim(NULL), pathsBesideOwnRoot(NULL), aimAtVictim(false) {}
};

static const char * const CLAUSES[] = {"a", "b", "c", "*", "a*", "?", "[ab]", "(a|b)", "a,b", "~a", "<0-5>", "I0", "I1", "\\*", "", "..", "o", "0", "1", "2", "*/*", "x\\", "VH", "VI", "`", "~`", "~zz", "`a.*", "`(a|b)+c"};
enum {NUM_CLAUSES = 29};

inline String GenPath(vf::BS & bs, const Opts & o)
{
   if ((o.aimAtVictim)&&(bs.u8()%3 == 0))
   {
      static const char * const VOC[] = {"a", "b", "o", "c", "I0", "I1", "*", "a*", "?", "[ab]", "(a|b)", "a,b,o", "~zz", "<0-5>", "I*", ".."};
      const uint8_t k = bs.u8();
      if ((o.ownRoot.size())&&((k>>3)%8 == 7)) {static const char * const SUF[] = {"0/x", "z/a", "1", "00/a/b", "0", "9/I0", "a", "0/a"}; String r2 = o.ownRoot.c_str(); r2 += SUF[k&7]; if (o.pathsBesideOwnRoot) (*o.pathsBesideOwnRoot)++; return r2;}
      String r = "/"; r += (k&1) ? "*" : o.victimHost.c_str(); r += '/'; r += (k&2) ? "*" : (k&4) ? (o.victimId+"*").c_str() : o.victimId.c_str();
      const uint32 n = 1+(k>>3)%3; for (uint32 i=0; i<n; i++) {r += '/'; r += VOC[bs.u8()%16];}
      if (o.pathsAddressingVictim) (*o.pathsAddressingVictim)++;
      return r;
   }
   String r; const bool abs = (bs.u8()%3 == 0); if (abs) r = "/";
   const uint32 n = 1+bs.u8()%4; bool vh = false, vi = false;
   for (uint32 i=0; i<n; i++)
   {
      if (i) r += '/';
      const char * c = CLAUSES[bs.u8()%NUM_CLAUSES];
      // raw-regex clauses (backtick prefix) are part of the alphabet, incl. the empty regex; only stacked repetition -- known finding F19, exponential in regcomp -- is kept out
      if ((c[0] == '`')&&(c[1] == '(')) {if (o.allowRawRegex) c = "`e+++++++++++++++++++++++"; else vf::Excluded("F19");}
      if (strcmp(c, "VH") == 0) {r += o.victimHost.size() ? o.victimHost.c_str() : "*"; if (i == 0) vh = true;}
      else if (strcmp(c, "VI") == 0) {r += o.victimId.size() ? o.victimId.c_str() : "*"; if (i == 1) vi = true;}
      else {r += c; if ((i == 0)&&(strcmp(c, "*") == 0)) vh = true; if ((i == 1)&&(strcmp(c, "*") == 0)) vi = true;}
   }
   if ((abs)&&(vh)&&(vi)&&(n >= 3)&&(o.pathsAddressingVictim)) (*o.pathsAddressingVictim)++;
   return r;
}

inline MessageRef GenFilter(vf::BS & bs, int depth)
{
   Message m;
   const uint8_t fb = bs.u8();
   if (fb >= 246)
   {
      // a raw-bytes filter: its byte string shorter than, as long as and longer than the field values it meets (2, 4 and 5 bytes in the vocabulary of GenData), with and without a default
      static const uint32 LENS[] = {0, 1, 2, 3, 4, 5, 6, 7, 9, 40}; const uint32 n = LENS[bs.u8()%10]; ByteBufferRef v = GetByteBufferFromPool(n); if (v()) for (uint32 i=0; i<n; i++) v()->GetBuffer()[i] = (uint8)("abc\0b\0\3\0\0\0"[(i+fb)%11]);
      const uint8_t ob = bs.u8(); const char * fn = (ob&1) ? "s" : "v";
      if (ob&2) {ByteBufferRef dv = GetByteBufferFromPool(1+(ob>>2)%3); if (dv()) memset(dv()->GetBuffer(), 'b', dv()->GetNumBytes()); RawDataQueryFilter f(fn, (uint8)((ob>>4)%RawDataQueryFilter::NUM_RAWDATA_OPERATORS), v, B_ANY_TYPE, 0, dv); (void) f.SaveToArchive(m);}
           else {RawDataQueryFilter f(fn, (uint8)((ob>>4)%RawDataQueryFilter::NUM_RAWDATA_OPERATORS), v, B_ANY_TYPE, (ob>>2)&1); (void) f.SaveToArchive(m);}
      vf::Count("filters_on_raw_bytes");
      return GetMessageFromPool(m);
   }
   switch(fb%10)
   {
      case 0: {WhatCodeQueryFilter f(bs.u8()%4, bs.u8()%4); (void) f.SaveToArchive(m);} break;
      case 1: {ValueExistsQueryFilter f("v", (bs.u8()&1) ? B_INT32_TYPE : B_ANY_TYPE); (void) f.SaveToArchive(m);} break;
      case 2: {Int32QueryFilter f("v", bs.u8()%7, bs.u8()%4, bs.u8()%3); (void) f.SaveToArchive(m);} break;
      case 3: {const uint8 op = bs.u8()%30; StringQueryFilter f("s", op, (bs.u8()&1) ? "a*" : "b"); (void) f.SaveToArchive(m);} break;     // incl. the regular-expression operators, with operands that cannot blow up
      case 4: {MinimumThresholdQueryFilter f(bs.u8()%3); (void) f.SaveToArchive(m); if (depth < 3) for (int i=0; i<2; i++) (void) m.AddMessage("kid", GenFilter(bs, depth+1));} break;
      case 5: {XorQueryFilter f; (void) f.SaveToArchive(m); if (depth < 3) (void) m.AddMessage("kid", GenFilter(bs, depth+1));} break;
      case 6: {ChildCountQueryFilter f(bs.u8()%6, bs.u8()%3); (void) f.SaveToArchive(m);} break;
      case 7: {NodeNameQueryFilter f(bs.u8()%24, "a*"); (void) f.SaveToArchive(m);} break;
      case 8: m.what = QUERY_FILTER_TYPE_WHATCODE+bs.u8()%24; (void) m.AddInt32("idx", bs.u8()); (void) m.AddString("fn", "v"); (void) m.AddInt8("op", (int8)bs.u8()); if (bs.u8()&1) (void) m.AddInt32("val", 3); break;     // malformed on purpose
      default: {AndQueryFilter f; (void) f.SaveToArchive(m); if (depth < 3) for (int i=0; i<3; i++) (void) m.AddMessage("kid", GenFilter(bs, depth+1));} break;
   }
   return GetMessageFromPool(m);
}

inline MessageRef GenData(vf::BS & bs) {MessageRef d = GetMessageFromPool(bs.u8()%4); if (bs.u8()&1) (void) d()->AddInt32("v", bs.u8()%4); if (bs.u8()&1) (void) d()->AddString("s", (bs.u8()&1) ? "abc" : "b"); return d;}

inline MessageRef GenCmd(vf::BS & bs, int depth, const Opts & o, std::string * optDesc = NULL)
{
   static const uint32 cmds[] = {PR_COMMAND_SETPARAMETERS, PR_COMMAND_GETPARAMETERS, PR_COMMAND_REMOVEPARAMETERS, PR_COMMAND_SETDATA, PR_COMMAND_GETDATA, PR_COMMAND_REMOVEDATA, PR_COMMAND_JETTISONRESULTS, PR_COMMAND_INSERTORDEREDDATA, PR_COMMAND_PING,
                                 PR_COMMAND_KICK, PR_COMMAND_ADDBANS, PR_COMMAND_REMOVEBANS, PR_COMMAND_BATCH, PR_COMMAND_NOOP, PR_COMMAND_REORDERDATA, PR_COMMAND_ADDREQUIRES, PR_COMMAND_REMOVEREQUIRES, PR_COMMAND_SETDATATREES, PR_COMMAND_GETDATATREES,
                                 PR_COMMAND_JETTISONDATATREES, 1234, 0, PR_COMMAND_SETDATA, PR_COMMAND_REMOVEDATA, PR_COMMAND_GETDATA, PR_COMMAND_SETPARAMETERS};
   static const char * const NAMES[] = {"SETPARAMETERS", "GETPARAMETERS", "REMOVEPARAMETERS", "SETDATA", "GETDATA", "REMOVEDATA", "JETTISONRESULTS", "INSERTORDEREDDATA", "PING", "KICK", "ADDBANS", "REMOVEBANS", "BATCH", "NOOP", "REORDERDATA", "ADDREQUIRES", "REMOVEREQUIRES",
                                        "SETDATATREES", "GETDATATREES", "JETTISONDATATREES", "what=1234", "what=0", "SETDATA", "REMOVEDATA", "GETDATA", "SETPARAMETERS"};
   const uint8_t cb = bs.u8();
   if ((cb == 255)&&(depth == 0)&&(bs.u8()%6 == 0))
   {
      // a BATCH nested far deeper than any sane client would: the server must refuse or survive it (its handlers recurse once per level)
      static const uint32 DEPTHS[] = {101, 101, 150, 150, 400, 400, 700, 1500}; const uint32 levels = DEPTHS[bs.u8()%8];
      MessageRef inner = GetMessageFromPool(PR_COMMAND_SETDATA); (void) inner()->AddMessage("deep", GenData(bs));
      for (uint32 i=0; i<levels; i++) {MessageRef outer = GetMessageFromPool(PR_COMMAND_BATCH); (void) outer()->AddMessage(PR_NAME_KEYS, inner); inner = outer;}
      vf::Count("command_batch_nested_over_100_levels");
      if (optDesc) *optDesc = "BATCH nested "+std::to_string(levels)+" levels around a SETDATA";
      return inner;
   }
   const uint32 ci = cb%(sizeof(cmds)/sizeof(cmds[0])); const uint32 what = cmds[ci];
   MessageRef m = GetMessageFromPool(what); std::string d = NAMES[ci];
   const uint32 nk = bs.u8()%3;
   for (uint32 i=0; i<nk; i++) {const String p = GenPath(bs, o); (void) m()->AddString(PR_NAME_KEYS, p); d += std::string(" [")+p()+"]"; if (bs.u8()%3 == 0) {(void) m()->AddMessage(PR_NAME_FILTERS, GenFilter(bs, 0)); d += "+f";}}
   switch(what)
   {
      case PR_COMMAND_SETPARAMETERS:
      {
         const uint32 n = bs.u8()%3; for (uint32 i=0; i<n; i++) {const String fn = String("SUBSCRIBE:")+GenPath(bs, o); d += std::string(" ")+fn(); if (bs.u8()&1) (void) m()->AddBool(fn, true); else (void) m()->AddMessage(fn, GenFilter(bs, 0));}
         if (bs.u8()%4 == 0) {const int32 mx = (int32)(bs.u8()%4); (void) m()->AddInt32(PR_NAME_MAX_UPDATE_MESSAGE_ITEMS, mx); d += " maxitems="+std::to_string(mx);}
         if (bs.u8()%6 == 0) (void) m()->AddBool(PR_NAME_REFLECT_TO_SELF, true); if (bs.u8()%6 == 0) (void) m()->AddBool(PR_NAME_SUBSCRIBE_QUIETLY, true);
         if (bs.u8()%8 == 0) (void) m()->AddInt32(PR_NAME_REPLY_ENCODING, MUSCLE_MESSAGE_ENCODING_DEFAULT+bs.u8()%12); if (bs.u8()%8 == 0) {(void) m()->AddInt32(PR_NAME_PRIVILEGE_BITS, -1); d += " PRIVILEGE_BITS";}
         if (bs.u8()%8 == 0) {(void) m()->AddBool(PR_NAME_DISABLE_SUBSCRIPTIONS, true); d += " DISABLE_SUBSCRIPTIONS";} if (bs.u8()%8 == 0) (void) m()->AddString(PR_NAME_MAX_UPDATE_MESSAGE_ITEMS, "wrongtype");
         if (bs.u8()%8 == 0) (void) m()->AddString("custom parameter", "x");
      }
      break;
      case PR_COMMAND_SETDATA: case PR_COMMAND_INSERTORDEREDDATA:
      {
         const uint32 n = 1+bs.u8()%3; for (uint32 i=0; i<n; i++) {const String p = (what == PR_COMMAND_SETDATA) ? GenPath(bs, o) : String(CLAUSES[bs.u8()%14]); (void) m()->AddMessage(p, GenData(bs)); d += std::string(" <")+p()+">";}
         if (bs.u8()%3 == 0) (void) m()->AddInt32(PR_NAME_FLAGS, bs.u8()%32); if (bs.u8()%8 == 0) (void) m()->AddString(PR_NAME_FLAGS, "x");
      }
      break;
      case PR_COMMAND_REORDERDATA: {const uint32 n = 1+bs.u8()%2; for (uint32 i=0; i<n; i++) {const String p = GenPath(bs, o); (void) m()->AddString(p, (bs.u8()&1) ? String(CLAUSES[bs.u8()%14]) : String(PR_NAME_REMOVE_FROM_INDEX)); d += std::string(" <")+p()+">";}} break;
      case PR_COMMAND_REMOVEDATA: if (bs.u8()%4 == 0) (void) m()->AddBool(PR_NAME_REMOVE_QUIETLY, true); break;
      case PR_COMMAND_REMOVEPARAMETERS: {static const char * const RP[] = {"SUBSCRIBE:*", "*", "SUBSCRIBE:/\\*/\\*/\\*/\\*", PR_NAME_DISABLE_SUBSCRIPTIONS, PR_NAME_KEYS, "SUBSCRIBE:a*", PR_NAME_REFLECT_TO_SELF, PR_NAME_MAX_UPDATE_MESSAGE_ITEMS}; const uint8_t k = bs.u8(); if (k%2) {(void) m()->AddString(PR_NAME_KEYS, RP[(k>>1)%8]); d += std::string(" [")+RP[(k>>1)%8]+"]";}} break;     // parameter names as they really occur
      case PR_COMMAND_BATCH: if (depth < 4) {const uint32 n = bs.u8()%4; d += " ("; for (uint32 i=0; i<n; i++) {std::string sd; (void) m()->AddMessage(PR_NAME_KEYS, GenCmd(bs, depth+1, o, &sd)); d += sd+"; ";} d += ")";} break;
      case PR_COMMAND_SETDATATREES: {const uint32 n = bs.u8()%3; for (uint32 i=0; i<n; i++) {MessageRef t = GetMessageFromPool(); (void) t()->AddMessage(PR_NAME_NODEDATA, GenData(bs)); if (bs.u8()&1) {MessageRef kids = GetMessageFromPool(); MessageRef k = GetMessageFromPool(); (void) k()->AddMessage(PR_NAME_NODEDATA, GenData(bs)); (void) kids()->AddMessage("k", k); (void) t()->AddMessage(PR_NAME_NODECHILDREN, kids);} (void) m()->AddMessage(GenPath(bs, o), t);}} break;
      case PR_COMMAND_GETDATATREES: case PR_COMMAND_JETTISONDATATREES: if (bs.u8()&1) (void) m()->AddString(PR_NAME_TREE_REQUEST_ID, (bs.u8()&1) ? "id*" : "id1"); if (bs.u8()%4 == 0) (void) m()->AddInt32(PR_NAME_MAXDEPTH, (int32)bs.u8()-2); break;
      default: if (bs.u8()%4 == 0) (void) m()->AddString(PR_NAME_SESSION, "99"); break;
   }
   if (optDesc) *optDesc = d;
   return m;
}

}  // namespace gencmd

#endif
