// In-process, single-threaded, single-stepped reflector harness: the real ReflectServer, sessions,
// gateways and sockets.  Clients are MessageIOGateway+TCPSocketDataIO on the other end of a socket
// pair; Pump() = {clients DoOutput; ServerProcessLoop(0); clients DoInput} until a full round moves
// no bytes and nobody has output pending: the quiescent point the properties speak of.
#ifndef VF_RHARNESS_H
#define VF_RHARNESS_H

#include "engine/harness.h"
#include "reflector/ReflectServer.h"
#include "reflector/StorageReflectSession.h"
#include "reflector/StorageReflectConstants.h"
#include "iogateway/MessageIOGateway.h"
#include "dataio/TCPSocketDataIO.h"
#include "regex/QueryFilter.h"
#include "regex/StringMatcher.h"
#include "regex/PathMatcher.h"
#include "util/NetworkUtilityFunctions.h"
#include "system/SetupSystem.h"
#include "syslog/SysLog.h"
#include <map>
#include <set>
#include <string>
#include <vector>
#include <functional>
#include <unistd.h>

namespace rh {

using namespace muscle;


// Session subclass: the library's extension mechanism.  Only places sessions under chosen host names
// and exposes protected read-only accessors for in-process observation.
class HSession : public StorageReflectSession
{
public:
   HSession(const std::string & host) : _host(host) {}
   DataNode & Root() const {return GetGlobalRoot();}
   const DataNodeRef & SNode() const {return GetSessionNode();}
   status_t FindNodes(const String & path, Queue<DataNodeRef> & ret) const {return FindMatchingNodes(path, ConstQueryFilterRef(), ret);}
   virtual String GenerateHostName(const IPAddress &, const String &) const {return _host.c_str();}
   // the global root node belongs to the sessions' shared state and is freed with the last session, so "the tree is empty when the
   // last session leaves" is observed from inside the last session's own departure, never through a root pointer kept by the harness
   virtual void AboutToDetachFromServer()
   {
      if ((g_strayNodesAtLastDetach)&&(GetSessions().GetNumItems() == 1)&&(GetSessionNode()()))
      {
         String mine; (void) GetSessionNode()()->GetNodePath(mine); const std::string me = mine();
         std::function<void(DataNode &)> walk = [&](DataNode & n){String np; (void) n.GetNodePath(np); const std::string p = np(); const bool isAncestorOrSelfOrBelow = (p.size() <= 1)||(me.compare(0, p.size(), p) == 0)||(p.compare(0, me.size(), me) == 0); if (isAncestorOrSelfOrBelow == false) g_strayNodesAtLastDetach->push_back(p); for (DataNodeRefIterator it = n.GetChildIterator(); it.HasData(); it++) walk(*it.GetValue()());};
         walk(GetGlobalRoot());
      }
      StorageReflectSession::AboutToDetachFromServer();
   }
   static std::vector<std::string> * g_strayNodesAtLastDetach;
   // What "some customized daemons" do with the protected subtree API: on a command of their own they copy one of their subtrees to a place where nothing is yet, either with
   // CloneDataNodeSubtree() or by saving it to a Message and restoring that elsewhere.  Everything else is the stock session.
   enum {CMD_COPY_SUBTREE = 1986421504};  // 'vfc\0'
   virtual void MessageReceivedFromGateway(const MessageRef & msg, void * userData)
   {
      if ((msg())&&(msg()->what == CMD_COPY_SUBTREE))
      {
         const String src = msg()->GetString("src"), dst = msg()->GetString("dst"); SetDataNodeFlags flags; if (msg()->GetBool("indexed")) flags.SetBit(SETDATANODE_FLAG_ADDTOINDEX);
         DataNode * s = GetDataNode(src);
         if ((s)&&(dst.HasChars())&&(GetDataNode(dst) == NULL))
         {
            if (msg()->GetBool("restore")) {Message saved; if (SaveNodeTreeToMessage(saved, s, "", true).IsOK()) (void) RestoreNodeTreeFromMessage(saved, dst, true, flags);}
                                      else (void) CloneDataNodeSubtree(*s, dst, flags);
         }
         return;
      }
      StorageReflectSession::MessageReceivedFromGateway(msg, userData);
   }
private:
   std::string _host;
};

std::vector<std::string> * HSession::g_strayNodesAtLastDetach = NULL;

inline std::string Flat(const Message & m) {ByteBufferRef b = m.FlattenToByteBuffer(); return b() ? std::string((const char *)b()->GetBuffer(), b()->GetNumBytes()) : std::string();}

struct Client
{
   ConstSocketRef sock; MessageIOGateway * gw; QueueGatewayMessageReceiver q; DataIORef io; HSession * sess; std::string root, host, id; bool connected; bool reading;
   Client() : gw(NULL), sess(NULL), connected(false), reading(true) {}
};

struct World
{
   ReflectServer * server; std::vector<Client *> c;
   std::function<void(int, const Message &)> onMessage;     // every Message a client receives, in arrival order
   World() : server(NULL) {}
   ~World() {for (size_t i=0; i<c.size(); i++) delete c[i];}

   void Start(int numClients) {server = new ReflectServer; server->SetDoLogging(false); for (int i=0; i<numClients; i++) c.push_back(new Client);}

   void Connect(int i, const std::string & host)
   {
      Client & cl = *c[i];
      ConstSocketRef a, b; if (CreateConnectedSocketPair(a, b, false).IsError()) vf::Fail("CreateConnectedSocketPair failed (harness)");
      HSession * hs = new HSession(host);
      if (server->AddNewSession(AbstractReflectSessionRef(hs), a).IsError()) vf::Fail("AddNewSession failed (harness)");
      cl.sess = hs; cl.sock = b; cl.gw = new MessageIOGateway; cl.io.SetRef(new TCPSocketDataIO(b, false)); cl.gw->SetDataIO(cl.io);
      cl.root = hs->GetSessionRootPath()(); cl.host = host; cl.id = hs->GetSessionIDString()(); cl.connected = true; cl.reading = true; cl.q.GetMessages().Clear();
   }
   // clean close: everything queued is written first
   void Disconnect(int i) {Client & cl = *c[i]; if (cl.connected == false) return; for (int r=0; (r<200)&&(cl.gw->HasBytesToOutput()); r++) {(void) cl.gw->DoOutput(); (void) server->ServerProcessLoop(0);} Close(i);}
   // cut: only the first (k) bytes of what is pending reach the server, then the connection ends
   uint32 Cut(int i, uint32 k)
   {
      Client & cl = *c[i]; if (cl.connected == false) return 0;
      uint32 sent = 0; for (int r=0; (r<400)&&(sent < k)&&(cl.gw->HasBytesToOutput()); r++) {const io_status_t w = cl.gw->DoOutput(k-sent); if (w.IsError()) break; sent += (uint32) muscleMax((int32)0, w.GetByteCount()); if (w.GetByteCount() <= 0) (void) server->ServerProcessLoop(0);}
      Close(i); return sent;
   }
   void Close(int i) {Client & cl = *c[i]; delete cl.gw; cl.gw = NULL; cl.io.Reset(); cl.sock.Reset(); cl.connected = false; cl.sess = NULL; cl.q.GetMessages().Clear();}

   status_t Send(int i, const MessageRef & m) {return c[i]->gw->AddOutgoingMessage(m);}

   // runs everything to quiescence
   void Pump()
   {
      int quiet = 0;
      for (int r=0; r<5000; r++)
      {
         int32 moved = 0; bool pending = false;
         for (size_t i=0; i<c.size(); i++) if (c[i]->connected) {const io_status_t w = c[i]->gw->DoOutput(); if (w.IsOK()) moved += w.GetByteCount(); if (c[i]->gw->HasBytesToOutput()) pending = true;}
         if (server->ServerProcessLoop(0).IsError()) {/* the loop reports an error when it has nothing left to serve; not ours to judge */}
         for (size_t i=0; i<c.size(); i++) if ((c[i]->connected)&&(c[i]->reading))
         {
            const io_status_t rd = c[i]->gw->DoInput(c[i]->q); if (rd.IsOK()) moved += rd.GetByteCount();
            MessageRef m; while(c[i]->q.GetMessages().RemoveHead(m).IsOK()) if ((m())&&(onMessage)) onMessage((int)i, *m());
         }
         if ((moved == 0)&&(pending == false)) {if (++quiet >= 3) return;} else quiet = 0;
      }
      vf::Fail("the server and its clients never became quiescent (5000 rounds)");
   }

   HSession * AnySession() const {for (size_t i=0; i<c.size(); i++) if (c[i]->connected) return c[i]->sess; return NULL;}

   void Stop()
   {
      for (size_t i=0; i<c.size(); i++) if (c[i]->connected) Close((int)i);
      for (int r=0; r<6; r++) (void) server->ServerProcessLoop(0);
      server->Cleanup();
      delete server; server = NULL;
   }
};

struct NodeInfo {ConstMessageRef data; std::vector<std::string> index; std::vector<std::string> children; std::set<std::string> subscribers;};

inline void WalkTree(DataNode & n, std::map<std::string, NodeInfo> & out)
{
   String np; (void) n.GetNodePath(np);
   NodeInfo & ni = out[np()];
   ni.data = n.GetData();
   const Queue<DataNodeRef> * ix = n.GetIndex(); if (ix) for (uint32 i=0; i<ix->GetNumItems(); i++) ni.index.push_back((*ix)[i]()->GetNodeName()());
   for (ConstHashtableIterator<uint32, uint32> it(n.GetSubscribers()); it.HasData(); it++) {char b[32]; snprintf(b, sizeof(b), "%u", it.GetKey()); ni.subscribers.insert(b);}
   for (DataNodeRefIterator it = n.GetChildIterator(); it.HasData(); it++) {ni.children.push_back(it.GetValue()()->GetNodeName()()); WalkTree(*it.GetValue()(), out);}
}

inline std::vector<std::string> SplitPath(const std::string & p) {std::vector<std::string> v; size_t i = (p.size() && p[0] == '/') ? 1 : 0; while(i <= p.size()) {size_t j = p.find('/', i); if (j == std::string::npos) j = p.size(); v.push_back(p.substr(i, j-i)); i = j+1;} return v;}

// clause-by-clause match of a pattern path against a node path, each clause by StringMatcher (whose semantics are C15's subject)
inline bool PathMatch(const std::string & pat, const std::string & path)
{
   const std::vector<std::string> a = SplitPath(pat), b = SplitPath(path);
   if (a.size() != b.size()) return false;
   for (size_t i=0; i<a.size(); i++)
   {
      if (a[i] == "*") continue;
      static std::map<std::string, StringMatcher *> cache;     // compiling a pattern (regcomp) costs far more than matching
      StringMatcher * & sm = cache[a[i]]; if (sm == NULL) sm = new StringMatcher(a[i].c_str());
      if (sm->Match(b[i].c_str()) == false) return false;
   }
   return true;
}

// a relative subscription/key path gets the implicit "/*/*/" prefix
inline std::string Absolute(const std::string & p) {return ((p.size())&&(p[0] == '/')) ? p : ("/*/*/"+p);}

}  // namespace rh

#endif
