// Build / walk helpers that put the reference model (refmsg::MMsg) into and read it back out of
// the C Message implementations (MiniMessage = MM*, MicroMessage = UM*).
#ifndef VF_CBUILD_H
#define VF_CBUILD_H

#include "models/refmsg.h"
#include "lang/c/minimessage/MiniMessage.h"
#include "lang/c/micromessage/MicroMessage.h"

namespace cbuild {

using namespace refmsg;

// ---- MicroMessage -------------------------------------------------------------------------------
// builds the model into a UMessage that is being assembled in place (a field's items are added together, nested Messages in line)
inline bool BuildUM(UMessage * um, const MMsg & mod)
{
   for (size_t i=0; i<mod.f.size(); i++)
   {
      const MField & f = mod.f[i]; if (f.flattenable == false) continue;
      const char * fn = f.name.c_str(); const uint32 n = (uint32) f.items.size(); c_status_t r = CB_NO_ERROR;
      std::string all; for (uint32 k=0; k<n; k++) all += f.items[k];
      switch(f.tc)
      {
         case B_BOOL_TYPE:   {std::vector<UBool> v(n); for (uint32 k=0; k<n; k++) v[k] = f.items[k][0] ? UTrue : UFalse; r = UMAddBools(um, fn, &v[0], n);} break;
         case B_INT8_TYPE:   r = UMAddInt8s(um, fn, (const int8 *)all.data(), n); break;
         case B_INT16_TYPE:  {std::vector<int16> v(n); memcpy(&v[0], all.data(), all.size()); r = UMAddInt16s(um, fn, &v[0], n);} break;
         case B_INT32_TYPE:  {std::vector<int32> v(n); memcpy(&v[0], all.data(), all.size()); r = UMAddInt32s(um, fn, &v[0], n);} break;
         case B_INT64_TYPE:  {std::vector<int64> v(n); memcpy(&v[0], all.data(), all.size()); r = UMAddInt64s(um, fn, &v[0], n);} break;
         case B_FLOAT_TYPE:  {std::vector<float> v(n); memcpy(&v[0], all.data(), all.size()); r = UMAddFloats(um, fn, &v[0], n);} break;
         case B_DOUBLE_TYPE: {std::vector<double> v(n); memcpy(&v[0], all.data(), all.size()); r = UMAddDoubles(um, fn, &v[0], n);} break;
         case B_POINT_TYPE:  {std::vector<UPoint> v(n); memcpy(&v[0], all.data(), all.size()); r = UMAddPoints(um, fn, &v[0], n);} break;
         case B_RECT_TYPE:   {std::vector<URect> v(n); memcpy(&v[0], all.data(), all.size()); r = UMAddRects(um, fn, &v[0], n);} break;
         case B_STRING_TYPE: {std::vector<const char *> v(n); for (uint32 k=0; k<n; k++) v[k] = f.items[k].c_str(); r = UMAddStrings(um, fn, &v[0], n);} break;
         case B_MESSAGE_TYPE: for (uint32 k=0; k<n; k++) {UMessage sub = UMInlineAddMessage(um, fn, f.subs[k]->what); if (UMIsMessageValid(&sub) == UFalse) return false; if (BuildUM(&sub, *f.subs[k]) == false) return false;} break;
         default: for (uint32 k=0; k<n; k++) if (UMAddData(um, fn, f.tc, f.items[k].data(), (uint32)f.items[k].size()) != CB_NO_ERROR) return false; break;
      }
      if (r != CB_NO_ERROR) return false;
   }
   return true;
}

// read-side walk of a UMessage, compared with the model
inline void WalkUM(const UMessage * um, const MMsg & mod, const std::string & where)
{
   if (UMGetWhatCode(um) != mod.what) vf::Fail("%s: micro what %u, model %u", where.c_str(), UMGetWhatCode(um), mod.what);
   UMessageFieldNameIterator it; UMIteratorInitialize(&it, um, B_ANY_TYPE);
   size_t i = 0;
   for (; ; i++)
   {
      uint32 n = 0, tc = 0; const char * fn = UMIteratorGetCurrentFieldName(&it, &n, &tc);
      if (fn == NULL) break;
      if (i >= mod.f.size()) vf::Fail("%s: micro iterates more fields than the model has", where.c_str());
      const MField & f = mod.f[i];
      if (f.name != fn) vf::Fail("%s: micro field %zu is [%s], model [%s]", where.c_str(), i, vf::Esc(fn).c_str(), vf::Esc(f.name).c_str());
      if (tc != f.tc) vf::Fail("%s: micro field [%s] type %u, model %u", where.c_str(), vf::Esc(fn).c_str(), tc, f.tc);
      if (n != f.items.size()) vf::Fail("%s: micro field [%s] has %u items, model %zu", where.c_str(), vf::Esc(fn).c_str(), n, f.items.size());
      for (uint32 k=0; k<n; k++)
      {
         std::string got;
         switch(tc)
         {
            case B_BOOL_TYPE:   {UBool v = 0; if (UMFindBool(um, fn, k, &v) != CB_NO_ERROR) vf::Fail("%s: UMFindBool", where.c_str()); got = std::string(1, v ? (char)1 : (char)0);} break;
            case B_INT8_TYPE:   {int8 v = 0; if (UMFindInt8(um, fn, k, &v) != CB_NO_ERROR) vf::Fail("%s: UMFindInt8", where.c_str()); got = Bytes(&v, 1);} break;
            case B_INT16_TYPE:  {int16 v = 0; if (UMFindInt16(um, fn, k, &v) != CB_NO_ERROR) vf::Fail("%s: UMFindInt16", where.c_str()); got = Bytes(&v, 2);} break;
            case B_INT32_TYPE:  {int32 v = 0; if (UMFindInt32(um, fn, k, &v) != CB_NO_ERROR) vf::Fail("%s: UMFindInt32", where.c_str()); got = Bytes(&v, 4);} break;
            case B_INT64_TYPE:  {int64 v = 0; if (UMFindInt64(um, fn, k, &v) != CB_NO_ERROR) vf::Fail("%s: UMFindInt64", where.c_str()); got = Bytes(&v, 8);} break;
            case B_FLOAT_TYPE:  {float v = 0; if (UMFindFloat(um, fn, k, &v) != CB_NO_ERROR) vf::Fail("%s: UMFindFloat", where.c_str()); got = Bytes(&v, 4);} break;
            case B_DOUBLE_TYPE: {double v = 0; if (UMFindDouble(um, fn, k, &v) != CB_NO_ERROR) vf::Fail("%s: UMFindDouble", where.c_str()); got = Bytes(&v, 8);} break;
            case B_POINT_TYPE:  {UPoint v; if (UMFindPoint(um, fn, k, &v) != CB_NO_ERROR) vf::Fail("%s: UMFindPoint", where.c_str()); got = Bytes(&v, 8);} break;
            case B_RECT_TYPE:   {URect v; if (UMFindRect(um, fn, k, &v) != CB_NO_ERROR) vf::Fail("%s: UMFindRect", where.c_str()); got = Bytes(&v, 16);} break;
            case B_STRING_TYPE: {const char * s = UMGetString(um, fn, k); if (s == NULL) vf::Fail("%s: UMGetString(%s,%u) returned NULL", where.c_str(), vf::Esc(fn).c_str(), k); got = std::string(s)+std::string(1, '\0');} break;
            case B_MESSAGE_TYPE: {UMessage sub; if (UMFindMessage(um, fn, k, &sub) != CB_NO_ERROR) vf::Fail("%s: UMFindMessage(%s,%u) failed", where.c_str(), vf::Esc(fn).c_str(), k); WalkUM(&sub, *f.subs[k], where+"/"+f.name); got = f.items[k];} break;
            default: {const void * p = NULL; uint32 nb = 0; if (UMFindData(um, fn, tc, k, &p, &nb) != CB_NO_ERROR) {if (f.items[k].size() == 0) {vf::Count("observation_micro_cannot_return_a_zero_length_item"); continue;} /* observation, not claimed: a zero-length item that ends the field has no byte to point at and UMFindData reports an error (Message::FindData does the same) */ vf::Fail("%s: UMFindData(%s,%u) failed", where.c_str(), vf::Esc(fn).c_str(), k);} got = Bytes(p, nb);} break;
         }
         if (got != f.items[k]) vf::Fail("%s: micro field [%s] item %u is %s, model %s", where.c_str(), vf::Esc(fn).c_str(), k, vf::Hex(got.data(), got.size()).c_str(), vf::Hex(f.items[k].data(), f.items[k].size()).c_str());
      }
      UMIteratorAdvance(&it);
   }
   if (i != mod.f.size()) vf::Fail("%s: micro iterates %zu fields, model has %zu", where.c_str(), i, mod.f.size());
}

// ---- MiniMessage --------------------------------------------------------------------------------
inline MMessage * BuildMM(const MMsg & mod)
{
   MMessage * mm = MMAllocMessage(mod.what); if (mm == NULL) return NULL;
   for (size_t i=0; i<mod.f.size(); i++)
   {
      const MField & f = mod.f[i]; if (f.flattenable == false) continue;
      const char * realName = f.name.c_str(); const uint32 n = (uint32) f.items.size(); bool ok = true;
      // a third of the fields are put under a longer working name and renamed to their real (shorter) name, a third under a shorter one and renamed to the longer: the way an
      // application fills in a Message from a template.  (The field is the last one at that moment, so the order of the fields is the model's either way.)
      std::string tmpName; const uint32 how = (uint32)((i+n+f.name.size())%3);
      if (how == 0) tmpName = "~working~name~"+std::to_string(i)+"~"+std::string(f.name.size(), 'x'); else if ((how == 1)&&(f.name.size() >= 3)) tmpName = "~"+std::to_string(i%10);
      const char * fn = tmpName.size() ? tmpName.c_str() : realName;
      std::string all; for (uint32 k=0; k<n; k++) all += f.items[k];
      switch(f.tc)
      {
         case B_BOOL_TYPE:   {MBool * a = MMPutBoolField(mm, MFalse, fn, n); if (a) for (uint32 k=0; k<n; k++) a[k] = f.items[k][0] ? MTrue : MFalse; else ok = false;} break;
         case B_INT8_TYPE:   {int8 * a = MMPutInt8Field(mm, MFalse, fn, n); if (a) memcpy(a, all.data(), all.size()); else ok = false;} break;
         case B_INT16_TYPE:  {int16 * a = MMPutInt16Field(mm, MFalse, fn, n); if (a) memcpy(a, all.data(), all.size()); else ok = false;} break;
         case B_INT32_TYPE:  {int32 * a = MMPutInt32Field(mm, MFalse, fn, n); if (a) memcpy(a, all.data(), all.size()); else ok = false;} break;
         case B_INT64_TYPE:  {int64 * a = MMPutInt64Field(mm, MFalse, fn, n); if (a) memcpy(a, all.data(), all.size()); else ok = false;} break;
         case B_FLOAT_TYPE:  {float * a = MMPutFloatField(mm, MFalse, fn, n); if (a) memcpy(a, all.data(), all.size()); else ok = false;} break;
         case B_DOUBLE_TYPE: {double * a = MMPutDoubleField(mm, MFalse, fn, n); if (a) memcpy(a, all.data(), all.size()); else ok = false;} break;
         case B_POINT_TYPE:  {MPoint * a = MMPutPointField(mm, MFalse, fn, n); if (a) memcpy(a, all.data(), all.size()); else ok = false;} break;
         case B_RECT_TYPE:   {MRect * a = MMPutRectField(mm, MFalse, fn, n); if (a) memcpy(a, all.data(), all.size()); else ok = false;} break;
         case B_STRING_TYPE: {MByteBuffer ** a = MMPutStringField(mm, MFalse, fn, n); if (a) for (uint32 k=0; k<n; k++) {a[k] = MBStrdupByteBuffer(f.items[k].c_str()); if (a[k] == NULL) ok = false;} else ok = false;} break;
         case B_MESSAGE_TYPE: {MMessage ** a = MMPutMessageField(mm, MFalse, fn, n); if (a) for (uint32 k=0; k<n; k++) {a[k] = BuildMM(*f.subs[k]); if (a[k] == NULL) ok = false;} else ok = false;} break;
         default: {MByteBuffer ** a = MMPutDataField(mm, MFalse, f.tc, fn, n); if (a) for (uint32 k=0; k<n; k++) {a[k] = MBAllocByteBuffer((uint32)f.items[k].size(), MFalse); if (a[k]) memcpy(&a[k]->bytes, f.items[k].data(), f.items[k].size()); else ok = false;} else ok = false;} break;
      }
      if ((ok)&&(tmpName.size())) {if (MMRenameField(mm, fn, realName) != CB_NO_ERROR) vf::Fail("MMRenameField(%s -> %s) failed", fn, realName); vf::Count((how == 0) ? "mini_field_renamed_to_a_shorter_name" : "mini_field_renamed_to_a_longer_name");}
      if (ok == false) {MMFreeMessage(mm); return NULL;}
   }
   return mm;
}

inline void WalkMM(const MMessage * mm, const MMsg & mod, const std::string & where)
{
   if (MMGetWhat(mm) != mod.what) vf::Fail("%s: mini what %u, model %u", where.c_str(), MMGetWhat(mm), mod.what);
   MMessageIterator it = MMGetFieldNameIterator(mm, B_ANY_TYPE);
   size_t i = 0;
   for (; ; i++)
   {
      uint32 tc = 0; const char * fn = MMGetNextFieldName(&it, &tc);
      if (fn == NULL) break;
      if (i >= mod.f.size()) vf::Fail("%s: mini iterates more fields than the model has", where.c_str());
      const MField & f = mod.f[i];
      if (f.name != fn) vf::Fail("%s: mini field %zu is [%s], model [%s]", where.c_str(), i, vf::Esc(fn).c_str(), vf::Esc(f.name).c_str());
      if (tc != f.tc) vf::Fail("%s: mini field [%s] type %u, model %u", where.c_str(), vf::Esc(fn).c_str(), tc, f.tc);
      uint32 n = 0; std::vector<std::string> got;
      switch(tc)
      {
         case B_BOOL_TYPE:   {const MBool * a = MMGetBoolField(mm, fn, &n); for (uint32 k=0; (a)&&(k<n); k++) got.push_back(std::string(1, a[k] ? (char)1 : (char)0));} break;
         case B_INT8_TYPE:   {const int8 * a = MMGetInt8Field(mm, fn, &n); for (uint32 k=0; (a)&&(k<n); k++) got.push_back(Bytes(&a[k], 1));} break;
         case B_INT16_TYPE:  {const int16 * a = MMGetInt16Field(mm, fn, &n); for (uint32 k=0; (a)&&(k<n); k++) got.push_back(Bytes(&a[k], 2));} break;
         case B_INT32_TYPE:  {const int32 * a = MMGetInt32Field(mm, fn, &n); for (uint32 k=0; (a)&&(k<n); k++) got.push_back(Bytes(&a[k], 4));} break;
         case B_INT64_TYPE:  {const int64 * a = MMGetInt64Field(mm, fn, &n); for (uint32 k=0; (a)&&(k<n); k++) got.push_back(Bytes(&a[k], 8));} break;
         case B_FLOAT_TYPE:  {const float * a = MMGetFloatField(mm, fn, &n); for (uint32 k=0; (a)&&(k<n); k++) got.push_back(Bytes(&a[k], 4));} break;
         case B_DOUBLE_TYPE: {const double * a = MMGetDoubleField(mm, fn, &n); for (uint32 k=0; (a)&&(k<n); k++) got.push_back(Bytes(&a[k], 8));} break;
         case B_POINT_TYPE:  {const MPoint * a = MMGetPointField(mm, fn, &n); for (uint32 k=0; (a)&&(k<n); k++) got.push_back(Bytes(&a[k], 8));} break;
         case B_RECT_TYPE:   {const MRect * a = MMGetRectField(mm, fn, &n); for (uint32 k=0; (a)&&(k<n); k++) got.push_back(Bytes(&a[k], 16));} break;
         case B_STRING_TYPE: {MByteBuffer ** a = MMGetStringField(mm, fn, &n); for (uint32 k=0; (a)&&(k<n); k++) got.push_back(a[k] ? Bytes(&a[k]->bytes, a[k]->numBytes) : std::string("<NULL>"));} break;
         case B_MESSAGE_TYPE: {MMessage ** a = MMGetMessageField(mm, fn, &n); for (uint32 k=0; (a)&&(k<n); k++) {if ((a[k] == NULL)||(k >= f.subs.size())) vf::Fail("%s: mini message field [%s] item %u", where.c_str(), vf::Esc(fn).c_str(), k); WalkMM(a[k], *f.subs[k], where+"/"+f.name); got.push_back(f.items[k]);}} break;
         default: {MByteBuffer ** a = MMGetDataField(mm, tc, fn, &n); for (uint32 k=0; (a)&&(k<n); k++) got.push_back(a[k] ? Bytes(&a[k]->bytes, a[k]->numBytes) : std::string("<NULL>"));} break;
      }
      if (n != f.items.size()) vf::Fail("%s: mini field [%s] has %u items, model %zu", where.c_str(), vf::Esc(fn).c_str(), n, f.items.size());
      for (uint32 k=0; k<n; k++) if (got[k] != f.items[k]) vf::Fail("%s: mini field [%s] item %u is %s, model %s", where.c_str(), vf::Esc(fn).c_str(), k, vf::Hex(got[k].data(), got[k].size()).c_str(), vf::Hex(f.items[k].data(), f.items[k].size()).c_str());
   }
   if (i != mod.f.size()) vf::Fail("%s: mini iterates %zu fields, model has %zu", where.c_str(), i, mod.f.size());
}

// text rendering of the model for the Python peer: one token stream, bytes in hex
inline void Dump(const MMsg & m, std::string & out)
{
   char b[64]; snprintf(b, sizeof(b), "W %u\n", m.what); out += b;
   for (size_t i=0; i<m.f.size(); i++)
   {
      const MField & f = m.f[i]; if (f.flattenable == false) continue;
      out += "F "+vf::Hex(f.name.data(), f.name.size(), 1u<<20); if (f.name.empty()) out += "-";
      snprintf(b, sizeof(b), " %u %zu\n", f.tc, f.items.size()); out += b;
      for (size_t k=0; k<f.items.size(); k++)
      {
         if (f.tc == B_MESSAGE_TYPE) {out += "M\n"; Dump(*f.subs[k], out); out += "E\n";}
         else {out += "I "+vf::Hex(f.items[k].data(), f.items[k].size(), 1u<<20); if (f.items[k].empty()) out += "-"; out += "\n";}
      }
   }
}

}  // namespace cbuild

#endif
