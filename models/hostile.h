// Structure-aware byte mutator for hostile-input checks: maps where every magic / count / length /
// type word sits in a valid flattened Message (by parsing the documented layout), then applies
// truncations, boundary-value word substitutions, type swaps, record duplication, noise.
#ifndef VF_HOSTILE_H
#define VF_HOSTILE_H

#include "engine/harness.h"
#include <string>
#include <vector>

namespace hostile {

enum {W_MAGIC, W_WHAT, W_NUMFIELDS, W_NAMELEN, W_TYPE, W_PAYLOADLEN, W_ITEMCOUNT, W_ITEMLEN};
struct Word {uint32_t off; uint8_t kind; uint32_t val; uint32_t fieldStart, fieldEnd;};

inline uint32_t rd32(const std::string & b, size_t o) {return (o+4 <= b.size()) ? ((uint32_t)(uint8_t)b[o] | ((uint32_t)(uint8_t)b[o+1]<<8) | ((uint32_t)(uint8_t)b[o+2]<<16) | ((uint32_t)(uint8_t)b[o+3]<<24)) : 0;}
inline void wr32(std::string & b, size_t o, uint32_t v) {for (int i=0; i<4; i++) if (o+i < b.size()) b[o+i] = (char)(v>>(8*i));}

inline bool IsFixedType(uint32_t tc) {return (tc == 1112493900)||(tc == 1113150533)||(tc == 1397248596)||(tc == 1280265799)||(tc == 1280069191)||(tc == 1179406164)||(tc == 1145195589)||(tc == 1112559188)||(tc == 1380270932);}   // BOOL BYTE SHRT LONG LLNG FLOT DBLE BPNT RECT

// Parses the documented layout leniently (stops at the first inconsistency) and records the meta words.
inline void MapWords(const std::string & b, size_t base, size_t end, std::vector<Word> & out, int depth = 0)
{
   if ((end > b.size())||(base+12 > end)||(depth > 8)) return;
   Word w; w.fieldStart = w.fieldEnd = 0;
   w.off = (uint32_t)base; w.kind = W_MAGIC; w.val = rd32(b, base); out.push_back(w);
   w.off = (uint32_t)base+4; w.kind = W_WHAT; w.val = rd32(b, base+4); out.push_back(w);
   const uint32_t nf = rd32(b, base+8); w.off = (uint32_t)base+8; w.kind = W_NUMFIELDS; w.val = nf; out.push_back(w);
   size_t p = base+12;
   for (uint32_t i=0; (i<nf)&&(p+4 <= end); i++)
   {
      const size_t fstart = p;
      const uint32_t nl = rd32(b, p); if (p+4+nl+8 > end) return;
      const uint32_t tc = rd32(b, p+4+nl); const uint32_t pl = rd32(b, p+4+nl+4); const size_t pay = p+4+nl+8;
      if (pay+pl > end) return;
      const size_t fend = pay+pl;
      Word x; x.fieldStart = (uint32_t)fstart; x.fieldEnd = (uint32_t)fend;
      x.off = (uint32_t)p; x.kind = W_NAMELEN; x.val = nl; out.push_back(x);
      x.off = (uint32_t)(p+4+nl); x.kind = W_TYPE; x.val = tc; out.push_back(x);
      x.off = (uint32_t)(p+4+nl+4); x.kind = W_PAYLOADLEN; x.val = pl; out.push_back(x);
      if (IsFixedType(tc)) {/* items back to back */}
      else if (tc == 1297303367)   // MSGG: {len bytes}*
      {
         size_t q = pay; while(q+4 <= fend) {const uint32_t il = rd32(b, q); x.off = (uint32_t)q; x.kind = W_ITEMLEN; x.val = il; out.push_back(x); if (q+4+il > fend) break; MapWords(b, q+4, q+4+il, out, depth+1); q += 4+il;}
      }
      else
      {
         if (pay+4 <= fend) {x.off = (uint32_t)pay; x.kind = W_ITEMCOUNT; x.val = rd32(b, pay); out.push_back(x);}
         size_t q = pay+4; while(q+4 <= fend) {const uint32_t il = rd32(b, q); x.off = (uint32_t)q; x.kind = W_ITEMLEN; x.val = il; out.push_back(x); if (q+4+il > fend) break; q += 4+il;}
      }
      p = fend;
   }
}

static const uint32_t KNOWN_TYPES[] = {1112493900, 1113150533, 1397248596, 1280265799, 1280069191, 1179406164, 1145195589, 1112559188, 1380270932, 1129534546 /*CSTR*/, 1297303367 /*MSGG*/, 1380013908 /*RAWT*/, 1347310674 /*PNTR*/, 1297367367 /*MTAG*/, 1330792020 /*OBJT*/, 1095653716 /*ANYT*/, 0x12345678};

struct Stats {uint32_t truncations, wordSubs, typeSwaps, dups, noise, appended; Stats() : truncations(0), wordSubs(0), typeSwaps(0), dups(0), noise(0), appended(0) {}};

inline uint32_t BoundaryValue(vf::BS & bs, uint32_t orig, uint32_t remaining)
{
   switch(bs.u8()%20)
   {
      case 0: return 0;                 case 1: return 1;               case 2: return orig-1;           case 3: return orig+1;
      case 4: return remaining-1;       case 5: return remaining;       case 6: return remaining+1;      case 7: return 0x7FFFFFFFu;
      case 8: return 0x80000000u;       case 9: return 0xFFFFFFF8u+(bs.u8()%8);                           case 10: return 0x0FFFFFFFu;
      case 11: return 0x00FFFFFFu;      case 12: return orig*2;         case 13: return orig+4;          case 14: return (remaining >= 4) ? remaining-4 : 0;
      case 15: return 0x3FFFFFFFu;      case 16: return 0x40000000u;    case 17: return bs.u8();         case 18: return bs.u16();
      default: return bs.u32();
   }
}

// Applies 1..4 mutations chosen by (bs) to a valid encoding.
inline std::string Mutate(const std::string & valid, vf::BS & bs, Stats & st)
{
   std::string b = valid;
   const uint32_t nm = 1+(bs.u8()%4);
   for (uint32_t m=0; m<nm; m++)
   {
      std::vector<Word> words; MapWords(b, 0, b.size(), words);
      const uint8_t kind = bs.u8()%12;
      if ((kind <= 4)&&(words.size() > 0))
      {
         // boundary value into a length / count / type / magic word
         const Word & w = words[bs.u16()%words.size()];
         wr32(b, w.off, BoundaryValue(bs, w.val, (uint32_t)(b.size()-w.off-4))); st.wordSubs++;
      }
      else if ((kind <= 6)&&(b.size() > 0))
      {
         // truncation: inside a word, right after a word, or anywhere
         size_t cut;
         if ((words.size() > 0)&&(bs.u8()%4 != 0)) {const Word & w = words[bs.u16()%words.size()]; cut = w.off+(bs.u8()%6);} else cut = bs.u16()%(b.size()+1);
         if (cut < b.size()) {b.resize(cut); st.truncations++;}
      }
      else if ((kind == 7)&&(words.size() > 0))
      {
         std::vector<size_t> tw; for (size_t i=0; i<words.size(); i++) if (words[i].kind == W_TYPE) tw.push_back(i);
         if (tw.size()) {const Word & w = words[tw[bs.u8()%tw.size()]]; wr32(b, w.off, KNOWN_TYPES[bs.u8()%(sizeof(KNOWN_TYPES)/sizeof(KNOWN_TYPES[0]))]); st.typeSwaps++;}
      }
      else if ((kind == 8)&&(words.size() > 0))
      {
         // duplicate (or move) a whole top-level field record and fix up the field count
         std::vector<size_t> fw; for (size_t i=0; i<words.size(); i++) if ((words[i].kind == W_NAMELEN)&&(words[i].fieldEnd <= b.size())) fw.push_back(i);
         if (fw.size()) {const Word & w = words[fw[bs.u8()%fw.size()]]; const std::string rec = b.substr(w.fieldStart, w.fieldEnd-w.fieldStart); if (b.size()+rec.size() < 300000) {b += rec; if (bs.flip()) wr32(b, 8, rd32(b, 8)+1); st.dups++;}}
      }
      else if ((kind == 9)&&(b.size() > 0)) {const uint32_t n = 1+(bs.u8()%4); for (uint32_t i=0; i<n; i++) b[bs.u16()%b.size()] = (char)bs.u8(); st.noise++;}
      else if (kind == 10) {const uint32_t n = bs.u8()%24; for (uint32_t i=0; i<n; i++) b.push_back((char)bs.u8()); st.appended++;}
      else if ((kind == 11)&&(b.size() >= 4)) {const size_t o = (bs.u16()%(b.size()/4))*4; wr32(b, o, BoundaryValue(bs, rd32(b, o), (uint32_t)(b.size()-o-4))); st.wordSubs++;}   // any aligned word
   }
   return b;
}

// A Message nested (depth) levels deep, written directly from the layout: {what=0, m: Message{...}}
inline std::string DeepNest(uint32_t depth)
{
   std::string inner; {const char z[12] = {0x30,0x30,0x4d,0x50, 1,0,0,0, 0,0,0,0}; inner.assign(z, 12);}
   for (uint32_t d=0; d<depth; d++)
   {
      std::string o; const char hdr[12] = {0x30,0x30,0x4d,0x50, 0,0,0,0, 1,0,0,0}; o.assign(hdr, 12);
      const char nm[6] = {2,0,0,0,'m',0}; o.append(nm, 6);
      std::string t(4, 0); wr32(t, 0, 1297303367); o += t;                       // MSGG
      std::string pl(4, 0); wr32(pl, 0, (uint32_t)inner.size()+4); o += pl;        // payload length
      std::string il(4, 0); wr32(il, 0, (uint32_t)inner.size()); o += il; o += inner;
      inner.swap(o);
   }
   return inner;
}

}  // namespace hostile

#endif
