// Model Message + reference encoder for the documented wire layout + byte-driven generator that
// applies the same public-API operations to a real muscle::Message and to the model.
// The encoder works on the model only, so it is independent of the code under test.
#ifndef VF_REFMSG_H
#define VF_REFMSG_H

#include "engine/harness.h"
#include "message/Message.h"
#include "util/ByteBuffer.h"
#include <string>
#include <vector>
#include <memory>

namespace refmsg {

using namespace muscle;

struct MMsg;
struct MField
{
   std::string name; uint32 tc; bool flattenable;
   std::vector<std::string> items;                 // on-wire payload of each item (no length prefixes)
   std::vector<std::shared_ptr<MMsg> > subs;       // for B_MESSAGE_TYPE: the nested models, parallel to items
   MField() : tc(0), flattenable(true) {}
};
struct MMsg
{
   uint32 what; std::vector<MField> f;
   MMsg() : what(0) {}
   int find(const std::string & n) const {for (size_t i=0; i<f.size(); i++) if (f[i].name == n) return (int)i; return -1;}
};

inline void put32(std::string & o, uint32 x) {for (int i=0; i<4; i++) o.push_back((char)(x>>(8*i)));}
inline bool IsFixed(uint32 tc) {switch(tc) {case B_BOOL_TYPE: case B_INT8_TYPE: case B_INT16_TYPE: case B_INT32_TYPE: case B_INT64_TYPE: case B_FLOAT_TYPE: case B_DOUBLE_TYPE: case B_POINT_TYPE: case B_RECT_TYPE: return true; default: return false;}}
inline uint32 FixedSize(uint32 tc) {switch(tc) {case B_BOOL_TYPE: case B_INT8_TYPE: return 1; case B_INT16_TYPE: return 2; case B_INT32_TYPE: case B_FLOAT_TYPE: return 4; case B_INT64_TYPE: case B_DOUBLE_TYPE: case B_POINT_TYPE: return 8; case B_RECT_TYPE: return 16; default: return 0;}}

// The documented layout (comment block in Message::Flatten and the per-type notes):
//   'PM00' what numFields { nameLen(incl NUL) name NUL typeCode payloadLen payload }
//   fixed-size types: items back to back; B_MESSAGE_TYPE: {len bytes}* (no item count);
//   every other type: itemCount {len bytes}* ; everything little-endian; non-flattenable fields omitted.
inline std::string Encode(const MMsg & m)
{
   std::string o; put32(o, 1347235888); put32(o, m.what);
   uint32 nf = 0; for (size_t i=0; i<m.f.size(); i++) if (m.f[i].flattenable) nf++;
   put32(o, nf);
   for (size_t i=0; i<m.f.size(); i++)
   {
      const MField & f = m.f[i]; if (f.flattenable == false) continue;
      put32(o, (uint32)f.name.size()+1); o += f.name; o.push_back('\0'); put32(o, f.tc);
      std::string pay;
      if (IsFixed(f.tc)) {for (size_t k=0; k<f.items.size(); k++) pay += f.items[k];}
      else if (f.tc == B_MESSAGE_TYPE) {for (size_t k=0; k<f.items.size(); k++) {put32(pay, (uint32)f.items[k].size()); pay += f.items[k];}}
      else {put32(pay, (uint32)f.items.size()); for (size_t k=0; k<f.items.size(); k++) {put32(pay, (uint32)f.items[k].size()); pay += f.items[k];}}
      put32(o, (uint32)pay.size()); o += pay;
   }
   return o;
}

struct GenOpts
{
   bool commonRepertoire;    // C08: only what every implementation can hold (no pointer/tag fields, no zero-length raw items, raw items only as B_RAW_TYPE)
   bool pythonSafe;          // C08: valid UTF-8 strings and names, no NaN inside Point/Rect
   bool allowBursts;         // fields of 17 / 300 items
   bool allowNonFlattenable; // pointer and tag fields
   int  maxDepth;
   uint32 maxTopOps;
   bool allowZeroItemFields; // C01: fields emptied through a sharing Message stay, with no items
   bool allowZeroLenRaw;     // zero-length raw items inside the common repertoire (C08 parse legs; the C builders cannot make them)
   bool allowEmptiedInPlace; // C01: zero-length raw items whose ByteBuffer was emptied in place (allocation retained)
   bool allowCopies;         // C01: copies of the Message under construction (kept and re-checked at the end, or modified at once), fields swapped out and back, contents swapped
   GenOpts() : commonRepertoire(false), pythonSafe(false), allowBursts(true), allowNonFlattenable(true), maxDepth(4), maxTopOps(28), allowZeroItemFields(false), allowZeroLenRaw(false), allowEmptiedInPlace(false), allowCopies(false) {}
};

struct GenStats
{
   bool hasNaN, crossedInlineArray, hasNonFlattenable, hasZeroLenRaw, hasZeroItemField, sharedSub, heldCopy, mutatedCopy, swappedField, emptiedInPlace; int maxDepth; uint32 numOps; uint32 typesMask; uint32 maxItems;
   GenStats() : hasNaN(false), crossedInlineArray(false), hasNonFlattenable(false), hasZeroLenRaw(false), hasZeroItemField(false), sharedSub(false), heldCopy(false), mutatedCopy(false), swappedField(false), emptiedInPlace(false), maxDepth(0), numOps(0), typesMask(0), maxItems(0) {}
};

static const char * const NAMES[] = {"a", "b", "cc", "", "a_much_longer_field_name_123", "caf\xC3\xA9", "\xE2\x82\xAC", "!SnKy", "x y"};
static const uint32 TYPES[] = {B_INT32_TYPE, B_STRING_TYPE, B_BOOL_TYPE, B_DOUBLE_TYPE, B_RAW_TYPE, B_MESSAGE_TYPE, B_INT8_TYPE, B_INT64_TYPE, B_POINT_TYPE, 0x12345678, B_FLOAT_TYPE, B_RECT_TYPE, B_INT16_TYPE};
enum {NUM_NAMES = 9, NUM_TYPES = 13};

inline std::string Bytes(const void * p, size_t n) {return std::string((const char *)p, n);}

class Generator
{
public:
   Generator(vf::BS & bs, const GenOpts & o) : _bs(bs), _o(o) {}
   GenStats st;

   void Gen(int depth, Message & msg, MMsg & mod)
   {
      if (depth > st.maxDepth) st.maxDepth = depth;
      msg.what = mod.what = (_bs.u8()%8 == 7) ? 0xFFFFFFFFu : (uint32)(_bs.u8()%4);
      const uint32 nops = _bs.u8()%(depth ? 6 : _o.maxTopOps);
      for (uint32 o=0; o<nops; o++) {Op(depth, msg, mod); st.numOps++;}
      if (depth == 0) VerifyHeldCopies();
   }

   // a copy of a Message is a Message of its own: whatever was done to the original after the copy was taken, the copy still serialises to the bytes it had then
   void VerifyHeldCopies()
   {
      for (size_t i=0; i<_held.size(); i++) {const std::string now = FlatBytes(*_held[i].first()); if (now != _held[i].second) vf::Fail("a copy taken of a Message (%zu bytes flattened) changed when the original was modified afterwards (now %zu bytes)", _held[i].second.size(), now.size());}
      _held.clear();
   }
   static std::string FlatBytes(const Message & m) {ByteBufferRef b = m.FlattenToByteBuffer(); if (b() == NULL) vf::Fail("FlattenToByteBuffer failed"); return std::string((const char *) b()->GetBuffer(), b()->GetNumBytes());}

private:
   vf::BS & _bs; const GenOpts & _o;
   MessageRef _lastSub; std::shared_ptr<MMsg> _lastSubModel; std::string _lastSubBytes;
   std::vector<std::pair<MessageRef, std::string> > _held;

   status_t ApplyAdd(Message & msg, const String & fn, uint32 tc, const std::string & item, const MessageRef & sub, bool prepend, int replaceIdx)
   {
      switch(tc)
      {
         case B_INT32_TYPE: {int32 v; memcpy(&v, item.data(), 4); return (replaceIdx>=0)?msg.ReplaceInt32(false, fn, (uint32)replaceIdx, v):(prepend?msg.PrependInt32(fn, v):msg.AddInt32(fn, v));}
         case B_INT8_TYPE:  {int8 v; memcpy(&v, item.data(), 1); return (replaceIdx>=0)?msg.ReplaceInt8(false, fn, (uint32)replaceIdx, v):(prepend?msg.PrependInt8(fn, v):msg.AddInt8(fn, v));}
         case B_INT16_TYPE: {int16 v; memcpy(&v, item.data(), 2); return (replaceIdx>=0)?msg.ReplaceInt16(false, fn, (uint32)replaceIdx, v):(prepend?msg.PrependInt16(fn, v):msg.AddInt16(fn, v));}
         case B_INT64_TYPE: {int64 v; memcpy(&v, item.data(), 8); return (replaceIdx>=0)?msg.ReplaceInt64(false, fn, (uint32)replaceIdx, v):(prepend?msg.PrependInt64(fn, v):msg.AddInt64(fn, v));}
         case B_BOOL_TYPE:  {const bool v = (item[0] != 0); return (replaceIdx>=0)?msg.ReplaceBool(false, fn, (uint32)replaceIdx, v):(prepend?msg.PrependBool(fn, v):msg.AddBool(fn, v));}
         case B_FLOAT_TYPE: {float v; memcpy(&v, item.data(), 4); return (replaceIdx>=0)?msg.ReplaceFloat(false, fn, (uint32)replaceIdx, v):(prepend?msg.PrependFloat(fn, v):msg.AddFloat(fn, v));}
         case B_DOUBLE_TYPE:{double v; memcpy(&v, item.data(), 8); return (replaceIdx>=0)?msg.ReplaceDouble(false, fn, (uint32)replaceIdx, v):(prepend?msg.PrependDouble(fn, v):msg.AddDouble(fn, v));}
         case B_POINT_TYPE: {float v[2]; memcpy(v, item.data(), 8); const Point p(v[0], v[1]); return (replaceIdx>=0)?msg.ReplacePoint(false, fn, (uint32)replaceIdx, p):(prepend?msg.PrependPoint(fn, p):msg.AddPoint(fn, p));}
         case B_RECT_TYPE:  {float v[4]; memcpy(v, item.data(), 16); const Rect r(v[0], v[1], v[2], v[3]); return (replaceIdx>=0)?msg.ReplaceRect(false, fn, (uint32)replaceIdx, r):(prepend?msg.PrependRect(fn, r):msg.AddRect(fn, r));}
         case B_STRING_TYPE: {const String sv(item.c_str()); return (replaceIdx>=0)?msg.ReplaceString(false, fn, (uint32)replaceIdx, sv):(prepend?msg.PrependString(fn, sv):msg.AddString(fn, sv));}
         case B_MESSAGE_TYPE: return (replaceIdx>=0)?msg.ReplaceMessage(false, fn, (uint32)replaceIdx, sub):(prepend?msg.PrependMessage(fn, sub):msg.AddMessage(fn, sub));
         default:
            if (item.size() == 0)
            {
               // AddData() documents that zero bytes are rejected; a zero-length raw item can only be built from a ByteBuffer
               ByteBufferRef bb = GetByteBufferFromPool(0);
               // ... or from one that was filled and then emptied in place (it keeps its allocation: zero bytes of data behind a non-NULL pointer)
               if ((_o.allowEmptiedInPlace)&&(((fn.Length()+(uint32)(replaceIdx+1)+(prepend?1:0))%2) == 0)) {bb = GetByteBufferFromPool(8); if (bb()) {memset(bb()->GetBuffer(), 'e', 8); (void) bb()->SetNumBytes(0, true);} st.emptiedInPlace = true;}
               if (replaceIdx >= 0) return msg.ReplaceFlat(false, fn, (uint32)replaceIdx, bb);
               return prepend ? msg.PrependFlat(fn, bb) : msg.AddFlat(fn, bb);
            }
            return (replaceIdx>=0)?msg.ReplaceData(false, fn, tc, (uint32)replaceIdx, item.data(), (uint32)item.size()):(prepend?msg.PrependData(fn, tc, item.data(), (uint32)item.size()):msg.AddData(fn, tc, item.data(), (uint32)item.size()));
      }
   }

   std::string GenItemBytes(uint32 tc, int depth, MessageRef & sub, std::shared_ptr<MMsg> & subModel)
   {
      static const uint32 f32[] = {0, 0x80000000u, 0x7f800000u, 0xff800000u, 0x3f800000u, 0x00000001u, 0xc2f6e979u, 0x7f7fffffu, 0x7fc00000u, 0x7fa00000u, 0xffc00001u};   // last three are NaNs
      static const uint64 f64[] = {0, 0x8000000000000000ull, 0x7ff0000000000000ull, 0xfff0000000000000ull, 0x3ff0000000000000ull, 1ull, 0x400921fb54442d18ull, 0x7ff8000000000000ull, 0x7ff4000000000000ull};   // last two NaNs
      switch(tc)
      {
         case B_INT32_TYPE: {const int32 v[] = {0, 1, -1, 2147483647, (int32)0x80000000, 0x01020304}; return Bytes(&v[_bs.u8()%6], 4);}
         case B_INT8_TYPE:  {const int8 v = (int8) _bs.u8(); return Bytes(&v, 1);}
         case B_INT16_TYPE: {const int16 v = (int16)(_bs.u8()*257+(_bs.u8()&1)); return Bytes(&v, 2);}
         case B_INT64_TYPE: {const int64 v = (int64)(((uint64)_bs.u8())<<(_bs.u8()%57)); return Bytes(&v, 8);}
         case B_BOOL_TYPE:  {const char v = (char)(_bs.u8()&1); return std::string(1, v);}
         case B_FLOAT_TYPE: {const int k = _bs.u8()%11; if (k >= 8) st.hasNaN = true; return Bytes(&f32[k], 4);}
         case B_DOUBLE_TYPE:{const int k = _bs.u8()%9; if (k >= 7) st.hasNaN = true; return Bytes(&f64[k], 8);}
         case B_POINT_TYPE: {uint32 v[2]; for (int i=0; i<2; i++) {const int k = _bs.u8()%(_o.pythonSafe?8:11); if (k >= 8) st.hasNaN = true; v[i] = f32[k];} return Bytes(v, 8);}
         case B_RECT_TYPE:  {uint32 v[4]; for (int i=0; i<4; i++) {const int k = _bs.u8()%(_o.pythonSafe?8:11); if (k >= 8) st.hasNaN = true; v[i] = f32[k];} return Bytes(v, 16);}
         case B_STRING_TYPE:
         {
            static const uint32 L[] = {0,1,14,15,16,17,40,300};
            std::string s2; const uint32 n = L[_bs.u8()%8]; const uint8_t mode = _bs.u8()%4;
            for (uint32 i=0; i<n; i++)
            {
               if (mode == 0) s2.push_back((char)('a'+i%5));
               else if ((mode == 1)||(_o.pythonSafe)) {if ((_bs.u8()%4 == 0)&&(i+1 < n)) {s2.push_back((char)0xC3); s2.push_back((char)0xA9); i++;} else s2.push_back((char)('a'+i%7));}
               else {char c = (char)_bs.u8(); if (c == '\0') c = (char)0xFF; s2.push_back(c);}    // arbitrary non-NUL bytes, valid UTF-8 or not
            }
            return s2 + std::string(1, '\0');
         }
         case B_MESSAGE_TYPE:
         {
            if ((_lastSub())&&(_bs.u8()%5 == 0)) {sub = _lastSub; subModel = _lastSubModel; st.sharedSub = true; return _lastSubBytes;}   // the same sub-Message object referenced twice
            sub = GetMessageFromPool(); subModel.reset(new MMsg);
            if (depth < _o.maxDepth) Gen(depth+1, *sub(), *subModel); else {sub()->what = 7; subModel->what = 7;}
            const std::string enc = Encode(*subModel);
            _lastSub = sub; _lastSubModel = subModel; _lastSubBytes = enc;
            return enc;
         }
         default:
         {
            const uint8_t k = _bs.u8()%8;
            if ((k == 0)&&((_o.commonRepertoire == false)||(_o.allowZeroLenRaw))&&(tc == B_RAW_TYPE)) {st.hasZeroLenRaw = true; return std::string();}
            std::string r; const uint32 n = (k == 1) ? 300 : (1+_bs.u8()%20); for (uint32 i=0; i<n; i++) r.push_back((char)_bs.u8()); return r;
         }
      }
   }

   void NoteCount(size_t before, size_t after) {if ((before <= 1) != (after <= 1)) st.crossedInlineArray = true; if (after > st.maxItems) st.maxItems = (uint32) after;}

   void Op(int depth, Message & msg, MMsg & mod)
   {
      const uint8_t ob = _bs.u8(); uint8_t op = ob%16; if ((_o.allowZeroItemFields)&&(ob >= 244)) op = 16; else if ((_o.allowCopies)&&(ob >= 228)&&(ob < 244)) op = 17; const uint32 numNames = _o.commonRepertoire ? 7 : NUM_NAMES;
      const std::string fn = NAMES[_bs.u8()%numNames]; const int fi = mod.find(fn);
      switch(op)
      {
         case 0: case 1: case 2: case 3: case 4: case 10:  // add / prepend / burst
         {
            uint32 tc = (fi >= 0) ? mod.f[fi].tc : TYPES[_bs.u8()%NUM_TYPES];
            if ((_o.commonRepertoire)&&(tc == 0x12345678)) tc = B_RAW_TYPE;
            if ((fi >= 0)&&(mod.f[fi].flattenable == false)) break;
            const bool prepend = (op == 4);
            uint32 reps = 1; if ((op == 10)&&(_o.allowBursts)&&(depth <= 1)) {const uint8_t r = _bs.u8()%4; reps = (r == 0) ? 300 : ((r == 1) ? 17 : 3); if ((tc == B_MESSAGE_TYPE)&&(reps > 17)) reps = 17;}
            for (uint32 rep=0; rep<reps; rep++)
            {
               MessageRef sub; std::shared_ptr<MMsg> subModel; const std::string item = GenItemBytes(tc, depth, sub, subModel);
               const status_t r = ApplyAdd(msg, fn.c_str(), tc, (tc==B_STRING_TYPE)?item.substr(0, item.size()-1):item, sub, prepend, -1);
               if (r.IsError()) vf::Fail("add to field [%s] tc=%u failed: %s", vf::Esc(fn).c_str(), tc, r());
               int fj = mod.find(fn);
               if (fj < 0) {MField f; f.name = fn; f.tc = tc; mod.f.push_back(f); fj = (int)mod.f.size()-1;}
               MField & f = mod.f[fj]; const size_t before = f.items.size();
               if (prepend) {f.items.insert(f.items.begin(), item); if (tc == B_MESSAGE_TYPE) f.subs.insert(f.subs.begin(), subModel);}
                       else {f.items.push_back(item); if (tc == B_MESSAGE_TYPE) f.subs.push_back(subModel);}
               NoteCount(before, f.items.size());
               if (tc < 0x80000000u) st.typesMask |= (1u<<(tc%31));
            }
         }
         break;
         case 5: case 11: if ((fi >= 0)&&(mod.f[fi].items.empty()))
         {
            // removing an item from a field that has none: the status of that corner is not documented; whatever it is, the field is either still there with no items or gone
            (void) msg.RemoveData(fn.c_str(), 0); if (msg.HasName(fn.c_str()) == false) mod.f.erase(mod.f.begin()+fi);
         }
         else if (fi >= 0)
         {
            MField & f = mod.f[fi]; const size_t before = f.items.size();
            const uint32 idx = (op == 11) ? 0 : (uint32)(_bs.u8()%(uint32)(f.items.size()+1));
            const status_t r = msg.RemoveData(fn.c_str(), idx); const bool ok = idx < f.items.size();
            if (r.IsOK() != ok) vf::Fail("RemoveData(%s,%u) status %s with %zu items", vf::Esc(fn).c_str(), idx, r(), f.items.size());
            if (ok) {f.items.erase(f.items.begin()+idx); if (f.tc == B_MESSAGE_TYPE) f.subs.erase(f.subs.begin()+idx); NoteCount(before, f.items.size()); if (f.items.empty()) mod.f.erase(mod.f.begin()+fi);}
         }
         break;
         case 6: {const status_t r = msg.RemoveName(fn.c_str()); if (r.IsOK() != (fi >= 0)) vf::Fail("RemoveName status"); if (fi >= 0) mod.f.erase(mod.f.begin()+fi);} break;
         case 7: if ((fi >= 0)&&(mod.f[fi].flattenable))
         {
            MField & f = mod.f[fi];
            const uint32 idx = _bs.u8()%(uint32)(f.items.size()+1); const uint32 tc = f.tc; MessageRef sub; std::shared_ptr<MMsg> subModel; const std::string item = GenItemBytes(tc, depth, sub, subModel);
            // Observation (not part of C01, kept out of the domain): ReplaceFlat() on a single-item field ignores the index and replaces item 0, so the
            // zero-length-raw route (the only one that goes through ReplaceFlat here) is used with valid indices only.
            if ((item.size() == 0)&&(idx >= f.items.size())) break;
            const status_t r = ApplyAdd(msg, fn.c_str(), tc, (tc==B_STRING_TYPE)?item.substr(0, item.size()-1):item, sub, false, (int)idx); const bool ok = idx < f.items.size();
            if (r.IsOK() != ok) vf::Fail("Replace status idx=%u n=%zu tc=%u: %s", idx, f.items.size(), tc, r());
            if (ok) {f.items[idx] = item; if (tc == B_MESSAGE_TYPE) f.subs[idx] = subModel;}
         }
         break;
         case 8:
         {
            const std::string to = NAMES[_bs.u8()%numNames]; const int ti = mod.find(to); const status_t r = msg.Rename(fn.c_str(), to.c_str());
            if (fn == to) {if ((r.IsError())&&(fi >= 0)) vf::Fail("Rename to self failed");}
            else if (fi < 0) {if (r.IsOK()) vf::Fail("Rename of a missing field succeeded");}
            else {if (r.IsError()) vf::Fail("Rename failed"); MField f = mod.f[fi]; f.name = to; if (ti >= 0) {mod.f[ti] = f; mod.f.erase(mod.f.begin()+fi);} else {mod.f.erase(mod.f.begin()+fi); mod.f.push_back(f);}}
         }
         break;
         case 9: if ((depth <= 1)&&(_o.commonRepertoire == false)&&(_o.allowNonFlattenable)&&(_bs.u8()%4 == 0))
         {
            // non-flattenable fields: they exist in the Message, and are skipped by Flatten at every nesting level
            const bool isPtr = _bs.flip(); const char * nm = isPtr ? "ptr" : "tag";
            if (mod.find(nm) < 0)
            {
               const status_t r = isPtr ? msg.AddPointer(nm, &msg) : msg.AddTag(nm, RefCountableRef(GetMessageFromPool()()));
               if (r.IsError()) vf::Fail("adding a %s field failed", nm);
               MField f; f.name = nm; f.tc = isPtr ? B_POINTER_TYPE : B_TAG_TYPE; f.flattenable = false; f.items.push_back("x"); mod.f.push_back(f); st.hasNonFlattenable = true;
            }
         }
         break;
         case 16: if ((fi >= 0)&&(mod.f[fi].flattenable)&&(mod.f[fi].items.size() >= 1))
         {
            // a field that is present with no items: share it into a second Message and empty it through that one (the public-API route to a zero-item field)
            MField & f = mod.f[fi]; const size_t before = f.items.size();
            {Message side; if (msg.ShareName(fn.c_str(), side).IsError()) vf::Fail("ShareName failed"); uint32 removed = 0; while(side.RemoveData(fn.c_str(), 0).IsOK()) removed++; if (removed != before) vf::Fail("emptying a shared field removed %u of %zu items", removed, before);}
            // whether the two Messages really share storage depends on the field's internal representation (a single inline item is copied): read back which of the two happened
            uint32 now = 0; uint32 tcNow = 0; if (msg.GetInfo(fn.c_str(), &tcNow, &now).IsError()) vf::Fail("field [%s] vanished from the Message that shared it out", vf::Esc(fn).c_str());
            if (now == 0) {f.items.clear(); f.subs.clear(); NoteCount(before, 0); st.hasZeroItemField = true;}
            else if (now != before) vf::Fail("after emptying a shared field through the other Message this Message holds %u of %zu items", now, before);
         }
         break;
         case 17:
         {
            const uint8_t k = _bs.u8()%8;
            if (k <= 1)
            {
               // keep a copy (copy constructor / assignment over a Message in use / pooled copy); it is compared with its own bytes once the original is finished
               if (_held.size() >= 3) break;
               MessageRef c; const uint8_t how = _bs.u8()%3;
               if (how == 0) c.SetRef(new Message(msg)); else if (how == 1) {c = GetMessageFromPool(77); (void) c()->AddString("old", "contents"); (void) c()->AddInt32(fn.c_str(), 5); *c() = msg;} else c = GetMessageFromPool(msg);
               if (c() == NULL) vf::Fail("copying a Message failed");
               const std::string cb = FlatBytes(*c()), ob2 = FlatBytes(msg); if (cb != ob2) vf::Fail("a fresh copy of a Message flattens to %zu bytes that differ from the original's %zu", cb.size(), ob2.size());
               if ((st.hasNaN == false)&&(st.hasNonFlattenable == false)&&((c()->operator==(msg)) == false)) vf::Fail("a fresh copy of a Message (no NaNs, no pointer or tag fields in it) does not compare equal to the original");
               _held.push_back(std::make_pair(c, cb)); st.heldCopy = true;
            }
            else if (k <= 4)
            {
               // modify a copy: the original (checked against the model at the end, and against its own bytes here) is none of the copy's business
               const std::string before = FlatBytes(msg); Message c(msg); if (k == 4) {Message c2; c2 = c; c.SwapContents(c2);}
               const uint8_t what = _bs.u8()%6; uint32 tcNow = 0, n = 0; const bool has = c.GetInfo(fn.c_str(), &tcNow, &n).IsOK();
               switch(what)
               {
                  case 0: if (has) (void) c.RemoveData(fn.c_str(), 0); break;
                  case 1: if (has) (void) c.RemoveName(fn.c_str()); break;
                  case 2: if ((has)&&(tcNow == B_INT32_TYPE)) {(void) c.AddInt32(fn.c_str(), 12345); (void) c.ReplaceInt32(false, fn.c_str(), 0, 54321);} else if ((has)&&(tcNow == B_STRING_TYPE)) {(void) c.AddString(fn.c_str(), "added to the copy"); (void) c.ReplaceString(false, fn.c_str(), 0, "replaced in the copy");} else if ((has)&&(tcNow == B_INT8_TYPE)) {(void) c.PrependInt8(fn.c_str(), 99); (void) c.ReplaceInt8(false, fn.c_str(), n, 98);} else if ((has)&&(tcNow == B_RAW_TYPE)) {(void) c.AddData(fn.c_str(), B_RAW_TYPE, "copy", 4); (void) c.ReplaceData(false, fn.c_str(), B_RAW_TYPE, 0, "COPY!", 5);} else if ((has)&&(tcNow == B_DOUBLE_TYPE)) {(void) c.ReplaceDouble(false, fn.c_str(), 0, 2.5); (void) c.AddDouble(fn.c_str(), 3.5);} break;
                  case 3: c.Clear(); break;
                  case 4: if (has) {(void) c.EnsureFieldIsPrivate(fn.c_str()); while(c.RemoveLastData(fn.c_str()).IsOK()) {/* empty */} } break;
                  default: if (has) {void * p = c.GetPointerToNormalizedFieldData(fn.c_str(), &n, B_ANY_TYPE); if ((p)&&(n > 0)&&((tcNow == B_INT8_TYPE)||(tcNow == B_INT32_TYPE)||(tcNow == B_INT64_TYPE)||(tcNow == B_BOOL_TYPE)||(tcNow == B_INT16_TYPE))) *((uint8_t *)p) ^= 0x01;} break;     // write through the documented raw pointer
               }
               const std::string after = FlatBytes(msg); if (after != before) vf::Fail("modifying a copy of a Message (step %u on field [%s]) changed the original: %zu bytes flattened before, %zu after%s", (unsigned)what, vf::Esc(fn).c_str(), before.size(), after.size(), (after.size() == before.size()) ? " (same size, different bytes)" : "");
               st.mutatedCopy = true;
            }
            else if (k == 5)
            {
               // swap the field with the like-named, differently filled field of another Message, and back: nothing has changed
               if (fi < 0) break;
               const std::string before = FlatBytes(msg); Message side; (void) side.AddInt16(fn.c_str(), 7); (void) side.AddInt16(fn.c_str(), 8); const std::string sideBefore = FlatBytes(side);
               if (msg.SwapName(fn.c_str(), side).IsError()) vf::Fail("SwapName failed");
               {uint32 stc = 0; if ((side.GetInfo(fn.c_str(), &stc).IsError())||(stc != mod.f[fi].tc)) vf::Fail("after SwapName the other Message does not hold this Message's field"); uint32 mtc = 0, mn = 0; if ((msg.GetInfo(fn.c_str(), &mtc, &mn).IsError())||(mtc != B_INT16_TYPE)||(mn != 2)) vf::Fail("after SwapName this Message does not hold the other Message's field");}
               if (msg.SwapName(fn.c_str(), side).IsError()) vf::Fail("SwapName (back) failed");
               if (FlatBytes(msg) != before) vf::Fail("swapping field [%s] into another Message and back changed the Message", vf::Esc(fn).c_str());
               if (FlatBytes(side) != sideBefore) vf::Fail("swapping field [%s] into another Message and back changed the other Message", vf::Esc(fn).c_str());
               st.swappedField = true;
            }
            else if (k == 6)
            {
               // a field that only this Message has moves over to the other one, and back (to the end of the field order)
               if (fi < 0) break;
               Message side; (void) side.AddBool("other", true);
               if (msg.SwapName(fn.c_str(), side).IsError()) vf::Fail("SwapName (move out) failed");
               if (msg.HasName(fn.c_str())) vf::Fail("SwapName with a Message that lacks the field did not move it out");
               if (msg.SwapName(fn.c_str(), side).IsError()) vf::Fail("SwapName (move back) failed");
               if (side.HasName(fn.c_str())) vf::Fail("SwapName did not move the field back");
               MField f = mod.f[fi]; mod.f.erase(mod.f.begin()+fi); mod.f.push_back(f); st.swappedField = true;
            }
            else
            {
               // whole contents swapped into another Message and back through a move
               const std::string before = FlatBytes(msg); Message other(33); (void) other.AddFloat("f", 1.5f);
               msg.SwapContents(other); if ((msg.what != 33)||(msg.GetNumNames() != 1)) vf::Fail("SwapContents did not bring the other Message's contents over");
               Message third(std::move(other)); msg = std::move(third);
               if (FlatBytes(msg) != before) vf::Fail("contents swapped out of a Message and moved back differ from the original");
            }
         }
         break;
         case 12: if (fi >= 0)
         {
            const uint8_t k = _bs.u8()%2;
            const status_t r = k ? msg.MoveNameToFront(fn.c_str()) : msg.MoveNameToBack(fn.c_str()); if (r.IsError()) vf::Fail("MoveNameToFront/Back failed");
            MField f = mod.f[fi]; mod.f.erase(mod.f.begin()+fi); if (k) mod.f.insert(mod.f.begin(), f); else mod.f.push_back(f);
         }
         break;
         case 13: if ((fi >= 0)&&(mod.f[fi].flattenable))
         {
            // round trip of one field through another Message: CopyName out, remove, MoveName back in
            Message other; const std::string to = NAMES[_bs.u8()%numNames]; const int ti = mod.find(to);
            if ((ti >= 0)&&(to != fn)) break;
            if (msg.CopyName(fn.c_str(), other, "tmp").IsError()) vf::Fail("CopyName failed");
            if (msg.RemoveName(fn.c_str()).IsError()) vf::Fail("RemoveName after CopyName failed");
            if (other.MoveName("tmp", msg, to.c_str()).IsError()) vf::Fail("MoveName failed");
            MField f = mod.f[fi]; f.name = to; mod.f.erase(mod.f.begin()+fi); mod.f.push_back(f);
         }
         break;
         case 14: if ((depth == 0)&&(_bs.u8()%16 == 0)) {msg.Clear((_bs.u8()&1) != 0); mod.f.clear();} break;
         case 15: if ((fi >= 0)&&(mod.f[fi].items.empty())) {(void) msg.RemoveLastData(fn.c_str()); if (msg.HasName(fn.c_str()) == false) mod.f.erase(mod.f.begin()+fi);}     // (same undocumented corner)
         else if (fi >= 0)
         {
            MField & f = mod.f[fi]; const size_t before = f.items.size();
            const status_t r = msg.RemoveLastData(fn.c_str()); if (r.IsError()) vf::Fail("RemoveLastData failed");
            f.items.pop_back(); if (f.tc == B_MESSAGE_TYPE) f.subs.pop_back(); NoteCount(before, f.items.size()); if (f.items.empty()) mod.f.erase(mod.f.begin()+fi);
         }
         break;
      }
   }
};

// Walks a real Message through its public getters and compares it with the model.
// parsedSide: the Message came out of a parser, so non-flattenable model fields must be absent.
inline void Walk(const Message & msg, const MMsg & mod, bool parsedSide, const std::string & where)
{
   if (msg.what != mod.what) vf::Fail("%s: what %u, model %u", where.c_str(), msg.what, mod.what);
   std::vector<const MField *> exp; for (size_t i=0; i<mod.f.size(); i++) if ((parsedSide == false)||(mod.f[i].flattenable)) exp.push_back(&mod.f[i]);
   if (msg.GetNumNames() != exp.size()) vf::Fail("%s: %u fields, model %zu", where.c_str(), msg.GetNumNames(), exp.size());
   size_t i = 0;
   for (MessageFieldNameIterator it = msg.GetFieldNameIterator(); it.HasData(); it++, i++)
   {
      if (i >= exp.size()) vf::Fail("%s: more fields than the model", where.c_str());
      const MField & f = *exp[i]; const String & fn = it.GetFieldName();
      if (std::string(fn.Cstr(), fn.Length()) != f.name) vf::Fail("%s: field %zu is [%s], model [%s]", where.c_str(), i, vf::Esc(std::string(fn.Cstr(), fn.Length())).c_str(), vf::Esc(f.name).c_str());
      uint32 tc = 0, count = 0; bool fixedSize = false;
      if (msg.GetInfo(fn, &tc, &count, &fixedSize).IsError()) vf::Fail("%s: GetInfo(%s) failed", where.c_str(), vf::Esc(f.name).c_str());
      if (tc != f.tc) vf::Fail("%s: field [%s] type %u, model %u", where.c_str(), vf::Esc(f.name).c_str(), tc, f.tc);
      if (count != f.items.size()) vf::Fail("%s: field [%s] has %u items, model %zu", where.c_str(), vf::Esc(f.name).c_str(), count, f.items.size());
      if (f.flattenable == false) continue;
      for (uint32 k=0; k<count; k++)
      {
         std::string got;
         switch(tc)
         {
            case B_INT32_TYPE: {int32 v = 0; if (msg.FindInt32(fn, k, v).IsError()) vf::Fail("%s: FindInt32", where.c_str()); got = Bytes(&v, 4);} break;
            case B_INT8_TYPE:  {int8 v = 0; if (msg.FindInt8(fn, k, v).IsError()) vf::Fail("%s: FindInt8", where.c_str()); got = Bytes(&v, 1);} break;
            case B_INT16_TYPE: {int16 v = 0; if (msg.FindInt16(fn, k, v).IsError()) vf::Fail("%s: FindInt16", where.c_str()); got = Bytes(&v, 2);} break;
            case B_INT64_TYPE: {int64 v = 0; if (msg.FindInt64(fn, k, v).IsError()) vf::Fail("%s: FindInt64", where.c_str()); got = Bytes(&v, 8);} break;
            case B_BOOL_TYPE:  {bool v = false; if (msg.FindBool(fn, k, v).IsError()) vf::Fail("%s: FindBool", where.c_str()); got = std::string(1, v?(char)1:(char)0);} break;
            case B_FLOAT_TYPE: {float v = 0; if (msg.FindFloat(fn, k, v).IsError()) vf::Fail("%s: FindFloat", where.c_str()); got = Bytes(&v, 4);} break;
            case B_DOUBLE_TYPE:{double v = 0; if (msg.FindDouble(fn, k, v).IsError()) vf::Fail("%s: FindDouble", where.c_str()); got = Bytes(&v, 8);} break;
            case B_POINT_TYPE: {Point p; if (msg.FindPoint(fn, k, p).IsError()) vf::Fail("%s: FindPoint", where.c_str()); float v[2] = {p.x(), p.y()}; got = Bytes(v, 8);} break;
            case B_RECT_TYPE:  {Rect r; if (msg.FindRect(fn, k, r).IsError()) vf::Fail("%s: FindRect", where.c_str()); float v[4] = {r.left(), r.top(), r.right(), r.bottom()}; got = Bytes(v, 16);} break;
            case B_STRING_TYPE: {const String * s = NULL; if ((msg.FindString(fn, k, &s).IsError())||(s == NULL)) vf::Fail("%s: FindString", where.c_str()); got = std::string(s->Cstr(), s->Length()+1);} break;
            case B_MESSAGE_TYPE:
            {
               ConstMessageRef sub; if ((msg.FindMessage(fn, k, sub).IsError())||(sub() == NULL)) vf::Fail("%s: FindMessage", where.c_str());
               Walk(*sub(), *f.subs[k], parsedSide, where+"/"+f.name);
               got = f.items[k];
            }
            break;
            default:
            {
               // raw items: FindData() cannot return a zero-length item (it has no buffer to point at), so go through the FlatCountable
               ConstFlatCountableRef fc; if ((msg.FindFlat(fn, k, fc).IsError())||(fc() == NULL)) vf::Fail("%s: FindFlat(%s,%u) failed", where.c_str(), vf::Esc(f.name).c_str(), k);
               const ByteBuffer * bb = dynamic_cast<const ByteBuffer *>(fc()); if (bb == NULL) vf::Fail("%s: raw item [%s] %u is not held as a ByteBuffer", where.c_str(), vf::Esc(f.name).c_str(), k);
               got = (bb->GetNumBytes() > 0) ? Bytes(bb->GetBuffer(), bb->GetNumBytes()) : std::string();
               if (got.size() > 0) {const void * p = NULL; uint32 nb = 0; if (msg.FindData(fn, tc, k, &p, &nb).IsError()) vf::Fail("%s: FindData(%s,%u,%u) failed", where.c_str(), vf::Esc(f.name).c_str(), tc, k); if (Bytes(p, nb) != got) vf::Fail("%s: FindData and FindFlat disagree", where.c_str());}
            }
            break;
         }
         if (got != f.items[k]) vf::Fail("%s: field [%s] item %u is %s, model %s", where.c_str(), vf::Esc(f.name).c_str(), k, vf::Hex(got.data(), got.size()).c_str(), vf::Hex(f.items[k].data(), f.items[k].size()).c_str());
      }
   }
   if (i != exp.size()) vf::Fail("%s: fewer fields than the model", where.c_str());
}

// Removes pointer/tag fields at every nesting level (they are skipped by Flatten at every level).
inline void StripNonFlattenable(Message & m)
{
   Queue<String> kill;
   for (MessageFieldNameIterator it = m.GetFieldNameIterator(); it.HasData(); it++)
   {
      uint32 tc = 0; if (m.GetInfo(it.GetFieldName(), &tc).IsError()) continue;
      if ((tc == B_POINTER_TYPE)||(tc == B_TAG_TYPE)) (void) kill.AddTail(it.GetFieldName());
      else if (tc == B_MESSAGE_TYPE)
      {
         MessageRef sub;
         for (uint32 k=0; m.FindMessage(it.GetFieldName(), k, sub).IsOK(); k++)
         {
            // sub-Messages may be shared with other holders: clone before editing
            MessageRef c = GetMessageFromPool(*sub()); if (c()) {StripNonFlattenable(*c()); (void) m.ReplaceMessage(false, it.GetFieldName(), k, c);}
         }
      }
   }
   for (uint32 i=0; i<kill.GetNumItems(); i++) (void) m.RemoveName(kill[i]);
}

inline std::string Summary(const MMsg & m, int depth = 0)
{
   char b[64]; snprintf(b, sizeof(b), "{what=%u", m.what); std::string s = b;
   for (size_t i=0; (i<m.f.size())&&(i<10); i++)
   {
      const MField & f = m.f[i]; snprintf(b, sizeof(b), " %s:%c%c%c%c x%zu", vf::Esc(f.name).substr(0, 16).c_str(), (char)(f.tc>>24), (char)(f.tc>>16), (char)(f.tc>>8), (char)f.tc, f.items.size()); s += vf::Esc(b);
      if ((f.tc == B_MESSAGE_TYPE)&&(depth < 2)&&(f.subs.size())) s += Summary(*f.subs[0], depth+1);
   }
   if (m.f.size() > 10) s += " ...";
   return s+"}";
}

}  // namespace refmsg

#endif
