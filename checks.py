"""Registry of checks: property id -> targets, budgets, evidence texts."""
import os, sys, time
sys.path.insert(0, os.path.join(os.path.dirname(os.path.abspath(__file__)), 'engine'))
import build as B

CHECKS = {}
NOT_YET = {}
NOTES = ('All checks are property-based / fuzzing checks: a harness decodes a byte string into a structured case (operation history, Message, '
         'segmentation plan, fault plan, thread schedule), runs it against the real code built from /repo\'s working tree with ASan+UBSan, and '
         'evaluates an explicit oracle. quick = regression inputs + a fixed number of cases from a splitmix64 stream seeded by VERIF_SEED on 16 '
         'worker processes; thorough = eight times as many seeded cases plus a coverage-guided libFuzzer campaign on the same harness. '
         'known_findings.json lists genuine defects (fixed ones with their commit; open ones are reported as KNOWN-FINDING lines).')
ENGINES = [
    {'name': 'PR', 'path': 'engine/runner_main.cpp', 'serves_properties': [], 'kind_free_text': 'seeded standalone runner: byte strings from splitmix64(VERIF_SEED) decoded into structured cases; pure function of tree and seed'},
    {'name': 'FZ', 'path': 'engine/fuzz_main.cpp', 'serves_properties': [], 'kind_free_text': 'libFuzzer (-fsanitize=fuzzer,address,undefined), fork mode, same harness entry point; thorough tier'},
]

CHECKS['C16'] = {
    'level': 'exploration',
    'technique': 'model-based property testing: generated operation histories against a std::deque reference model, ASan/UBSan, instance-counting item type',
    'level_text': ('Generated-history search with a reference-model oracle after every operation. Millions of histories per run reach every operation '
                   'kind on wrapped rings, across the inline/heap boundary and with self-aliasing operands; a held verdict means no disagreement and '
                   'no memory error on everything generated, not absence.'),
    'level_note': 'Trusted: std::deque as the ideal sequence; the per-method doc comments in util/Queue.h as the contract of each operation.',
    'rule': ('Byte-decoded operation histories (<=200 ops over 46 operation kinds, values 0..15, two queues) on Queue<int> and an instance-counted '
             'poison-on-destroy Queue<Tracked>, compared after every operation with a std::deque model (size, every index, Head/Tail, both array '
             'segments, HeadPointer contiguity when normalized, iterators both ways, status codes). Non-trivial: at least one operation ran while the '
             'ring was wrapped, or a reallocation happened while the head slot was not slot 0, or an operand aliased the queue itself. '
             'Distinct: hash of the decoded (op, arguments) sequence.'),
    'assumptions': ['each operation is modelled after its own doc comment in util/Queue.h',
                    'FastClear is generated for the trivially-typed item type only (documented to leave non-POD items behind)',
                    'self-doubling operations are skipped above 2000 items'],
    'targets': [
        {'name': 'c16_queue', 'src': ['harness/C16_queue.cpp'], 'quick_n': 2000000, 'thorough_n': 16000000, 'maxlen': 400, 'min_nontrivial': 100000,
         'class_floors': {'case_with_op_on_wrapped_ring': 50000, 'case_with_aliasing_operand': 50000, 'item_type_tracked': 200000, 'max_size_13_to_64': 20000}},
    ],
}

CHECKS['C17'] = {
    'level': 'exploration',
    'technique': 'model-based property testing: generated operation histories on muscle::String against a std::string reference model, ASan/UBSan, flatten round-trip and truncation rejection',
    'level_text': ('Generated-history search with a reference-model oracle after every operation (length, bytes incl. the NUL, strlen, FlattenedSize), operand '
                   'lengths concentrated on 0,1,2,7,14..17,31..33,64 so nearly every history crosses the 15/16 small-buffer boundary, and self-aliasing '
                   'operands in a dozen operation kinds. Held = no disagreement and no memory error on everything generated.'),
    'level_note': 'Trusted: std::string / libc string functions as the ideal byte string; each String method\'s doc comment as its contract. Search needles are non-empty (the doc comment does not decide the empty needle at fromIndex==Length()).',
    'rule': ('Byte-decoded histories (<=120 ops over 50 kinds incl. String-typed and case-insensitive searches with a start index, with needles taken from the bytes the String held before it last became shorter) on two String objects compared with std::string models after every op. Non-trivial: an operation moved '
             'the length across the 15/16 small-buffer boundary in either direction, or had an operand aliasing the String itself. Distinct: hash of the decoded op/argument bytes.'),
    'assumptions': ['numeric-parse member functions do not exist in util/String.h at this commit; Arg() substitution is checked on templates with single-digit tokens and %-free values'],
    'targets': [
        {'name': 'c17_string', 'src': ['harness/C17_string.cpp'], 'quick_n': 6000000, 'thorough_n': 48000000, 'maxlen': 300, 'min_nontrivial': 400000,
         'class_floors': {'case_crossing_small_buffer_boundary': 100000, 'case_with_aliasing_operand': 100000, 'unflatten_truncated_rejected': 1000, 'case_search_for_bytes_left_behind_the_terminator': 50000}},
    ],
}

CHECKS['C09'] = {
    'level': 'exploration',
    'technique': 'model-based property testing: generated operation histories on muscle::Hashtable (colliding hash functor) against an ordered-list model that also models every registered iterator (scratch copy + cookie) across mutations, Clear, swap, copy and table destruction',
    'level_text': ('Generated-history search; after every operation the full forward and backward iteration, GetNumItems, Get() of every small key and the '
                   'HasData/GetKey/GetValue of up to three live registered iterators are compared with the model. Bulk profiles (250..261 and 65530..65541 entries) '
                   'cross the index-width boundaries with iterators alive. Held = no disagreement and no memory error on everything generated.'),
    'level_note': ('Trusted: the list model and the iterator model derived from Hashtable.h (removing or moving the entry an iterator is on leaves the iterator showing a copy of it and '
                   'continuing with its then-successor). Two corners the documentation leaves open are accepted either way (Clear/destruction may replace an existing scratch copy by the '
                   'next entry; positional Put on an existing key may show the old value).'),
    'rule': ('Byte-decoded histories (<=150 ops, 30 kinds, keys 0..11 hashed to 3 buckets, two tables, three iterators forward/backward/at-key). Non-trivial: a mutation executed while a registered '
             'iterator was mid-table on that table, or the table\'s index width class (<=255, <=65535, larger) changed while an iterator was alive. Distinct: hash of decoded op bytes and profile.'),
    'assumptions': ['c09_ordered: the order among entries that compare equal in a sorted-by-value table, whether SwapContents carries the auto-sort setting, and whether an explicit Sort() keeps equal entries in place are not documented and not judged',
                    'c09_ordered: positional operations (MoveToFront, PutBefore ...) are not applied to the auto-sorting variants (documented to disorder them until Sort()/Reposition())'],
    'targets': [
        {'name': 'c09_hashtable', 'src': ['harness/C09_hashtable.cpp'], 'quick_n': 500000, 'thorough_n': 4000000, 'maxlen': 700, 'min_nontrivial': 50000, 'budget': 60,
         'class_floors': {'case_mutation_with_iterator_mid_table': 50000, 'case_index_width_change_with_iterator_alive': 300, 'profile_256': 20000, 'profile_65536': 50}},
        {'name': 'c09_ordered', 'src': ['harness/C09_ordered.cpp'], 'quick_n': 400000, 'thorough_n': 3200000, 'maxlen': 500, 'min_nontrivial': 50000, 'budget': 30,
         'class_floors': {'flavour_OrderedKeysHashtable<int,int>': 50000, 'flavour_OrderedValuesHashtable<int,int>': 50000, 'flavour_OrderedKeysHashtable<String,String>': 20000, 'flavour_Hashtable<String,int>': 20000,
                          'case_live_traversal_completed_and_judged': 5000, 'case_with_auto_sort_switched_off': 20000, 'case_sorted_by_value_with_equal_values': 20000}},
    ],
}

CHECKS['C20'] = {
    'level': 'exploration',
    'technique': 'model-based property testing: generated attach/detach/destroy/invalidate/clock histories (with callbacks that mutate the tree) on a PulseNode tree under a simulated clock, against a per-node (attached, valid requested time) model; second target: the same model over the participants of a real ReflectServer (server, sessions, gateways, factories, extra nodes) driven one event-loop cycle at a time under the library clock moved by offset',
    'level_text': ('Generated-history search with a reference model: the wake-up time the root reports is compared with the model minimum at every wait, every callback is checked '
                   'for attached/valid/due/scheduled-time/callback-time/once-per-pulse, every attached node must have been asked before each wait, and due nodes must fire in the same cycle '
                   '(no callback mutation) or be still due with a wake-up <= now and fire in the quiet follow-up cycle (callback mutation). Held = no disagreement on everything generated.'),
    'level_note': 'Trusted: the model of validity (a requested time stays valid until the node is pulsed, invalidated, detached or re-attached). Callbacks destroy only nodes that are provably off the call stack (the library keeps raw pointers up the call stack). The server leg judges with clock readings taken before and after each cycle (the real clock keeps running under the offset): a time between the two readings is not judged either way.',
    'rule': ('Byte-decoded histories (<=80 steps, 7 nodes): attach/re-parent, detach, invalidate (with/without clearing), destroy, and event-loop cycles (ask, advance clock to/before/past the wake-up, pulse); '
             'GetPulseTime answers drawn from {never, past, now, soon, later}; callbacks run up to two mutations. Non-trivial: a pulse fired >=2 nodes at different depths, or a callback mutated the tree. '
             'Distinct: hash of the decoded step bytes. c20_server: byte-decoded histories (<=60 steps) of joins, departures, factory installation / removal / readiness, node attachment, invalidations, clock jumps and event-loop cycles; non-trivial: >= 3 cycles, >= 2 callbacks fired, >= 1 clock jump.'),
    'assumptions': [],
    'targets': [
        {'name': 'c20_pulsenode', 'src': ['harness/C20_pulsenode.cpp'], 'quick_n': 10000000, 'thorough_n': 80000000, 'maxlen': 400, 'min_nontrivial': 1000000,
         'class_floors': {'case_with_callback_mutation': 200000, 'case_pulse_fired_nodes_at_two_depths': 100000, 'case_with_deferred_due_node': 20000, 'case_node_invalidated_between_wait_and_pulse': 200000, 'case_callback_destroyed_a_node_off_the_call_stack': 50000, 'case_time_question_answered_by_re_arming_children': 200000}},
        {'name': 'c20_server', 'src': ['harness/C20_server.cpp'], 'quick_n': 300000, 'thorough_n': 2400000, 'maxlen': 160, 'min_nontrivial': 20000,
         'class_floors': {'case_factory_asked_while_not_ready_to_accept': 2000, 'case_participant_joined_after_the_first_cycle': 20000, 'case_session_left': 20000}},
    ],
}

CHECKS['C01'] = {
    'level': 'exploration',
    'technique': 'round-trip + differential property testing: generated public-API operation sequences tracked by a model; flattened bytes compared with an independent reference encoder of the documented layout; parsed result walked through the public getters against the model; ByteBuffer / DataIO / templated-codec routes',
    'level_text': ('Generated-input search with three independent oracles per case (reference encoder written from the documented layout, getter walk against the operation model, '
                   're-flatten / checksum / equality invariants) under ASan/UBSan with canaried output buffers. Held = all oracles agreed on every generated Message.'),
    'level_note': ('Trusted: the 25-line reference encoder (models/refmsg.h) as the documented layout; little-endian host. Message equality is asserted only when the model holds no NaN '
                   '(IEEE comparison makes == false for bit-identical NaN payloads); the bit-level getter walk carries those cases.'),
    'rule': ('Byte-decoded sequences of up to 28 top-level operations (add/prepend/replace/remove-item/remove-name/rename/move/copy-move/clear/bursts of 3,17,300 items, pointer and tag fields, nested Messages to depth 4, '
             'shared sub-Message refs) over 13 type codes incl. an unknown one, 9 field names incl. empty and non-ASCII. Non-trivial: some field\'s item count crossed the inline(1)/array(2+) representation boundary in either direction, '
             'or nesting depth >= 2, or a non-flattenable field is present. Distinct: hash of the flattened bytes.'),
    'assumptions': ['zero-length raw items are built only through AddFlat(ByteBuffer) (AddData documents that 0 bytes are rejected)'],
    'targets': [
        {'name': 'c01_roundtrip', 'src': ['harness/C01_roundtrip.cpp'], 'quick_n': 1000000, 'thorough_n': 8000000, 'maxlen': 600, 'min_nontrivial': 100000,
         'class_floors': {'case_field_crossed_inline_array_boundary': 50000, 'case_nesting_ge_2': 5000, 'case_with_pointer_or_tag_field': 3000, 'case_equality_asserted': 50000, 'case_with_nan': 20000, 'case_with_a_field_emptied_through_a_sharing_message': 5000, 'case_copy_kept_while_the_original_was_modified': 8000, 'case_copy_modified_original_rechecked': 10000, 'case_field_swapped_with_another_message': 1500, 'case_zero_length_raw_item_from_a_buffer_emptied_in_place': 5000}},
    ],
}

CHECKS['C02'] = {
    'level': 'exploration',
    'technique': 'structure-aware fuzzing of every parser entry point under ASan/UBSan with an allocation meter (bytes requested vs input size), CPU-time watchdog and destroy/reuse-after-failure checks; boundary-value word substitution, truncation, type swaps, record duplication, deep nesting; gateway input paths fed in generated segmentations',
    'level_text': ('Generated hostile-input search: valid encodings from the Message generator are mutated at the offsets of their length/count/type/magic words with the boundary table of the property, truncated inside and after every word, and mixed with arbitrary bytes; '
                   'each input goes to the C++ parser, the templated parser, the mini and micro C parsers and (second target) every gateway input path. Oracle: no sanitizer report, no abort, CPU budget, requested allocation <= 64*N+64KiB for the Message parsers, object reusable after failure, accepted objects survive walk/re-flatten/print. Held = none of these fired on everything generated.'),
    'level_note': 'Trusted: ASan/UBSan as the memory-safety and UB oracle (one UBSan bounds exemption for the documented String small-buffer layout); the allocation meter counts requested bytes through wrapped malloc/realloc/calloc and replaced operator new. Nesting depth is capped at 1000 in generated inputs while known finding F7 (unbounded recursion) stands.',
    'rule': ('Byte-decoded cases: parser selector x input source (mutated valid encoding 13/16, valid encoding, raw bytes behind a valid magic, deep nesting) x 1..4 mutations. Non-trivial: the input passes the first gate of its parser (valid magic and non-zero field count, i.e. field parsing is reached; for the templated parser: non-empty payload against a generated template). Distinct: hash of the input bytes and parser selector.'),
    'assumptions': ['gateways are held to memory-safety/termination only; the allocation clause is stated for the Message parsers'],
    'targets': [
        {'name': 'c02_parsers', 'src': ['harness/C02_parsers.cpp'], 'ccodecs': True, 'meter': True, 'quick_n': 1200000, 'thorough_n': 9600000, 'maxlen': 500, 'min_nontrivial': 50000, 'timeout_is_violation': True, 'budget': 8,
         'class_floors': {'entry_cpp': 50000, 'entry_mini': 50000, 'entry_micro': 50000, 'entry_templated': 30000, 'reached_field_parsing': 100000, 'cpp_accepted': 5000, 'cpp_rejected': 20000}},
        {'name': 'c02_gateways', 'src': ['harness/C02_gateways.cpp'], 'ccodecs': True, 'quick_n': 1500000, 'thorough_n': 12000000, 'maxlen': 700, 'min_nontrivial': 30000, 'timeout_is_violation': True, 'budget': 20,
         'class_floors': {'binary_unlimited': 3000, 'binary_limit_1MiB': 3000, 'templating': 3000, 'text': 3000, 'slip': 3000, 'websocket_server': 3000, 'websocket_client': 3000, 'packet_tunnel': 3000, 'mini_packet_tunnel': 3000, 'mini_c_gateway': 3000, 'micro_c_gateway': 3000, 'reuse_after_reset_checked': 30000, 'case_stream_of_2048_bytes_or_more': 20000, 'binary_packet_mode': 20000, 'case_valid_datagram_after_a_malformed_one': 5000, 'frame_with_lying_last_field_beyond_the_scratch_buffer': 20000, 'case_tunnel_size_gate_with_oversized_message_after_the_first': 5000}},
    ],
}

CHECKS['C03'] = {
    'level': 'exploration',
    'technique': 'round-trip property testing over generated Message sequences x byte segmentations x DoOutput/DoInput interleavings on in-memory choppy pipes, for every stream gateway kind; reference line splitter and RFC-1055 decoder as independent oracles for text and SLIP',
    'level_text': ('Generated search over (gateway kind, configuration, Message sequence, per-call read/write sizes incl. zero-byte would-block and one byte at a time, max-bytes arguments). '
                   'Oracle: the received sequence equals the sent one by flattened bytes (binary kinds, templating, WebSocket both directions, C mini/micro gateways against the C++ one), by concatenated lines (text), '
                   'by byte stream / k-sized prefix (raw), by frame list plus an independent RFC-1055 decode of the wire bytes (SLIP). Held = equal on everything generated.'),
    'level_note': ('Trusted: the reference encoder of C01 for the sent bytes. Templating: while known finding F11 (structural template-hash collisions) stands, a Message whose shape collides with an earlier different shape '
                   'under the same hash is not sent (counted). Raw/SLIP chunks stay <= 300 bytes while F12 (unbounded recursion per successful write) stands.'),
    'rule': ('Byte-decoded cases over 30 kind slots: MessageIOGateway x 10 encodings, mid-stream encoding switches, independent zlib streams, counted, templating (LRU 0/200/4096/1MiB), plain text (CRLF/LF/CR + receiver-only metamorphic), raw, raw min-chunk, SLIP, WebSocket client/server with slave gateways, mini and micro C gateways in both directions, 300 KiB Messages. '
             'Non-trivial: >= 2 Messages (lines for the metamorphic text check) and at least one read or write that moved fewer bytes than it could have (split inside a frame). Distinct: hash of (kind, sent bytes).'),
    'assumptions': ['text lines exclude NUL, CR and LF bytes (the text gateway cannot carry them inside a line)'],
    'targets': [
        {'name': 'c03_gateways', 'src': ['harness/C03_gateways.cpp'], 'ccodecs': True, 'quick_n': 600000, 'thorough_n': 4800000, 'maxlen': 1500, 'min_nontrivial': 30000, 'budget': 60,
         'class_floors': {'binary_zlib': 10000, 'templating': 5000, 'text': 3000, 'slip': 1500, 'raw': 1500, 'raw_min_chunk': 1500, 'websocket': 5000, 'mini_gateway': 1500, 'micro_gateway': 1500, 'binary_encoding_switches': 3000, 'binary_zlib_independent_streams': 1500, 'binary_300KiB': 1500, 'message_sized_to_the_scratch_buffer_boundary': 5000, 'case_micro_sender_prepared_a_message_behind_pending_output': 800, 'templating_with_encoding_switches': 5000}},
    ],
}


def _c08_worker_env(wdir):
    import shutil
    d = os.path.join(wdir, 'emit')
    if not os.environ.get('_C08_EMIT_KEEP'):
        shutil.rmtree(d, ignore_errors=True)
    os.makedirs(d, exist_ok=True)
    return {'VERIF_C08_EMIT': d}


def _c08_post(runner, t, agg):
    """Python leg: every batch the workers emitted goes through py/c08_peer.py (unmodified message.py)."""
    import glob, json, subprocess
    from concurrent.futures import ThreadPoolExecutor
    d = os.path.join(t.wdir, 'emit')
    batches = sorted(glob.glob(os.path.join(d, '*.batch')))
    faildir = os.path.join(B.VERIF, 'replays', 'C08')
    # regression inputs of the Python leg (fixed findings): must pass
    for reg in sorted(glob.glob(os.path.join(B.VERIF, 'corpus', 'C08', '*.pybatch'))):
        if _c08_replay(reg, quiet=True) != 0:
            runner.violations.append(('c08_python', reg, 'Python peer: regression input fails again'))

    def one(i_b):
        i, b = i_b
        out = b + '.json'
        cmd = ['python3', os.path.join(B.VERIF, 'py', 'c08_peer.py'), b, out, '--faildir', faildir] + (['--frames', '150'] if i == 0 else [])
        p = subprocess.run(cmd, stdout=subprocess.PIPE, stderr=subprocess.STDOUT, text=True, timeout=900)
        try:
            return json.load(open(out)), p.stdout[-2000:]
        except Exception:
            return {'records': 0, 'failures': [{'why': 'python peer crashed: ' + p.stdout[-1500:]}], 'frames_checked': 0, 'frame_failure': None}, p.stdout[-2000:]
    res = {'records': 0, 'frames_checked': 0, 'batches': len(batches), 'records_with_non_ascii_names_or_strings': 0}
    with ThreadPoolExecutor(max_workers=16) as ex:
        for j, out in ex.map(one, enumerate(batches)):
            res['records'] += j['records']
            res['frames_checked'] += j.get('frames_checked', 0)
            res['records_with_non_ascii_names_or_strings'] += j.get('records_with_non_ascii_names_or_strings', 0)
            for f in j['failures'][:1]:
                path = f.get('replay', os.path.join(faildir, 'c08_python__unsaved.pybatch'))
                if not any(v[0] == 'c08_python' for v in runner.violations):
                    runner.violations.append(('c08_python', path, 'Python peer: ' + f['why']))
            ff = j.get('frame_failure')
            if ff and ff.startswith('inconclusive'):
                runner.inconclusive.append({'target': 'c08_python', 'what': ff})
            elif ff:
                runner.violations.append(('c08_python', 'py/c08_peer.py --frames', 'Python transceiver: ' + ff))
    agg['python_peer'] = res
    agg['evaluations'] += res['records']
    if res['records'] < 1000 and not runner.violations:
        runner.harness_errors.append('python peer saw only %d records' % res['records'])
    driver_log = __import__('driver').log
    driver_log('[C08] python peer: %d records in %d batches, %d frames over loopback TCP' % (res['records'], res['batches'], res['frames_checked']))


def _c08_replay(path, quiet=False):
    if not path.endswith('.pybatch'):
        return None
    import subprocess, tempfile
    outj = os.path.join(tempfile.gettempdir(), 'c08_replay_%d.json' % os.getpid())
    p = subprocess.run(['python3', os.path.join(B.VERIF, 'py', 'c08_peer.py'), path, outj], stdout=subprocess.PIPE, stderr=subprocess.STDOUT, text=True)
    if not quiet:
        try:
            print(open(outj).read())
        except Exception:
            print(p.stdout)
    try:
        os.unlink(outj)
    except OSError:
        pass
    return p.returncode


CHECKS['C08'] = {
    'level': 'exploration',
    'technique': 'differential property testing across the four Message implementations shipped in the tree (C++, C mini, C micro, Python) plus an independent reference encoder of the documented layout: parse-walk-reserialise and build-from-model legs per implementation, 8-byte frame comparison across the C++/C gateways and the Python transceiver over loopback TCP',
    'level_text': ('Generated-input differential search: for each model Message the C++ bytes must equal the reference encoding; mini and micro must parse them to the model content (walk through their getters), re-serialise / rebuild them to the same bytes, and the C++ parser must accept what they produce; '
                   'the unmodified lang/python3/message.py (subprocess, batches of python-safe cases) must parse to the model content, report the exact size, re-serialise and rebuild through its Put* API to the same bytes; the gateways must emit <len LE><Enc0 LE><bytes>. Held = all implementations agreed on everything generated.'),
    'level_note': 'Trusted: the reference encoder (models/refmsg.h). Python-safe restriction: valid UTF-8 names and strings, no NaN inside Point/Rect (Python widens float32 to double and back). C codecs: no zero-item fields (neither side can build them). Zero-length raw items are generated; MicroMessage cannot hand one out that ends its field (UMFindData reports an error, as Message::FindData does): counted as an observation, the rest of the Message is still compared.',
    'rule': ('Byte-decoded model Messages over the common repertoire (all fixed numeric types, bool, string, point, rect, raw, nested to depth 3; 7 field names incl. empty and two non-ASCII). Non-trivial: >= 3 distinct field types or nesting >= 1. Distinct: hash of the flattened bytes. '
             'Up to 6000 python-safe cases per worker are written to batch files and verified by the Python peer; 150 of them also travel through a MessageTransceiverThread over loopback TCP.'),
    'assumptions': ['loopback TCP available for the Python transceiver leg (reported inconclusive otherwise)'],
    'targets': [
        {'name': 'c08_wire', 'src': ['harness/C08_wire.cpp'], 'ccodecs': True, 'quick_n': 1500000, 'thorough_n': 12000000, 'maxlen': 500, 'min_nontrivial': 200000,
         'worker_env': _c08_worker_env, 'post': _c08_post, 'replay_hook': _c08_replay, 'replay_aliases': ['c08_python'],
         'class_floors': {'case_python_safe': 50000, 'case_nesting_ge_1': 20000, 'case_three_or_more_field_types': 50000, 'emitted_for_python_peer': 20000, 'case_with_zero_length_raw_item': 10000, 'micro_gateway_frame_streams_checked': 100000, 'micro_gateway_stream_with_buffer_full_episodes': 20000, 'message_sized_to_the_scratch_buffer_boundary': 20000, 'mini_field_renamed_to_a_shorter_name': 50000, 'mini_field_renamed_to_a_longer_name': 20000}},
    ],
}

CHECKS['C14'] = {
    'level': 'exploration',
    'technique': 'differential property testing of generated filter trees against a reference evaluator written from the documentation; archive round trip; expression printer/parser round trip; hostile archives and arbitrary expression strings under ASan/UBSan',
    'level_text': ('Generated filter ASTs (13 kinds, all numeric types with mask ops and defaults, 24 string operators, 12 raw operators, what-code ranges, exists, and/or/nand/nor/xor, min/max thresholds, Message filters) evaluated on Messages generated from the filter (so the comparison, not the default rule, decides most evaluations). '
                   'Matches must equal the reference, leave the Message bytes unchanged, agree with the filter restored from its flattened archive and with the filter parsed from the printed expression. Hostile archives (field-wise and byte-wise mutations, self-similar nesting) and token-soup expression strings must be rejected or evaluate without a sanitizer report.'),
    'level_note': ('Trusted: the reference evaluator (harness/C14_queryfilter.cpp RefEval). It declines (case not compared, counted) where the documentation defers to another function: empty needle for contains/substring-of, B_ANY_TYPE raw filter on a non-raw field, empty raw operand. '
                   'Regex-operator string filters (the F19 door) are not generated by the semantic part; pattern/regex operators are outside the reference.'),
    'rule': ('Byte-decoded cases: 6/8 semantic (filter tree + 4 Messages, 3 of them generated from the filter), 1/8 hostile archive, 1/8 arbitrary expression string. Non-trivial (semantic): at least one of the four evaluations was decided by a value present in the Message with the right type and index; hostile modes count every case. Distinct: hash of the case bytes.'),
    'assumptions': [],
    'targets': [
        {'name': 'c14_queryfilter', 'src': ['harness/C14_queryfilter.cpp'], 'quick_n': 2000000, 'thorough_n': 16000000, 'maxlen': 400, 'min_nontrivial': 300000, 'timeout_is_violation': True,
         'class_floors': {'mode_semantics': 100000, 'mode_hostile_archive': 10000, 'mode_arbitrary_expression': 10000, 'expressions_parsed': 5000, 'evaluations_decided_by_a_present_value': 100000, 'hostile_archive_accepted': 1000, 'arbitrary_expression_accepted': 300, 'expressions_with_uncast_literals': 1000}},
    ],
}

CHECKS['C15'] = {
    'level': 'exploration',
    'technique': 'differential property testing: patterns printed from a generated AST over the documented constructs are matched by StringMatcher and by an independent Thompson-NFA reference that only sees the AST; escape-law, numeric-range and uniqueness-law checks on generated strings',
    'level_text': ('Generated (pattern AST, subjects) search: subjects are produced by walking the AST (guaranteed matches), mutating a match (near misses) and at random; StringMatcher::Match must equal the reference on every subject; '
                   'IsPatternUnique and IsPatternListOfUniqueValues must be consistent with what actually matched; EscapeRegexTokens(t) must match t and no mutation of t; leading <a-b,c-> range lists must match exactly the decimal integers in range. Held = no disagreement on everything generated.'),
    'level_note': ('Trusted: the NFA reference over the AST (it never sees the pattern text). Sound alphabet: literals from alnum . + - _ : space, every metacharacter as an escaped literal (escaped exactly where IsRegexToken says), two non-ASCII bytes; class contents alnum and ranges. '
                   'Metacharacters inside [...] are generated only for the known finding F14 (translation not bracket-aware).'),
    'rule': ('Byte-decoded cases: 5/8 AST patterns (<= 3 comma parts x <= 4 nodes, nesting 2, optional leading ~) with 8 subjects each, 1/8 escape law on arbitrary byte strings, 1/8 numeric range lists, 1/8 uniqueness law on raw pattern strings over {x y \\ * ? ,} (incl. a trailing lone backslash) judged against all 258 subjects of up to 3 symbols. '
             'Non-trivial: pattern has >= 2 constructs and the subject set contains both a match and a non-match (range lists: both; escape law: the string contains a metacharacter). Distinct: hash of the pattern text.'),
    'assumptions': ['subjects for range patterns are canonical decimal integers or purely alphabetic strings'],
    'targets': [
        {'name': 'c15_patterns', 'src': ['harness/C15_patterns.cpp'], 'quick_n': 3000000, 'thorough_n': 24000000, 'maxlen': 300, 'min_nontrivial': 300000, 'timeout_is_violation': False,
         'class_floors': {'mode_ast_patterns': 500000, 'mode_escape_law': 200000, 'mode_numeric_ranges': 200000, 'mode_raw_pattern_uniqueness': 50000, 'mode_segmented_matcher': 80000, 'mode_path_matcher': 40000, 'case_path_matched_by_a_later_pattern_of_its_depth_only': 10000, 'case_segmented_matcher_object_reused': 40000, 'case_segmented_pattern_negated': 40000, 'case_matcher_object_reused': 80000, 'case_negated': 100000, 'case_comma_list': 200000}},
    ],
}

CHECKS['C12'] = {
    'level': 'fault_enumeration',
    'technique': 'fault-injection property testing: generated Message sequences through the real tunnel gateways over an in-memory datagram transport with generated loss/duplication/reordering/replay plans (exhaustive over {deliver,drop,duplicate,swap}^n for packet sequences of <= 6, sampled beyond) and would-block writes; membership oracle for safety, equality oracle for fault-free completeness',
    'level_text': ('For every generated configuration (tunnel kind, MTU from the minimum up, slave gateway, compression level, 1-3 senders by source address, message-id counter started just below 2^32) the packets a sender emits are delivered to fresh receivers under fault plans: '
                   'all 4^n plans for sequences of up to 6 packets, sampled plans (incl. replay of old packets) for longer ones. Safety is checked on every plan: each delivered Message is bit-identical to one that sender sent. Completeness is checked on fault-free plans, also with would-block (0-byte) writes on the sending side. Held = no plan violated either clause.'),
    'level_note': ('Trusted: the in-memory datagram transport (half of the receivers read through the library\'s own ByteBufferPacketDataIO instead, and a share of the fault-free cases runs the tunnel over the library\'s PacketizedProxyDataIO on a byte pipe read in generated segment sizes). The mini tunnel drops a Message larger than one packet payload by design (modelled). With a slave gateway on a packet transport Messages are kept below the compile-time UDP payload size while known finding F25 stands (counted).'),
    'rule': ('Byte-decoded cases; fault mode = first bytes. Non-trivial: (sampled) a fault hit a sequence containing a multi-fragment Message or >= 3 packets; (exhaustive) >= 2 packets with a multi-fragment Message or several senders; (fault-free) a Message spanning >= 3 packets, or >= 2 packets for the mini tunnel. '
             'Distinct: hash of (configuration, sent bytes, fault mode). exhaustive_fault_plans counts the enumerated plans.'),
    'assumptions': [],
    'evidence_extra': lambda pt: {'exhaustive_fault_plans_enumerated': pt['c12_tunnel']['classes'].get('exhaustive_fault_plans', 0), 'exhaustive_note': 'each exhaustive plan set enumerates all 4^n {deliver,drop,duplicate,swap-with-next} plans of one generated packet sequence (n <= 6); the space of sequences itself is sampled, so exhaustive=false overall'},
    'targets': [
        {'name': 'c12_tunnel', 'src': ['harness/C12_tunnel.cpp'], 'quick_n': 300000, 'thorough_n': 2400000, 'maxlen': 400, 'min_nontrivial': 50000, 'budget': 60,
         'class_floors': {'mini_tunnel': 20000, 'packet_tunnel': 20000, 'exhaustive_plan_sets': 3000, 'message_id_wraparound': 3000, 'several_senders': 20000, 'with_slave_gateway': 20000, 'mode_fault_free_with_would_block_writes': 10000, 'receiver_on_library_ByteBufferPacketDataIO': 50000, 'mode_packetized_stream_transport': 5000, 'with_raw_data_slave_gateway_several_buffers_per_message': 5000, 'case_stream_transport_with_short_writes': 1000, 'case_raw_chunk_larger_than_one_slave_read': 250}},
    ],
}

SC_NOTE = ('Trusted: the contract-level models of Mutex and WaitCondition inside the scheduler (their internals are replaced at the hook, so they are trusted, not tested), and the atomicity of std::atomic operations and of the real primitives inside a hook point. '
           'Unbounded liveness (starvation under an infinite unfair schedule) is outside any finite test: decided as "no deadlock and no overtaking within the explored bounded schedules".')

CHECKS['C18'] = {
    'level': 'exploration',
    'technique': 'schedule-exploring property testing: the real ReaderWriterMutex runs on a harness-owned scheduler (hooks in Mutex/WaitCondition) that decodes the interleaving and timeout firings from the case bytes; holder-set / counting / writer-preference invariants over the history; deadlock detection; bounded exhaustive DFS over schedules with a preemption bound for small configurations',
    'level_text': ('Generated (script, schedule) search: 2-4 threads x <= 6 operations from lock/try/timed/recursive/upgrade/unlock incl. bogus unlocks, both writer-preference settings, every context switch and timeout firing chosen by the schedule bytes. '
                   'A fraction of the cases enumerates ALL schedules of a small configuration up to 2-3 preemptions (stateless DFS, capped at 600 schedules per configuration and reported as complete or capped). '
                   'Oracle: never a writer with another holder, counts match, failed try/timed leaves state unchanged, try never blocks, waiting writer not overtaken by a later reader (preference on), no deadlock, lock free again at the end. Held = no schedule explored violated any of these.'),
    'level_note': SC_NOTE + ' An upgrading reader is treated as holding nothing during the LockReadWrite call (documented: the upgrade temporarily drops the read locks).',
    'rule': ('Byte-decoded cases: scripts + schedule. Non-trivial (random mode): some acquire blocked and was later granted, or an upgrade was attempted while another reader held the lock; (exhaustive mode) >= 2 schedules enumerated. Distinct: hash of scripts and of the choices made.'),
    'assumptions': ['scripts are compliant: everything acquired is eventually released'],
    'targets': [
        {'name': 'c18_rwmutex', 'src': ['harness/C18_rwmutex.cpp'], 'quick_n': 40000, 'thorough_n': 320000, 'maxlen': 300, 'min_nontrivial': 5000, 'budget': 120,
         'class_floors': {'case_blocked_acquire_later_granted': 5000, 'case_upgrade_while_another_reader_holds': 500, 'case_with_failed_try_or_timed_acquire': 3000, 'case_reader_arrives_while_writer_waits': 200, 'exhaustive_configs': 100, 'determinism_selftests': 1000}},
    ],
}

CHECKS['C11'] = {
    'level': 'exploration',
    'technique': 'schedule-exploring property testing: the real muscle::Thread (both signalling mechanisms) runs on the harness-owned scheduler (hooks in Mutex, WaitCondition, Thread lifecycle and the socket wait); generated send/receive/start/shutdown/restart scripts; exactly-once and per-sender FIFO invariants over the history; deadlock detection for lost wake-ups',
    'level_text': ('Generated (script, schedule) search: owner plus 0-2 extra sender threads send numbered Messages to an echo thread; the owner receives with zero, finite and infinite deadlines; Messages may be queued before start (also with the socket pair allocated beforehand); the internal thread runs the stock loop or an event loop of its own that blocks on the wake-up socket; in a third of the cases the Thread is constructed with an ICallbackMechanism and the owner collects part of the replies through DispatchCallbacks() / MessageReceivedFromInternalThread() while still blocking for the others; shutdown+wait, also with replies still uncollected (they must all be there after the join); restart of the same Thread object; every context switch and timeout firing is chosen by the schedule bytes. '
                   'Oracle: replies arrive exactly once and in per-sender order, nothing arrives after shutdown, ShutdownInternalThread(true) returns, and no state is reached where every thread is blocked (a lost wake-up is reported as DEADLOCK with the schedule). Held = no explored schedule violated these.'),
    'level_note': SC_NOTE + ' An untimed receive may return B_TIMED_OUT on a stale signal byte (the library\'s own loop treats that as recoverable); scripts retry and count it.',
    'rule': ('Byte-decoded cases: configuration + receive plan + schedule. Non-trivial: at least one preemption and at least two block-then-wake events (so sends and waits actually interleaved). Distinct: hash of configuration and of the choices made.'),
    'assumptions': [],
    'targets': [
        {'name': 'c11_thread', 'src': ['harness/C11_thread.cpp'], 'quick_n': 150000, 'thorough_n': 1200000, 'maxlen': 300, 'min_nontrivial': 20000, 'budget': 120, 'stall_is_violation': True,
         'class_floors': {'signalling_socket_pair': 3000, 'signalling_wait_condition': 3000, 'case_messages_queued_before_start': 3000, 'case_restart_of_same_thread_object': 2000, 'case_extra_sender_threads': 3000, 'case_own_event_loop_blocking_on_the_wakeup_socket': 5000, 'case_own_loop_with_sockets_and_messages_before_start': 500, 'case_replies_collected_after_join': 3000, 'case_restart_after_join_with_replies_uncollected': 1000, 'case_thread_has_a_callback_mechanism': 10000, 'case_replies_delivered_by_dispatch_callbacks': 3000, 'case_replies_collected_by_callbacks_only': 3000, 'case_started_and_shut_down_with_nothing_sent': 800}},
    ],
}

CHECKS['C19'] = {
    'level': 'exploration',
    'technique': 'schedule-exploring property testing, plus a free-running ThreadSanitizer supplement for the lock discipline of the pool: the real ThreadPool (its pool threads are ordinary muscle Threads that register with the scheduler when the pool demand-starts them) runs on the harness-owned scheduler; generated submission / unregister / re-register scripts from several threads; handler activation log as the history; deadlock detection',
    'level_text': ('Generated (script, schedule) search: pool sizes 1-3, 1-4 clients, 1-3 submitting threads, handlers that yield inside, unregistration from non-pool threads with Messages still outstanding, re-registration, in half of the cases a second pool (1-3 threads) to which registered clients are moved directly while their Messages are outstanding and their handlers hand in follow-up work during the move, pool destruction after everything was unregistered or with clients still registered and handlers in flight. '
                   'Oracle over the activation log: per client exactly-once and in submission order, never two activations of one client at once, never more activations than pool threads (than the two pools together have, when there are two), unregister (and the unregistration implied by a move to another pool) returns only when everything submitted has been handled and no handler is running, every submitted Message is handled by the end, destruction returns, no deadlock (reported by the scheduler; threads blocked where the scheduler cannot see them are reported by the stall watchdog of the runner and count as a violation when the input blocks three times out of three). Held = no explored schedule violated these.'),
    'level_note': SC_NOTE,
    'rule': ('c19_tsan counts iterations (every case with at least 4 input bytes is non-trivial). Byte-decoded cases: configuration + per-submitter scripts + schedule. Non-trivial: an unregistration or a move to another pool was issued while Messages of that client were still outstanding, or >= 2 handlers ran in parallel with at least one preemption. Distinct: hash of configuration, scripts and choices.'),
    'assumptions': ['clients are unregistered before they themselves are destroyed (documented requirement); the pool may be destroyed first, with clients still registered and Messages pending (a quarter of the cases): its shutdown un-registers them', 'the pool object is destroyed only after the submitting threads have finished (a submission racing with the destructor is not a supported use); its Shutdown() may come at any time'],
    'targets': [
        {'name': 'c19_threadpool', 'src': ['harness/C19_threadpool.cpp'], 'quick_n': 100000, 'thorough_n': 800000, 'maxlen': 400, 'min_nontrivial': 20000, 'budget': 120, 'stall_is_violation': True,
         'class_floors': {'case_handlers_ran_in_parallel': 5000, 'case_more_clients_than_pool_threads': 15000, 'case_unregister_with_messages_outstanding': 10000, 'case_pool_destroyed_with_clients_registered': 10000, 'case_pool_destroyed_with_messages_pending': 2000, 'case_client_moved_to_another_pool_with_messages_outstanding': 3000, 'case_handler_submitted_follow_up_during_a_pool_move': 1500, 'case_pool_shut_down_while_submitters_at_work': 8000, 'case_pool_shut_down_under_a_waiting_unregistration': 5000}},
        {'name': 'c19_tsan', 'src': ['harness/C19_tsan.cpp'], 'variant': 'tsan', 'fuzz': False, 'coverage': False, 'quick_n': 30000, 'thorough_n': 240000, 'maxlen': 16, 'min_nontrivial': 10000, 'budget': 300, 'repro_min': 1},
    ],
}

CHECKS['C10'] = {
    'level': 'exploration',
    'technique': 'schedule-exploring property testing: Ref<>/RefCountable/ObjectPool on the harness-owned scheduler with yield points before and after every atomic reference-count operation and around the pool mutex; generated reference-manipulation scripts; identity-stamp and release-state-machine invariants; plus a free-running ThreadSanitizer supplement for atomicity of the primitives',
    'level_text': ('Generated (script, schedule) search: 1-3 threads x 2-8 operations (copy, reset, obtain from a small pool or from the heap, swap, move, const-cast, publish to / take from a mutex-guarded mailbox, temporaries, non-counting references switched to counting and back by assignment and in place, ObjectPool::Drain() in mid-history) over ObjectPool<Obj,128> with maxPoolSize 0-4 so slabs are created, recycled and deleted within a run; single-threaded histories included. '
                   'Oracle: a referenced object keeps its identity stamp, liveness mark and a count of at least the thread\'s own counting references (exactly the number of counting references in single-threaded histories); an obtained object is in default state, unowned and count 0; no object is released twice; constructor and destructor counts agree once the pool is gone; ObjectPool::PerformSanityCheck; ASan for use-after-free/double free. '
                   'Second target (c10_tsan): the same operations free-running on 8 real threads under ThreadSanitizer, which sees what the scheduler cannot (loss of atomicity inside a primitive, a dropped mutex guard). Held = no explored schedule and no TSan run reported a problem; TSan silence proves nothing beyond the runs made.'),
    'level_note': SC_NOTE,
    'rule': ('Byte-decoded cases: configuration + scripts + schedule. Non-trivial: (multi-threaded) at least one preemption and an object whose final release was performed by a thread other than the one that obtained it; (single-threaded) >= 2 objects obtained. Distinct: hash of configuration, scripts and choices. c10_tsan counts iterations.'),
    'assumptions': [],
    'targets': [
        {'name': 'c10_refcount', 'src': ['harness/C10_refcount.cpp'], 'quick_n': 600000, 'thorough_n': 4800000, 'maxlen': 300, 'min_nontrivial': 50000, 'budget': 120,
         'class_floors': {'case_single_threaded_history': 50000, 'case_multi_threaded': 200000, 'case_final_release_by_another_thread': 50000, 'case_non_counting_reference_switched_to_counting': 10000, 'case_pool_drained_in_mid_history': 50000, 'case_reference_neutralized': 5000, 'case_last_reference_stopped_counting_and_resumed': 8000}},
        {'name': 'c10_tsan', 'src': ['harness/C10_tsan.cpp'], 'variant': 'tsan', 'fuzz': False, 'coverage': False, 'quick_n': 24000, 'thorough_n': 192000, 'maxlen': 16, 'min_nontrivial': 5000, 'budget': 300, 'repro_min': 1,
         'class_floors': {'thread_echo_runs': 1000}},
    ],
}

RH_NOTE = ('Trusted: the in-process single-stepped harness (real ReflectServer, sessions, gateways and socket pairs; a StorageReflectSession subclass that only overrides GenerateHostName and exposes read-only accessors), the in-process walk of the server\'s tree as the truth about the server, '
           'StringMatcher clause matching (C15) and QueryFilter::Matches (C14) for computing what a subscription selects.')

CHECKS['C04'] = {
    'level': 'exploration',
    'technique': 'model-based property testing over generated command histories on the real server run in-process and single-stepped: every client applies its update stream; at every quiescent point its mirror is compared with what its subscriptions select in the server\'s tree; don\'t-care marking for documented notification suppression',
    'level_text': ('Generated-history search: 3-4 sessions on two hosts issue SETDATA (nested paths, flags), REMOVEDATA (literal/wildcard/filtered/quiet), SETPARAMETERS with one or several SUBSCRIBE: entries (absolute, relative, host- or session-literal, with four filter kinds, quiet, max-items), filter changes, REMOVEPARAMETERS (literal and wildcard), nested BATCHes, GETDATA, ordered inserts/reorders, clean disconnects, cuts inside pending output and reconnects; several commands may be written before the server is stepped. '
                   'At every quiescent point, for every client: no selected node of another session missing, none stale, none extra. Held = equal on every quiescent point of every generated history.'),
    'level_note': RH_NOTE + ' Quiet sets/removes and SUBSCRIBE_QUIETLY make the touched nodes don\'t-care (by design no notification). While known finding F16 stands, (subscriber,node) pairs selected by two subscriptions of one session are don\'t-care after a filter change on one of them (counted). Own-session nodes are not compared.',
    'rule': ('Byte-decoded histories of <= 50 steps. Non-trivial: at least one mirror node compared and the history contains a set-then-remove inside one BATCH, or a filter change on an existing subscription, or a session departure while another session is subscribed. Distinct: hash of the decoded step bytes.'),
    'assumptions': ['PR_NAME_DISABLE_SUBSCRIPTIONS is not generated here (documented stop-telling-me switch; exercised under C07)'],
    'targets': [
        {'name': 'c04_mirror', 'src': ['harness/C04_mirror.cpp'], 'quick_n': 60000, 'thorough_n': 480000, 'maxlen': 500, 'min_nontrivial': 3000, 'budget': 120,
         'class_floors': {'case_set_then_remove_in_one_batch': 200, 'case_filter_change_on_existing_subscription': 500, 'case_departure_while_others_subscribed': 2000}},
    ],
}

CHECKS['C13'] = {
    'level': 'exploration',
    'technique': 'model-based property testing over generated command histories on the real server run in-process: every client replays PR_RESULT_INDEXUPDATED entries (clear / insert-at / remove-at) in arrival order starting from the snapshot; at every quiescent point the replayed index is compared with the server\'s index; standing invariants on the server\'s indices',
    'level_text': ('Same harness as C04 with an index-heavy operation mix (INSERTORDEREDDATA before a sibling / at the end / several at once, SETDATA with ADDTOINDEX, REORDERDATA before a sibling / to the end / out of the index / by wildcard, removals of indexed and plain children, subscribers joining mid-history, GETDATA snapshots, and sessions that copy one of their subtrees, ordered index included, to a path where nothing is yet: with CloneDataNodeSubtree() or with SaveNodeTreeToMessage() + RestoreNodeTreeFromMessage(), optionally adding the copy to the index of its parent). '
                   'Oracle: each armed replay equals the server\'s index at quiescence; an insert position never exceeds the replayed size; a remove entry names what the replay has at that position; the server\'s index lists only existing children, each once. Held = on every quiescent point of every generated history.'),
    'level_note': RH_NOTE + ' A replay is armed for a (client,node) pair (a) when the client applies a clear entry for that node (the snapshot the property speaks of), (b) at a quiescent point at which the node is under one of the client\'s subscriptions and its index is empty or absent (every later change is reported entry by entry), or (c) at the first insert entry for a node that did not exist at the last quiescent point, under a subscription that was in force then, unless the node was reported REMOVED to that client in between (the client has been told the whole life of the node). Entries for unarmed pairs are ignored, not judged. Copies are made only to destinations that do not exist (the API documents the destination as newly created).',
    'rule': ('Byte-decoded histories of <= 50 steps. Non-trivial: at least one armed index replay was compared and the history contains a reorder or an indexed removal. (Classes: replay armed from the birth of a node, from an empty index, index of a cloned or restored node judged.) Distinct: hash of the decoded step bytes.'),
    'assumptions': [],
    'targets': [
        {'name': 'c13_index', 'src': ['harness/C04_mirror.cpp'], 'extra_flags': ['-DVF_C13=1'], 'quick_n': 60000, 'thorough_n': 480000, 'maxlen': 500, 'min_nontrivial': 3000, 'budget': 120,
         'class_floors': {'case_with_reorder': 5000, 'case_with_armed_index_replay_compared': 3000, 'case_index_replayed_from_the_birth_of_its_node': 2000, 'case_index_replayed_from_an_empty_index_at_a_quiescent_point': 5000, 'case_with_subtree_clone_or_restore': 4000, 'case_index_of_a_cloned_or_restored_node_judged': 300, 'case_with_superceding_set': 8000}},
    ],
}

CHECKS['C05'] = {
    'level': 'exploration',
    'technique': 'differential property testing on the real server run in-process: (a) generated multi-key routed Messages, per-inbox copy counts against receivers computed clause by clause from the published node sets; (b) one multi-key traversal (GETDATA) against PathMatcher::MatchesPath applied to every node path',
    'level_text': ('(a) Four sessions on two hosts publish generated node sets, optionally enable reflect-to-self or a default route, and replace or remove the default route in mid-history; 1-8 Messages are sent with 0-3 keys (absolute with literal or wildcard host/session clauses, relative, session level or node levels, equal and different depths, now and then a key with a clause that does not compile), optional filters, forged session fields, interleaved with server steps. Each inbox must hold exactly one copy for each selected session and none otherwise, in per-sender order, naming the true sender. '
                   '(b) Three publishers (node names incl. literal "a,b" and "a*") and an observer that sends one GETDATA with 1-4 keys over 19 clause forms: the reply\'s node set must equal the set MatchesPath selects over all node paths, with no path reported twice. Held = equal on everything generated.'),
    'level_note': RH_NOTE + ' The multi-pattern traversal is exercised as ONE multi-key NodePathMatcher traversal, as the server performs it (a union of single-pattern traversals hides the conspiracy guard and the skip-to-next-session logic).',
    'rule': ('Byte-decoded cases, half routing, half traversal. Non-trivial: the Message / GETDATA carries two keys of equal depth, or keys of different depths (routing), or a key mixing literal and wildcard clause levels (traversal: both the hash-lookup fast path and the wildcard path run). Distinct: hash of the rendered keys.'),
    'assumptions': ['path clauses are non-empty and patterns do not end in a lone backslash (PutPathString and GetPathDepth count empty clauses differently; exercised only under C07)'],
    'targets': [
        {'name': 'c05_routing', 'src': ['harness/C05_routing.cpp'], 'quick_n': 300000, 'thorough_n': 2400000, 'maxlen': 300, 'min_nontrivial': 5000, 'budget': 120,
         'class_floors': {'mode_routing': 100000, 'mode_traversal': 100000, 'case_two_keys_of_equal_depth': 50000, 'case_keys_of_different_depths': 20000, 'case_with_filters': 10000, 'case_key_mixing_literal_and_wildcard_levels': 20000, 'case_keyless_message_after_default_route_was_replaced': 500, 'case_malformed_key_before_a_valid_one': 500, 'case_with_child_count_filter': 1000, 'case_traversal_with_filtered_keys': 10000, 'case_node_selected_by_a_later_key_after_an_earlier_keys_filter_refused': 500}},
    ],
}

CHECKS['C07'] = {
    'level': 'exploration',
    'technique': 'stateful fuzzing of the real server run in-process and single-stepped: generated histories of arbitrary structurally valid Messages from hostile clients (incl. a non-reading phase), with a witness-ping liveness oracle under a CPU-time watchdog, ASan/UBSan, and a no-session-left-behind check',
    'level_text': ('Generated-history search: up to 60 Messages per history from two hostile clients over every command code (biased to the PR_COMMAND range), reserved field names with right and wrong types, paths over the full metacharacter alphabet incl. empty clauses, "..", trailing backslashes, comma lists, negation, ranges, generated and malformed filter archives, BATCH nesting to depth 5, data-tree commands, toggling "stops reading" so replies queue up before JETTISON commands. '
                   'Oracle: after every burst a witness client\'s PING is answered; no sanitizer report; the CPU-time watchdog (process CPU clock) never fires; the server still single-steps and is empty after all clients left. Held = on every generated history.'),
    'level_note': RH_NOTE + ' While known finding F19 stands (raw POSIX regexes reach regcomp unvetted; stacked repetition operators are exponential), backtick-prefixed raw-regex clauses and regex-operator string filters are not generated (counted).',
    'rule': ('Byte-decoded histories. Non-trivial: a JETTISONRESULTS arrived while replies were queued for a non-reading client, or a handler was reached with a wrong-typed reserved field, or >= 2 commands were sent while the sender was not reading. Distinct: hash of the decoded history bytes.'),
    'assumptions': [],
    'targets': [
        {'name': 'c07_hostile', 'src': ['harness/C07_hostile.cpp'], 'quick_n': 200000, 'thorough_n': 1600000, 'maxlen': 600, 'min_nontrivial': 5000, 'budget': 10, 'timeout_is_violation': True,
         'class_floors': {'case_jettison_with_replies_queued': 20000, 'case_wrong_typed_reserved_field': 10000}},
    ],
}

CHECKS['C06'] = {
    'level': 'fault_enumeration',
    'technique': 'stateful fuzzing with an invariance oracle on the real server run in-process: after every generated adversary command the victim\'s subtree / index / parameters / connection snapshot (in-process walk) must be unchanged and privileged commands must bounce; connection-cut fault injection at generated byte offsets of a leaver\'s pending output followed by an in-process walk for leftovers',
    'level_text': ('(isolation) Adversary / victim / witness: up to 40 generated commands from the shared hostile command generator with the victim\'s host name and session id spliced into the clause table (absolute paths, "..", wildcards at host and session level, REORDER / INSERTORDERED / REMOVE with such paths, KICK, ADDBANS, REMOVEBANS, privilege bits, forged session fields, nested BATCHes); after every command and a pump to quiescence the victim\'s snapshot is compared byte for byte, the witness subscribed to the victim\'s nodes must have been told nothing, KICK/BAN/REQUIRE commands must bounce with ERRORACCESSDENIED; a fresh session\'s first ordered children must be named I0, I1. '
                   '(cleanup) Leaver / stayer / witness: the leaver runs 0-11 generated commands, queues 1-3 more, and is cut after k in [0,1023] bytes of its pending output; afterwards: no node under its path, its id in no subscriber table, the witness told about every node it had been shown, host node gone iff empty, and no stray node when the last session leaves. Held = on every generated history and cut position.'),
    'level_note': RH_NOTE + ' The "every subscriber is told" clause is skipped (counted) for histories in which the leaver used quiet flags or BATCHes (quiet removal is documented not to notify). The metamorphic "same history without the departed session" run is not built; its clause is covered through the leftovers walk and the I0/I1 naming witness.',
    'rule': ('Byte-decoded cases, half isolation, half cleanup. Non-trivial: (isolation) at least one adversary path addresses the victim\'s subtree (absolute, host and session clause literal or wildcard, >= 3 clauses); (cleanup) the cut fell strictly inside the pending output. Distinct: hash of the decoded commands (and cut position).'),
    'assumptions': [],
    'targets': [
        {'name': 'c06_isolation', 'src': ['harness/C06_isolation.cpp'], 'quick_n': 40000, 'thorough_n': 320000, 'maxlen': 600, 'min_nontrivial': 5000, 'budget': 30,
         'class_floors': {'mode_isolation': 10000, 'mode_cleanup': 10000, 'case_adversary_addressed_victim_subtree': 3000, 'case_cut_strictly_inside_pending_output': 3000, 'privileged_commands_bounced': 1000, 'case_leaver_dropped_subscriptions_while_muted': 3000, 'case_server_grants_ban_privileges_but_not_kick': 2000, 'case_adversary_used_a_path_that_begins_like_its_own_root': 1500}},
    ],
}


# What the fourth and fifth seeding rounds added to the generators and oracles (DESIGN.md I.3 and I.6), appended to the level texts above.
_LATER = {
    'C01': 'Also: copies of the Message under construction (copy constructor, assignment over a Message in use, pooled copy) are kept and must still flatten to the bytes they had when taken, whatever is done to the original afterwards; copies are modified (items removed / added / replaced, fields removed, emptied, written through GetPointerToNormalizedFieldData) and the original must keep its bytes; fields are swapped with another Message and back (SwapName), contents swapped out and moved back (SwapContents, move assignment); the checksum of a Message equals that of its parsed copy; zero-length raw items are built from an empty ByteBuffer and from one that was filled and emptied in place (findings F40, F41).',
    'C02': 'Also (gateways target): a packet tunnel with a small maximum incoming Message size fed, by one sender, Messages below and above the limit (none above may be delivered, whatever preceded it); binary frames larger than the 2048-byte scratch buffer whose last field claims 1-8 bytes more than the frame holds (exactly-sized heap receive buffer: an over-read is an ASan report); tunnel receivers whose MTU is fitted to the last datagram.',
    'C03': 'Also: the templating gateway in each of the 10 encodings, with the encoding changed in mid-stream in half of the cases (finding F39); the micro C sender keeps preparing Messages while earlier ones are still partly in its (small) output buffer, so that the buffer is compacted with output pending.',
    'C04': 'Also: SETDATA with the supercede flag (earlier queued updates of the same node are dropped in favour of the new one).',
    'C05': 'Also (traversal mode): a third of the multi-key GETDATAs carry one filter per key (v == k, or an empty placeholder); node payloads differ in v; PathMatcher::MatchesPath is called with the payload and compared, node by node, with an independent key-by-key evaluation (clause-by-clause match, then that key\'s own filter) as well as with the traversal.',
    'C06': 'Also (isolation): fully-qualified paths that begin with the characters of the adversary\'s own root path and then go on (a neighbour\'s address that a careless prefix test takes for one\'s own); after every adversary command no node may exist outside the subtrees of the connected sessions; a server that grants some privileges but not the one a command needs.',
    'C07': 'Also: raw-bytes filters (RawDataQueryFilter, all 12 operators, byte strings shorter than / as long as / longer than the field values they meet, with and without a default) in the shared command generator.',
    'C08': 'Also: the MiniMessage builder puts a third of the fields under a longer working name and renames them (MMRenameField) to their real, shorter name, a third the other way round; the common frame stream is also read by the C++ MessageIOGateway.',
    'C10': 'Also: the only reference to an object stops counting (SetRef(p, false): the object is in its owner\'s custody, must stay intact and must not be handed out by the pool) and resumes; after every history, on the idle pool, obtain/release cycles of a single object must settle (a settled cycle constructs and destroys nothing: released objects are kept within the budget).',
    'C11': 'Also: an owner that collects replies by dispatched callbacks only (it sleeps until its callback mechanism is asked for a dispatch); a Thread started and shut down with nothing ever sent.',
    'C12': 'Also (stream transport): the stream accepts the sender\'s writes in generated pieces (short writes, would-block); a third of the packet-tunnel cases with a slave use a RawDataMessageIOGateway slave with chunks of up to 20000 bytes (more than that gateway reads in one call), compared as a byte stream.',
    'C13': 'Also: SETDATA with the supercede flag on indexed nodes while index updates are still queued.',
    'C14': 'Also (arbitrary expression strings): point and rect operands and casts with components missing, defaults in point/rect syntax.',
    'C15': 'Also: matcher objects that held a pattern of another kind before (negated, numeric range, literal, regex, comma list); SegmentedStringMatcher objects given two patterns in a row, either possibly negated as a whole; PathMatcher holding 1-4 path patterns of depth 1-2 (one possibly removed again) against all paths over a 5-name alphabet, with and without leading slash, compared with a pattern-by-pattern, clause-by-clause evaluation.',
    'C16': 'Also: far-out indices (0xFFFFFFFF = a failed search passed on, 0x80000000, 0x7FFFFFFF) for RemoveItemAt / ReplaceItemAt / IsIndexValid / GetWithDefault / RemoveItemAtWithDefault; InsertItemsAt with a sub-range of the Queue itself.',
    'C17': 'Also: the char-typed tests (StartsWith / EndsWith / Equals and their IgnoreCase forms) asked about the String\'s own first and last byte (any byte value), their case-flipped twins and a foreign byte.',
    'C19': 'Also: in a quarter of the cases the pool is shut down in mid-history (AbstractObjectRecycler::GlobalFlushAllCachedObjects(), the public route to ThreadPool::Shutdown()) as soon as a submitter waits in an unregistration with Messages outstanding: the shutdown must return with no handler running, an unregistration that returns from then on must find no handler of its client running and an in-order, duplicate-free prefix handled (what was pending is dropped with the pool, by design), later submissions may be refused. Second target (c19_tsan): 2-6 real user threads, each with clients of its own, register / submit / unregister against one shared pool of 1-4 threads, free-running under ThreadSanitizer, which sees what the scheduler cannot (a table of the pool touched outside its lock); the functional oracle runs there too. TSan silence proves nothing beyond the runs made.',
    'C20': 'Second target (c20_server): the pulse tree as the ReflectServer event loop drives it, under the library clock moved with SetPerProcessRunTime64Offset(): the server object, sessions, their gateways, session factories (ready or not ready to accept) and plain nodes below the server and below factories answer GetPulseTime() with generated times; one step = ServerProcessLoop(0, &next). Oracle: every participant that is part of the server was asked before the wait, the reported wake-up equals the minimum of the answers, a participant whose time is at or before the clock reading taken before the cycle has fired, none whose time is after the reading taken after the cycle has, scheduled time = requested time, never twice per cycle, never outside the loop, never after leaving. First target also: GetPulseTime() answers that invalidate a child or adopt a detached node.',
}
for _k, _v in _LATER.items():
    _t = CHECKS[_k]['level_text']
    CHECKS[_k]['level_text'] = (_t if isinstance(_t, str) else ''.join(_t)) + ' ' + _v


def setup():
    t0 = time.time()
    import driver
    with B.Lock():
        B.build_lib('asan')
        for pid in sorted(CHECKS):
            for spec in CHECKS[pid]['targets']:
                if spec.get('variant', 'asan') != 'asan':
                    B.build_lib(spec['variant'])
                B.build_harness(spec['name'], spec, ('pr',))
    print('setup done in %.0fs' % (time.time() - t0))
    return 0
