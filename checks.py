"""Registry of checks: property id -> targets, budgets, evidence texts."""
import os, sys, time
sys.path.insert(0, os.path.join(os.path.dirname(os.path.abspath(__file__)), 'engine'))
import build as B

CHECKS = {}
NOT_YET = {}
NOTES = ('All checks are property-based / fuzzing checks: a harness decodes a byte string into a structured case (operation history, Message, '
         'segmentation plan, fault plan, thread schedule), runs it against the real code built from /repo\'s working tree with ASan+UBSan, and '
         'evaluates an explicit oracle. quick = regression inputs + a fixed number of cases from a splitmix64 stream seeded by VERIF_SEED on 16 '
         'worker processes; thorough = ten times as many seeded cases plus a coverage-guided libFuzzer campaign on the same harness. '
         'known_findings.json lists genuine defects (fixed ones with their commit; open ones are reported as KNOWN-FINDING lines).')
ENGINES = [
    {'name': 'PR', 'path': 'engine/runner_main.cpp', 'serves_properties': [], 'kind_free_text': 'seeded standalone runner: byte strings from splitmix64(VERIF_SEED) decoded into structured cases; pure function of tree and seed'},
    {'name': 'FZ', 'path': 'engine/fuzz_main.cpp', 'serves_properties': [], 'kind_free_text': 'libFuzzer (-fsanitize=fuzzer,address,undefined), fork mode, same harness entry point; thorough tier'},
]

CHECKS['C16'] = {
    'level': 'exploration',
    'technique': 'model-based property testing: generated operation histories against a std::deque reference model, ASan/UBSan, instance-counting item type',
    'level_text': ('Generated-history search with a reference-model oracle after every operation. Millions of histories per run reach every operation '
                   'kind on wrapped rings, across the inline/heap boundary and with self-aliasing operands; a held verdict means no disagreement and '
                   'no memory error on everything generated, not absence.'),
    'level_note': 'Trusted: std::deque as the ideal sequence; the per-method doc comments in util/Queue.h as the contract of each operation.',
    'rule': ('Byte-decoded operation histories (<=200 ops over 46 operation kinds, values 0..15, two queues) on Queue<int> and an instance-counted '
             'poison-on-destroy Queue<Tracked>, compared after every operation with a std::deque model (size, every index, Head/Tail, both array '
             'segments, HeadPointer contiguity when normalized, iterators both ways, status codes). Non-trivial: at least one operation ran while the '
             'ring was wrapped, or a reallocation happened while the head slot was not slot 0, or an operand aliased the queue itself. '
             'Distinct: hash of the decoded (op, arguments) sequence.'),
    'assumptions': ['each operation is modelled after its own doc comment in util/Queue.h',
                    'FastClear is generated for the trivially-typed item type only (documented to leave non-POD items behind)',
                    'self-doubling operations are skipped above 2000 items'],
    'targets': [
        {'name': 'c16_queue', 'src': ['harness/C16_queue.cpp'], 'quick_n': 2000000, 'thorough_n': 40000000, 'maxlen': 400, 'min_nontrivial': 100000,
         'class_floors': {'case_with_op_on_wrapped_ring': 50000, 'case_with_aliasing_operand': 50000, 'item_type_tracked': 200000, 'max_size_13_to_64': 20000}},
    ],
}

CHECKS['C17'] = {
    'level': 'exploration',
    'technique': 'model-based property testing: generated operation histories on muscle::String against a std::string reference model, ASan/UBSan, flatten round-trip and truncation rejection',
    'level_text': ('Generated-history search with a reference-model oracle after every operation (length, bytes incl. the NUL, strlen, FlattenedSize), operand '
                   'lengths concentrated on 0,1,2,7,14..17,31..33,64 so nearly every history crosses the 15/16 small-buffer boundary, and self-aliasing '
                   'operands in a dozen operation kinds. Held = no disagreement and no memory error on everything generated.'),
    'level_note': 'Trusted: std::string / libc string functions as the ideal byte string; each String method\'s doc comment as its contract. Search needles are non-empty (the doc comment does not decide the empty needle at fromIndex==Length()).',
    'rule': ('Byte-decoded histories (<=120 ops over 48 kinds) on two String objects compared with std::string models after every op. Non-trivial: an operation moved '
             'the length across the 15/16 small-buffer boundary in either direction, or had an operand aliasing the String itself. Distinct: hash of the decoded op/argument bytes.'),
    'assumptions': ['numeric-parse member functions do not exist in util/String.h at this commit; Arg() substitution is checked on templates with single-digit tokens and %-free values'],
    'targets': [
        {'name': 'c17_string', 'src': ['harness/C17_string.cpp'], 'quick_n': 6000000, 'thorough_n': 60000000, 'maxlen': 300, 'min_nontrivial': 400000,
         'class_floors': {'case_crossing_small_buffer_boundary': 100000, 'case_with_aliasing_operand': 100000, 'unflatten_truncated_rejected': 1000}},
    ],
}


def setup():
    t0 = time.time()
    import driver
    with B.Lock():
        B.build_lib('asan')
        for pid in sorted(CHECKS):
            for spec in CHECKS[pid]['targets']:
                if spec.get('variant', 'asan') != 'asan':
                    B.build_lib(spec['variant'])
                B.build_harness(spec['name'], spec, ('pr',))
    print('setup done in %.0fs' % (time.time() - t0))
    return 0
