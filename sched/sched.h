// Engine SC: harness-owned scheduler.  Logical threads are real OS threads, but exactly one holds
// the run token.  Every hook point in the library (Mutex, WaitCondition, AtomicCounter, Thread
// lifecycle, socket wait; guard MUSCLE_VERIF_HOOKS) calls in here, and the *schedule source* picks
// which runnable thread continues.  Blocking is a predicate the scheduler evaluates itself, so lost
// wake-ups and deadlocks become finite, replayable counterexamples (no thread runnable, none can
// time out, some unfinished).  Timed waits add the choice "fire the timeout", which advances a
// virtual clock to the deadline.
#ifndef VF_SCHED_H
#define VF_SCHED_H

#include "engine/harness.h"
#include "support/MuscleVerifHooks.h"
#include <condition_variable>
#include <functional>
#include <map>
#include <mutex>
#include <thread>
#include <vector>
#include <string>
#include <unistd.h>
#include <poll.h>

namespace vsched {

// A schedule is a sequence of small integers: at each choice point, which of the n candidates runs.
struct Source
{
   std::vector<uint8_t> trace;      // choices actually made
   std::vector<uint8_t> widths;     // number of candidates at each choice point
   std::vector<int8_t> curs;        // index of the running thread among the candidates at each choice point (-1: it could not continue)
   virtual ~Source() {}
   virtual uint32_t Pick(uint32_t n, int currentIdx /* index of the running thread among the candidates, or -1 */) = 0;
   uint32_t Record(uint32_t n, uint32_t r, int cur) {trace.push_back((uint8_t)r); widths.push_back((uint8_t)n); curs.push_back((int8_t)cur); return r;}
};

// choices decoded from the case bytes; when they run out: round robin (so every thread keeps making progress)
struct ByteSource : public Source
{
   vf::BS & bs; uint32_t rr; uint8_t stayMask;     // the running thread continues when (byte & stayMask) != 0
   ByteSource(vf::BS & b, uint8_t stay = 0xC0) : bs(b), rr(0), stayMask(stay) {}
   virtual uint32_t Pick(uint32_t n, int cur)
   {
      if (n <= 1) return Record(n, 0, cur);
      if (bs.done()) {rr++; return Record(n, ((cur >= 0)&&(rr%8 != 0)) ? (uint32_t)cur : ((rr/8)%n), cur);}    // out of bytes: mostly let the current thread run on, but hand over regularly so that polling loops cannot starve the others
      const uint8_t b = bs.u8();
      // bias towards staying on the current thread (long runs + few preemptions find more than uniform noise)
      if ((cur >= 0)&&((b & stayMask) != 0)) return Record(n, (uint32_t)cur, cur);
      return Record(n, (uint32_t)(b%n), cur);
   }
};

// replays a prefix, then always takes the first allowed alternative; used by the DFS enumerator
struct PrefixSource : public Source
{
   std::vector<uint8_t> prefix; uint32_t preemptions, bound;
   PrefixSource(const std::vector<uint8_t> & p, uint32_t preemptionBound) : prefix(p), preemptions(0), bound(preemptionBound) {}
   virtual uint32_t Pick(uint32_t n, int cur)
   {
      const size_t i = trace.size();
      uint32_t r;
      if (i < prefix.size()) r = (prefix[i] < n) ? prefix[i] : 0;
      else r = (cur >= 0) ? (uint32_t)cur : 0;           // default: do not preempt
      if ((cur >= 0)&&((int)r != cur)) preemptions++;
      return Record(n, r, cur);
   }
};

// OS threads are reused across cases: creating a thread under ASan (fresh stack, shadow poisoning) costs far more than a whole schedule.
class ThreadPool
{
public:
   struct W {std::thread th; std::function<void()> job; bool has; bool busy; W() : has(false), busy(false) {}};
   static ThreadPool & Get() {static ThreadPool * p = new ThreadPool; return *p;}   // never destroyed: workers live for the whole process
   void Submit(std::function<void()> fn)
   {
      std::unique_lock<std::mutex> lk(_mu);
      W * w = NULL; for (size_t i=0; i<_ws.size(); i++) if (_ws[i]->busy == false) {w = _ws[i]; break;}
      if (w == NULL) {w = new W; _ws.push_back(w); W * ww = w; w->th = std::thread([this, ww]{Loop(ww);}); w->th.detach();}
      w->job = fn; w->has = true; w->busy = true; _outstanding++; _cv.notify_all();
   }
   void WaitAllDone() {std::unique_lock<std::mutex> lk(_mu); while(_outstanding > 0) _done.wait(lk);}
private:
   ThreadPool() : _outstanding(0) {}
   void Loop(W * w)
   {
      while(true)
      {
         std::function<void()> job;
         {std::unique_lock<std::mutex> lk(_mu); while(w->has == false) _cv.wait(lk); job = w->job; w->has = false;}
         job();
         {std::unique_lock<std::mutex> lk(_mu); w->job = std::function<void()>(); w->busy = false; _outstanding--; _done.notify_all();}
      }
   }
   std::mutex _mu; std::condition_variable _cv, _done; std::vector<W *> _ws; int _outstanding;
};

class Scheduler : public muscle_verif::Hooks
{
public:
   enum {RUNNABLE, BLOCKED, FINISHED};
   struct T
   {
      const char * why; int state; std::function<bool()> pred; bool canTimeout; bool timedOut; uint64_t deadline;
      std::condition_variable cv; bool go; std::thread th; std::map<std::string, uint64_t> blocks;
      T() : why(""), state(RUNNABLE), canTimeout(false), timedOut(false), deadline((uint64_t)-1), go(false) {}
   };
   struct M {int owner; int count; M() : owner(-1), count(0) {}};

   Scheduler(Source & c) : _c(c), _cur(-1), _switches(0), _preemptions(0), _timeoutsFired(0), _blockedThenResumed(0), _vclock(1000000), _maxSwitches(400000) {}
   ~Scheduler() {for (size_t i=0; i<_t.size(); i++) delete _t[i];}

   // every entry point takes the scheduler lock, including spawn() before run()
   int Spawn(std::function<void()> fn)
   {
      std::unique_lock<std::mutex> lk(_mu);
      const int id = (int)_t.size(); _t.push_back(new T);
      ThreadPool::Get().Submit([this, id, fn]{WaitForTurn(id); fn(); Finish(id);});
      return id;
   }
   void Run()   // called from the driver thread (not a logical thread)
   {
      muscle_verif::g_hooks = this;
      {std::unique_lock<std::mutex> lk(_mu); PickNext(lk, -1);}
      ThreadPool::Get().WaitAllDone();
      muscle_verif::g_hooks = NULL;
   }
   uint64_t Switches() const {return _switches;}
   uint64_t Preemptions() const {return _preemptions;}
   uint64_t TimeoutsFired() const {return _timeoutsFired;}
   uint64_t BlockedThenResumed() const {return _blockedThenResumed;}
   uint64_t Now() const {return _vclock;}
   int Current() const {return _cur;}
   // (called by the running logical thread only, so no other thread is inside the scheduler)
   bool IsBlockedOn(int id, const char * why) const {return ((id >= 0)&&((size_t)id < _t.size())&&(_t[id]->state == BLOCKED)&&(strcmp(_t[id]->why, why) == 0));}
   uint64_t BlockedCount(int id, const char * why) const {if ((id < 0)||((size_t)id >= _t.size())) return 0; std::map<std::string, uint64_t>::const_iterator it = _t[id]->blocks.find(why); return (it == _t[id]->blocks.end()) ? 0 : it->second;}
   size_t NumThreads() const {return _t.size();}
   void SetContext(const std::string & s) {_context = s;}

   // ---- hooks --------------------------------------------------------------------------------
   virtual void MutexLock(const void * m)
   {
      const int me = _cur; if (me < 0) return;
      YieldNow();
      std::unique_lock<std::mutex> lk(_mu);
      M & mm = _m[m];
      if ((mm.owner != -1)&&(mm.owner != me)) Block(lk, me, [this, m]{return _m[m].owner == -1;}, false, (uint64_t)-1, "mutex");
      M & m2 = _m[m]; m2.owner = me; m2.count++;
   }
   virtual bool MutexTryLock(const void * m)
   {
      const int me = _cur; if (me < 0) return true;
      YieldNow();
      std::unique_lock<std::mutex> lk(_mu);
      M & mm = _m[m]; if ((mm.owner != -1)&&(mm.owner != me)) return false;
      mm.owner = me; mm.count++; return true;
   }
   virtual void MutexUnlock(const void * m)
   {
      if (_cur < 0) return;
      {std::unique_lock<std::mutex> lk(_mu); M & mm = _m[m]; if (mm.count > 0) {if (--mm.count == 0) mm.owner = -1;}}
      YieldNow();
   }
   virtual bool CondWait(const void *, volatile uint32_t * counter, uint64_t deadline, uint32_t * ret)
   {
      const int me = _cur; if (me < 0) {if (ret) *ret = *counter; *counter = 0; return true;}
      YieldNow();
      std::unique_lock<std::mutex> lk(_mu);
      bool timedOut = false;
      if (*counter == 0)
      {
         if (deadline <= _vclock) timedOut = true;
         else
         {
            Block(lk, me, [counter]{return *counter > 0;}, deadline != (uint64_t)-1, deadline, "wait-condition");
            timedOut = _t[me]->timedOut; _t[me]->timedOut = false;
         }
      }
      if ((timedOut)&&(*counter == 0)) return false;
      if (ret) *ret = *counter;
      *counter = 0;
      return true;
   }
   virtual void CondNotify(const void *, volatile uint32_t * counter, uint32_t incr)
   {
      if (_cur < 0) {*counter += incr; return;}
      {std::unique_lock<std::mutex> lk(_mu); *counter += incr;}
      YieldNow();
   }
   virtual void ThreadSpawned(const void * t) {if (_cur < 0) return; std::unique_lock<std::mutex> lk(_mu); while(_byObj.count(t) == 0) _regCv.wait(lk);}   // the spawner really waits until the child registered, so logical thread ids are deterministic
   virtual void ThreadBegin(const void * t) {std::unique_lock<std::mutex> lk(_mu); const int id = (int)_t.size(); _t.push_back(new T); _byObj[t] = id; _regCv.notify_all(); Park(lk, id);}
   virtual void ThreadEnd(const void * t) {std::unique_lock<std::mutex> lk(_mu); const int id = _byObj[t]; _t[id]->state = FINISHED; PickNext(lk, id);}
   virtual void ThreadJoin(const void * t)
   {
      const int me = _cur; if (me < 0) return;
      YieldNow();
      std::unique_lock<std::mutex> lk(_mu);
      if (_byObj.count(t) == 0) return;
      const int id = _byObj[t];
      if (_t[id]->state != FINISHED) Block(lk, me, [this, id]{return _t[id]->state == FINISHED;}, false, (uint64_t)-1, "join");
      _byObj.erase(t);
   }
   static bool Readable(int fd) {struct pollfd p; p.fd = fd; p.events = POLLIN; p.revents = 0; return (poll(&p, 1, 0) > 0);}
   virtual void WaitReadable(int fd, uint64_t deadline)
   {
      const int me = _cur; if (me < 0) return;
      YieldNow();
      std::unique_lock<std::mutex> lk(_mu);
      if (Readable(fd) == false)
      {
         if (deadline <= _vclock) return;
         Block(lk, me, [fd]{return Readable(fd);}, deadline != (uint64_t)-1, deadline, "socket-readable");
         _t[me]->timedOut = false;
      }
   }
   virtual void Yield() {if (_cur >= 0) YieldNow();}
   virtual bool VirtualTime(uint64_t * ret) {*ret = _vclock; return true;}

   // an explicit preemption point for harness code (e.g. inside a handler, or between a check and an act)
   void YieldNow() {std::unique_lock<std::mutex> lk(_mu); const int me = _cur; if (me < 0) return; PickNext(lk, me); Park(lk, me);}
   // blocks the calling logical thread until pred() holds (harness-level waits, e.g. a gate)
   void WaitUntil(std::function<bool()> pred, const char * why) {const int me = _cur; YieldNow(); std::unique_lock<std::mutex> lk(_mu); if (pred() == false) Block(lk, me, pred, false, (uint64_t)-1, why);}

private:
   void WaitForTurn(int id) {std::unique_lock<std::mutex> lk(_mu); Park(lk, id);}
   void Park(std::unique_lock<std::mutex> & lk, int id) {T * t = _t[id]; while(t->go == false) t->cv.wait(lk); t->go = false;}
   void Finish(int id) {std::unique_lock<std::mutex> lk(_mu); _t[id]->state = FINISHED; PickNext(lk, id);}
   void Block(std::unique_lock<std::mutex> & lk, int me, std::function<bool()> pred, bool canTimeout, uint64_t deadline, const char * why)
   {
      T * t = _t[me]; t->why = why; t->state = BLOCKED; t->pred = pred; t->canTimeout = canTimeout; t->deadline = deadline; t->blocks[why]++;
      PickNext(lk, me); Park(lk, me);
      t->state = RUNNABLE; _blockedThenResumed++;
   }
   void PickNext(std::unique_lock<std::mutex> &, int from)
   {
      std::vector<int> cand; std::vector<bool> viaTimeout; int curIdx = -1;
      for (size_t i=0; i<_t.size(); i++)
      {
         T * t = _t[i];
         if (t->state == RUNNABLE) {if ((int)i == from) curIdx = (int)cand.size(); cand.push_back((int)i); viaTimeout.push_back(false);}
         else if (t->state == BLOCKED)
         {
            if (t->pred()) {cand.push_back((int)i); viaTimeout.push_back(false);}
            else if (t->canTimeout) {cand.push_back((int)i); viaTimeout.push_back(true);}
         }
      }
      if (cand.empty())
      {
         bool allDone = true; for (size_t i=0; i<_t.size(); i++) if (_t[i]->state != FINISHED) allDone = false;
         if (allDone == false)
         {
            std::string s; char b[96];
            for (size_t i=0; i<_t.size(); i++) {snprintf(b, sizeof(b), " [thread %zu: %s%s%s]", i, (_t[i]->state == FINISHED) ? "finished" : "blocked on ", (_t[i]->state == FINISHED) ? "" : _t[i]->why, ""); s += b;}
            std::string tr; for (size_t i=0; (i<_c.trace.size())&&(i<400); i++) {snprintf(b, sizeof(b), " %u", _c.trace[i]); tr += b;}
            vf::Fail("DEADLOCK after %llu context switches (%s):%s; schedule:%s", (unsigned long long)_switches, _context.c_str(), s.c_str(), tr.c_str());
         }
         _cur = -1; return;
      }
      if (_switches >= _maxSwitches) vf::Fail("schedule exceeded %llu context switches without finishing (%s)", (unsigned long long)_maxSwitches, _context.c_str());
      const uint32_t k = _c.Pick((uint32_t)cand.size(), curIdx);
      const int nx = cand[(k < cand.size()) ? k : 0];
      if (viaTimeout[(k < cand.size()) ? k : 0]) {_t[nx]->timedOut = true; _timeoutsFired++; if ((_t[nx]->deadline != (uint64_t)-1)&&(_t[nx]->deadline > _vclock)) _vclock = _t[nx]->deadline;}
      if ((curIdx >= 0)&&(nx != from)) _preemptions++;
      if ((vf::Verbose())&&((_switches < 400)||((_switches%50000) < 60))) {fprintf(stderr, "   [sched %llu] %d -> %d%s  |", (unsigned long long)_switches, from, nx, viaTimeout[(k < cand.size()) ? k : 0] ? " (timeout fires)" : ""); for (size_t i=0; i<_t.size(); i++) fprintf(stderr, " t%zu:%s", i, (_t[i]->state == FINISHED) ? "done" : ((_t[i]->state == BLOCKED) ? _t[i]->why : "run")); fprintf(stderr, "\n");}
      _switches++; _cur = nx; _t[nx]->go = true; _t[nx]->cv.notify_one();
   }

   Source & _c; std::mutex _mu; std::vector<T *> _t; std::map<const void *, M> _m; std::map<const void *, int> _byObj; std::condition_variable _regCv;
   int _cur; uint64_t _switches, _preemptions, _timeoutsFired, _blockedThenResumed; uint64_t _vclock; uint64_t _maxSwitches; std::string _context;
};

// Bounded exhaustive enumeration of schedules: stateless DFS over the choice points with a preemption bound
// (an alternative taken while the running thread could have continued costs one preemption; choices forced by
// the running thread blocking or finishing are free).  Every complete schedule within the bound is run exactly once.
// runOne(source) must build the scenario afresh, run it under a Scheduler using (source), and evaluate its oracle.
inline bool EnumerateSchedules(uint32_t preemptionBound, uint64_t maxSchedules, std::function<void(Source &)> runOne, uint64_t & explored)
{
   std::vector<std::vector<uint8_t> > stack; stack.push_back(std::vector<uint8_t>());
   explored = 0;
   while(stack.size())
   {
      if (explored >= maxSchedules) return false;
      const std::vector<uint8_t> prefix = stack.back(); stack.pop_back();
      PrefixSource src(prefix, preemptionBound);
      runOne(src);
      explored++;
      // positions past the prefix were decided by the default (never a preemption), so the preemptions used so far are those of the prefix
      for (size_t i=src.trace.size(); i-- > prefix.size(); )
      {
         const uint32_t n = src.widths[i]; const int cur = src.curs[i];
         for (uint32_t alt=0; alt<n; alt++)
         {
            if (alt == src.trace[i]) continue;
            const uint32_t cost = ((cur >= 0)&&((int)alt != cur)) ? 1 : 0;
            if (src.preemptions+cost > preemptionBound) continue;
            std::vector<uint8_t> np(src.trace.begin(), src.trace.begin()+i); np.push_back((uint8_t)alt);
            stack.push_back(np);
         }
      }
   }
   return true;
}

}  // namespace vsched

#endif
